package cla

import (
	"fmt"
	"io"
	"sort"
	"sync"
	"sync/atomic"
	"testing"
	"time"

	log "github.com/sirupsen/logrus"

	"github.com/dtn7/dtn7-go/pkg/bpv7"
	vk "github.com/dtn7/dtn7-go/pkg/verifkit"
	"pgregory.net/rapid"
)

// C16 — the CLA manager reports an adapter active exactly while it is started.

const (
	outOK      = 0
	outRetry   = 1
	outNoRetry = 2
)

type c16Op struct {
	Op  string `json:"op"` // reg, rereg, unregdup, regagain, unreg, feed, peergone, restart
	X   int    `json:"x"`
	Out int    `json:"out"`
}

type c16Case struct {
	Budget int     `json:"budget"`
	Perm   []bool  `json:"perm"`
	Sender []bool  `json:"sender"`
	Ops    []c16Op `json:"ops"`
	Spare  []int   `json:"spare"` // outcomes for starts that no op asked for (ticks on other waiting adapters)
}

// vfConv is a scripted adapter: every Start blocks at a gate until the harness supplies the outcome.
type vfConv struct {
	idx       int
	inst      int
	addr      string
	eid       bpv7.EndpointID
	permanent bool
	sender    bool
	h         *c16Harness
	ctl       bool // control adapter: runs harness code on the manager's handler goroutine
	outcome   chan int
	status    chan ConvergenceStatus
	starts    int32
	closes    int32
}

type vfConvSender struct{ *vfConv }

type vfConvRecv struct{ *vfConv }

func (v *vfConv) Start() (error, bool) {
	if v.ctl {
		// called by the retry tick on the manager's handler goroutine; the adapter never starts
		if f := v.h.takePending(); f != nil {
			f()
		}
		return fmt.Errorf("control adapter never starts"), true
	}
	atomic.AddInt32(&v.starts, 1)
	v.h.events <- vfEvent{v, false}
	o := <-v.outcome
	switch o {
	case outOK:
		return nil, false
	case outRetry:
		return fmt.Errorf("scripted failure, retry"), true
	default:
		return fmt.Errorf("scripted failure, no retry"), false
	}
}

func (v *vfConv) Close() error {
	atomic.AddInt32(&v.closes, 1)
	if !v.ctl {
		v.h.events <- vfEvent{v, true}
	}
	return nil
}
func (v *vfConv) Channel() chan ConvergenceStatus   { return v.status }
func (v *vfConv) Address() string                   { return v.addr }
func (v *vfConv) IsPermanent() bool                 { return v.permanent }
func (v vfConvRecv) GetEndpointID() bpv7.EndpointID { return v.eid }
func (v *vfConv) String() string                    { return fmt.Sprintf("vfConv(%s#%d)", v.addr, v.inst) }

func (v vfConvSender) Send(bpv7.Bundle) error             { return nil }
func (v vfConvSender) GetPeerEndpointID() bpv7.EndpointID { return v.eid }

// as returns the value to hand to the manager (a sender or a receiver).
func (v *vfConv) as() Convergence {
	if v.sender {
		return vfConvSender{v}
	}
	return vfConvRecv{v}
}

type c16Model struct {
	registered bool
	active     bool
	budget     int
	forgetting bool // exhausted: silently dropped at the next retry tick
	okStarts   int
	closes     int
}

type vfEvent struct {
	v     *vfConv
	close bool
}

type c16Harness struct {
	events       chan vfEvent // Start (blocked at its gate) and Close calls, in the order they happened
	pushback     []vfEvent
	pendMu       sync.Mutex
	pending      func()
	c            *vk.Ctx
	cs           *c16Case
	m            *Manager
	conv         []*vfConv // current instance per adapter index
	model        []c16Model
	blocked      chan *vfConv
	closed       chan *vfConv
	spare        int
	fwd          int32 // statuses seen on the manager's out channel
	stop         chan struct{}
	trace        []string
	released     []int // Start calls released per adapter index
	relAll       int
	fresh        []int32 // per adapter: the next Start belongs to a fresh registration (see regagain)
	avoidNoRetry int     // adapter whose Starts must not be answered with "do not retry" during the current step (-1: none)
}

func (h *c16Harness) logf(format string, a ...interface{}) {
	h.trace = append(h.trace, fmt.Sprintf(format, a...))
}

func (h *c16Harness) fail(tag, format string, a ...interface{}) {
	msg := fmt.Sprintf(format, a...)
	h.c.Failf(tag, "%s\ntrace: %v", msg, h.trace)
}

func (h *c16Harness) newConv(i int) *vfConv {
	inst := 0
	if h.conv[i] != nil {
		inst = h.conv[i].inst + 1
	}
	return &vfConv{idx: i, inst: inst, addr: fmt.Sprintf("vf://adapter-%d", i), eid: bpv7.MustNewEndpointID(fmt.Sprintf("dtn://peer-%d/", i)),
		permanent: h.cs.Perm[i], sender: h.cs.Sender[i], h: h, outcome: make(chan int, 4), status: make(chan ConvergenceStatus)}
}

func (h *c16Harness) nextSpare() int {
	if len(h.cs.Spare) == 0 {
		return outRetry
	}
	o := h.cs.Spare[h.spare%len(h.cs.Spare)]
	h.spare++
	return o
}

// onStart applies an observed Start call to the model and releases it with outcome out.
func (h *c16Harness) onStart(v *vfConv, out int) {
	md := &h.model[v.idx]
	if v.idx >= 0 && atomic.CompareAndSwapInt32(&h.fresh[v.idx], 1, 0) {
		h.logf("(adapter %d had been forgotten: fresh registration)", v.idx)
		*md = c16Model{registered: true, budget: h.cs.Budget, okStarts: md.okStarts, closes: md.closes}
	}
	h.logf("Start(%d#%d)->%d", v.idx, v.inst, out)
	if v != h.conv[v.idx] {
		h.fail("c16.illegal-start", "Start called on instance #%d of adapter %d, but instance #%d is the registered one", v.inst, v.idx, h.conv[v.idx].inst)
	}
	if !md.registered {
		h.fail("c16.illegal-start", "Start called on adapter %d which is not registered (forgotten or unregistered)", v.idx)
	}
	if md.active {
		h.fail("c16.illegal-start", "Start called on adapter %d which is already started", v.idx)
	}
	if !v.permanent && md.budget <= 0 {
		h.fail("c16.illegal-start", "Start called on non-permanent adapter %d whose retry budget is used up", v.idx)
	}
	switch out {
	case outOK:
		md.active = true
		md.okStarts++
	case outRetry:
		if md.budget > 0 {
			md.budget--
		}
		if !v.permanent && md.budget == 0 {
			md.forgetting = true
		}
	case outNoRetry:
		// dropped from the registry right after this Start returns (check() waits for that)
		md.forgetting = true
		md.budget = 0
	}
	h.released[v.idx]++
	h.relAll++
	v.outcome <- out
}

func (h *c16Harness) onClose(v *vfConv) {
	md := &h.model[v.idx]
	h.logf("Close(%d#%d)", v.idx, v.inst)
	if !md.active {
		h.fail("c16.illegal-close", "Close called on adapter %d which is not started (never started, or already stopped)", v.idx)
	}
	md.active = false
	md.closes++
}

// drive feeds gated Start calls and records Close calls until the condition holds.
// opOut is the outcome for the first Start of adapter opX (the one the current step asked for).
func (h *c16Harness) drive(what string, until func() bool, opX int, opOut int, maxWait time.Duration) bool {
	deadline := time.After(maxWait)
	used := false
	handle := func(e vfEvent) {
		if e.close {
			h.onClose(e.v)
			return
		}
		out := -1
		if (e.v.idx == opX || opX == -2) && !used {
			out, used = opOut, true
		} else {
			out = h.nextSpare()
		}
		if out == outNoRetry && e.v.idx == h.avoidNoRetry {
			// (a permanent adapter started from inside Register: what "do not retry" means there is not stated)
			out = outRetry
		}
		h.onStart(e.v, out)
	}
	next := func(wait bool) (vfEvent, bool) {
		if len(h.pushback) > 0 {
			e := h.pushback[0]
			h.pushback = h.pushback[1:]
			return e, true
		}
		if !wait {
			select {
			case e := <-h.events:
				return e, true
			default:
				return vfEvent{}, false
			}
		}
		select {
		case e := <-h.events:
			return e, true
		case <-time.After(time.Millisecond):
			return vfEvent{}, false
		}
	}
	for {
		if until() {
			// take Close notifications that are already there; a Start stays queued for the next step
			for {
				e, ok := next(false)
				if !ok {
					break
				}
				if !e.close {
					h.pushback = append([]vfEvent{e}, h.pushback...)
					break
				}
				h.onClose(e.v)
			}
			return true
		}
		select {
		case <-deadline:
			return false
		default:
		}
		if e, ok := next(true); ok {
			handle(e)
		}
	}
}

// inHandlerRaw schedules f for the handler goroutine and returns when it has run (no driving).
func (h *c16Harness) inHandlerRaw(f func()) {
	done := make(chan struct{})
	h.pendMu.Lock()
	h.pending = func() { f(); close(done) }
	h.pendMu.Unlock()
	<-done
}

// takePending hands the code to be run on the handler goroutine to the control adapter.
func (h *c16Harness) takePending() func() {
	h.pendMu.Lock()
	defer h.pendMu.Unlock()
	f := h.pending
	h.pending = nil
	return f
}

// inHandler runs f on the manager's handler goroutine (inside a retry tick), which is where
// the manager itself calls Unregister and Restart, and drives gated adapters meanwhile.
func (h *c16Harness) inHandler(what string, f func(), opX, opOut int) {
	var done int32
	h.pendMu.Lock()
	h.pending = func() { f(); atomic.StoreInt32(&done, 1) }
	h.pendMu.Unlock()
	if !h.drive(what, func() bool { return atomic.LoadInt32(&done) == 1 }, opX, opOut, 5*time.Second) {
		h.fail("c16.deadlock", "%s did not complete on the manager's goroutine within 5 s", what)
	}
}

func (h *c16Harness) waiting(i int) bool {
	md := &h.model[i]
	return md.registered && !md.active && !md.forgetting && (h.cs.Perm[i] || md.budget > 0)
}

// check compares the manager's view with the model (polling: the manager publishes a state
// change slightly after the adapter's Start/Close returned).
func (h *c16Harness) check(step string) {
	want := func() (s, r []string) {
		for i := range h.model {
			if h.model[i].active {
				if h.cs.Sender[i] {
					s = append(s, h.conv[i].addr)
				} else {
					r = append(r, h.conv[i].addr)
				}
			}
		}
		return
	}
	got := func() (s, r []string) {
		for _, x := range h.m.Sender() {
			s = append(s, x.Address())
		}
		for _, x := range h.m.Receiver() {
			r = append(r, x.Address())
		}
		sort.Strings(s)
		sort.Strings(r)
		return
	}
	eq := func(a, b []string) bool {
		if len(a) != len(b) {
			return false
		}
		for i := range a {
			if a[i] != b[i] {
				return false
			}
		}
		return true
	}
	var ws, wr, gs, gr []string
	for round := 0; ; round++ {
		ok := h.drive("check", func() bool {
			ws, wr = want()
			gs, gr = got()
			return eq(ws, gs) && eq(wr, gr)
		}, -1, 0, 2*time.Second)
		if !ok {
			h.fail("c16.active-set", "after %s the manager lists senders %v receivers %v, but the adapters whose last start succeeded and that were not stopped since are senders %v receivers %v", step, gs, gr, ws, wr)
		}
		// adapters that used up their budget are forgotten at the next retry tick
		for i := range h.model {
			if h.model[i].forgetting {
				addr := h.conv[i].addr
				gone := h.drive("forget", func() bool { _, in := h.m.convs.Load(addr); return !in }, -1, 0, 3*time.Second)
				if !gone {
					h.fail("c16.not-forgotten", "adapter %d used up its retry budget (or asked not to be retried) but is still registered after 3 s", i)
				}
				h.model[i].forgetting = false
				h.model[i].registered = false
				h.logf("forgotten(%d)", i)
			}
		}
		// quiescent only if nothing happened meanwhile: no queued Start, and the published state
		// equals the model (the manager publishes a successful start shortly after Start returned)
		ws, wr = want()
		gs, gr = got()
		if len(h.pushback) == 0 && len(h.events) == 0 && eq(ws, gs) && eq(wr, gr) {
			return
		}
		if round > 200 {
			h.fail("c16.active-set", "after %s the manager's view does not settle: senders %v receivers %v, model senders %v receivers %v", step, gs, gr, ws, wr)
		}
		// a queued Start belongs to a retry tick: serve it (with a spare outcome) and look again
		h.drive("settle", func() bool { return len(h.pushback) == 0 && len(h.events) == 0 }, -1, 0, 50*time.Millisecond)
	}
}

func (h *c16Harness) async(f func()) func() bool {
	var done int32
	go func() { f(); atomic.StoreInt32(&done, 1) }()
	return func() bool { return atomic.LoadInt32(&done) == 1 }
}

func (h *c16Harness) register(i int, out int, fresh bool) {
	md := &h.model[i]
	if fresh {
		h.conv[i] = h.newConv(i)
	}
	v := h.conv[i]
	*md = c16Model{registered: true, budget: h.cs.Budget, okStarts: md.okStarts, closes: md.closes}
	expectStart := h.cs.Perm[i] || h.cs.Budget > 0
	if !expectStart {
		md.registered = false // budget 0: never started, not kept
	}
	before := atomic.LoadInt32(&v.starts)
	done := h.async(func() { h.m.Register(v.as()) })
	if !h.drive("register", done, i, out, 5*time.Second) {
		h.fail("c16.deadlock", "Register(adapter %d) did not return within 5 s", i)
	}
	if n := atomic.LoadInt32(&v.starts) - before; expectStart && n < 1 {
		h.fail("c16.no-start", "Register(adapter %d, permanent=%v, budget=%d) did not start the adapter", i, h.cs.Perm[i], h.cs.Budget)
	}
}

func (h *c16Harness) unregister(i int) {
	v := h.conv[i]
	h.inHandler(fmt.Sprintf("Unregister(adapter %d)", i), func() { h.m.Unregister(v.as()) }, -1, 0)
	md := &h.model[i]
	if md.active {
		h.fail("c16.not-stopped", "Unregister(adapter %d) returned but the started adapter was not closed", i)
	}
	md.registered, md.forgetting = false, false
}

func c16Run(c *vk.Ctx, cs c16Case) {
	n := len(cs.Perm)
	h := &c16Harness{c: c, cs: &cs, conv: make([]*vfConv, n), model: make([]c16Model, n), released: make([]int, n), fresh: make([]int32, n), avoidNoRetry: -1,
		events: make(chan vfEvent, 256), stop: make(chan struct{})}
	m := &Manager{
		queueTtl:    int32(cs.Budget),
		retryTime:   4 * time.Millisecond,
		convs:       new(sync.Map),
		listenerIDs: make(map[CLAType][]bpv7.EndpointID),
		inChnl:      make(chan ConvergenceStatus, 100),
		outChnl:     make(chan ConvergenceStatus),
		stopSyn:     make(chan struct{}),
		stopAck:     make(chan struct{}),
	}
	h.m = m
	go m.handler()
	go func() { // the node's core drains the manager's channel
		for range m.Channel() {
			atomic.AddInt32(&h.fwd, 1)
		}
	}()
	for i := range h.conv {
		h.conv[i] = h.newConv(i)
	}
	// the control adapter: permanent, never starts, so every retry tick calls its Start on the
	// handler goroutine. The manager is built with a budget of at least 1 for it.
	ctl := &vfConv{idx: -1, addr: "vf://control", eid: bpv7.MustNewEndpointID("dtn://control/"), permanent: true, h: h, ctl: true,
		outcome: make(chan int, 1), status: make(chan ConvergenceStatus)}
	m.Register(vfConvRecv{ctl})
	failing := false
	for k, op := range cs.Ops {
		i := op.X % n
		md := &h.model[i]
		step := fmt.Sprintf("step %d %s(%d)", k, op.Op, i)
		switch op.Op {
		case "reg":
			if md.registered {
				continue
			}
			h.logf("%s out=%d", step, op.Out)
			if op.Out != outOK {
				failing = true
			}
			h.register(i, op.Out, true)
		case "rereg":
			if !md.active {
				continue
			}
			h.logf("%s", step)
			old := h.conv[i]
			dup := h.newConv(i)
			dup.inst = old.inst + 100
			sb := atomic.LoadInt32(&old.starts)
			done := h.async(func() { m.Register(dup.as()) })
			if !h.drive("rereg", done, -1, 0, 5*time.Second) {
				h.fail("c16.deadlock", "second Register of address %s did not return", old.addr)
			}
			if atomic.LoadInt32(&old.starts) != sb || atomic.LoadInt32(&dup.starts) != 0 {
				h.fail("c16.double-instance", "registering address %s twice started an adapter again", old.addr)
			}
		case "unregdup":
			// another instance with the same address (discovery creates a fresh client object per announcement) is
			// unregistered or reported as gone: the registered, started instance must not be affected
			if !md.active {
				continue
			}
			h.logf("%s", step)
			old := h.conv[i]
			dup := h.newConv(i)
			dup.inst = old.inst + 200
			cb, sb := atomic.LoadInt32(&old.closes), atomic.LoadInt32(&old.starts)
			h.inHandler(fmt.Sprintf("Unregister(another instance of address %s)", old.addr), func() { m.Unregister(dup.as()) }, -1, 0)
			if atomic.LoadInt32(&old.closes) != cb || atomic.LoadInt32(&old.starts) != sb || atomic.LoadInt32(&dup.starts) != 0 {
				h.fail("c16.foreign-instance", "unregistering another instance with address %s closed or restarted the registered adapter", old.addr)
			}
		case "regagain":
			// the address is registered again while the adapter waits for its retry (discovery does this on
			// every beacon of a peer): the manager tries to start the known instance at once
			if !h.waiting(i) {
				continue
			}
			out := op.Out
			if cs.Perm[i] && out == outNoRetry {
				out = outRetry // what "do not retry" means for a permanent adapter on this path is not stated
			}
			h.logf("%s out=%d", step, out)
			if out != outOK {
				failing = true
			}
			v := h.conv[i]
			if cs.Perm[i] {
				h.avoidNoRetry = i
			}
			h.inHandler(fmt.Sprintf("Register(adapter %d) again while it waits for its retry", i), func() {
				// a retry tick may have forgotten the adapter by now (a spare "do not retry" outcome): then this
				// is a fresh registration with a fresh budget, and the model is told so before the Start arrives
				if _, known := m.convs.Load(v.addr); !known {
					atomic.StoreInt32(&h.fresh[i], 1)
				}
				m.Register(v.as())
			}, i, out)
			if atomic.CompareAndSwapInt32(&h.fresh[i], 1, 0) {
				// fresh registration that did not lead to a Start (no budget): not kept
				h.model[i].registered, h.model[i].forgetting = false, false
			}
			h.avoidNoRetry = -1
		case "unreg":
			h.logf("%s", step)
			h.unregister(i)
		case "restart":
			h.logf("%s out=%d", step, op.Out)
			if op.Out != outOK {
				failing = true
			}
			v := h.conv[i]
			wasReg := md.registered
			okS, cl := md.okStarts, md.closes
			wasActive := md.active
			// Restart = Unregister + Register of the same instance, on the manager's goroutine
			_, _, _ = wasReg, okS, cl
			expectStart := cs.Perm[i] || cs.Budget > 0
			var phase int32
			done := h.async(func() {
				h.inHandlerRaw(func() {
					m.Unregister(v.as())
					atomic.StoreInt32(&phase, 1)
					for atomic.LoadInt32(&phase) == 1 { // wait until the harness has updated the model
						time.Sleep(50 * time.Microsecond)
					}
					m.Register(v.as())
				})
			})
			if !h.drive("restart/close", func() bool { return atomic.LoadInt32(&phase) == 1 }, -1, 0, 5*time.Second) {
				h.fail("c16.deadlock", "Restart(adapter %d): stopping did not complete within 5 s", i)
			}
			if wasActive && h.model[i].active {
				h.fail("c16.not-stopped", "Restart(adapter %d) did not close the started adapter", i)
			}
			*md = c16Model{registered: expectStart, budget: cs.Budget, okStarts: h.model[i].okStarts, closes: h.model[i].closes}
			atomic.StoreInt32(&phase, 2)
			if !h.drive("restart", done, i, op.Out, 5*time.Second) {
				h.fail("c16.deadlock", "Restart(adapter %d) did not return within 5 s", i)
			}
		case "peergone":
			if !md.active {
				continue
			}
			h.logf("%s out=%d", step, op.Out)
			if op.Out != outOK {
				failing = true
			}
			v := h.conv[i]
			fwd := atomic.LoadInt32(&h.fwd)
			sb := h.released[i]
			closesBefore := md.closes
			sent := h.async(func() { v.status <- NewConvergencePeerDisappeared(v.as(), v.eid) })
			// (the flag behind sent() may lag behind the manager, which closes the adapter as soon as it has the message:
			// the wait ends with the Close as well, so that the adapter's next Start is not answered in this phase)
			if !h.drive("peergone/send", func() bool { return sent() || h.model[i].closes > closesBefore }, -1, 0, 5*time.Second) {
				h.fail("c16.deadlock", "the manager did not take a status message of started adapter %d within 5 s", i)
			}
			// the manager stops the adapter ... (counted, not read from the state: the adapter is started again at once)
			if !h.drive("peergone/close", func() bool { return h.model[i].closes > closesBefore }, -1, 0, 5*time.Second) {
				h.fail("c16.no-restart", "peer loss reported by adapter %d, but the adapter was not stopped within 5 s", i)
			}
			okS := md.okStarts
			expectStart := cs.Perm[i] || cs.Budget > 0
			*md = c16Model{registered: expectStart, budget: cs.Budget, okStarts: okS, closes: md.closes}
			// ... and starts it again
			if expectStart {
				if !h.drive("peergone/start", func() bool { return h.released[i] > sb }, i, op.Out, 5*time.Second) {
					h.fail("c16.no-restart", "peer loss reported by adapter %d, but the adapter was not started again within 5 s", i)
				}
			}
			if !h.drive("peergone/forward", func() bool { return atomic.LoadInt32(&h.fwd) > fwd }, -1, 0, 5*time.Second) {
				h.fail("c16.no-forward", "peer loss of adapter %d was not passed on by the manager", i)
			}
		case "feed":
			any := false
			for j := range h.model {
				if h.waiting(j) {
					any = true
				}
			}
			if !any {
				continue
			}
			h.logf("%s out=%d", step, op.Out)
			if op.Out != outOK {
				failing = true
			}
			// some waiting adapter must get its next Start at the retry interval
			rb := h.relAll
			if !h.drive("feed", func() bool { return h.relAll > rb }, -2, op.Out, 5*time.Second) {
				h.fail("c16.no-retry", "an adapter is waiting for a retry (model: %+v) but no Start arrived within 5 s (retry interval 4 ms)", h.model)
			}
		}
		h.check(step)
	}
	if failing {
		c.NonTrivial()
	}
	// close the manager: every started adapter is stopped exactly once, no panic, no deadlock
	h.logf("close")
	done := h.async(func() { _ = m.Close() })
	if !h.drive("close", done, -1, 0, 5*time.Second) {
		h.fail("c16.deadlock", "Manager.Close did not return within 5 s")
	}
	for i := range h.model {
		if h.model[i].active {
			h.fail("c16.not-stopped", "Manager.Close returned but started adapter %d was not closed", i)
		}
		if h.model[i].closes != h.model[i].okStarts {
			h.fail("c16.close-count", "adapter %d: %d successful starts but %d closes", i, h.model[i].okStarts, h.model[i].closes)
		}
	}
	// release anything still parked at a gate (must not happen after Close, but do not leak goroutines)
	for {
		select {
		case e := <-h.events:
			if !e.close {
				e.v.outcome <- outNoRetry
			}
			continue
		default:
		}
		break
	}
}

func genC16(t *rapid.T) c16Case {
	n := rapid.IntRange(1, 3).Draw(t, "adapters")
	cs := c16Case{Budget: rapid.IntRange(0, 3).Draw(t, "budget")}
	for i := 0; i < n; i++ {
		cs.Perm = append(cs.Perm, rapid.Bool().Draw(t, "perm"))
		cs.Sender = append(cs.Sender, rapid.Bool().Draw(t, "sender"))
	}
	ops := []string{"reg", "reg", "feed", "feed", "feed", "unreg", "rereg", "unregdup", "regagain", "regagain", "peergone", "restart"}
	cs.Ops = rapid.SliceOfN(rapid.Custom(func(t *rapid.T) c16Op {
		return c16Op{Op: rapid.SampledFrom(ops).Draw(t, "op"), X: rapid.IntRange(0, n-1).Draw(t, "x"),
			Out: rapid.SampledFrom([]int{outOK, outOK, outRetry, outRetry, outRetry, outNoRetry}).Draw(t, "out")}
	}), 1, 14).Draw(t, "ops")
	cs.Spare = rapid.SliceOfN(rapid.SampledFrom([]int{outOK, outRetry, outRetry, outNoRetry}), 1, 6).Draw(t, "spare")
	return cs
}

func TestVerifC16Traces(t *testing.T) {
	log.SetOutput(io.Discard)
	u := vk.Unit{Property: "C16", Name: "c16.traces", Quick: 2400, Thorough: 20000,
		Rule: "traces of up to 14 steps over {register, register-again while started, register-again while waiting for a retry (scripted outcome), unregister, unregister of another instance with the same address, retry tick with scripted outcome (succeeds / fails-retry / fails-no-retry), peer-disappeared, restart} for 1..3 adapters (senders/receivers, permanent or not) and retry budget 0..3, closed by Manager.Close; the real Manager.handler runs with a 4 ms retry interval and every adapter Start blocks at a gate until the harness supplies the scripted outcome; oracle = reference state machine fed by the observed Start/Close calls: legal starts only, Sender()/Receiver() == model's active set after every step, waiting adapters get their next Start, exhausted ones are forgotten, one Close per successful Start, Close returns; non-trivial = trace with >= 1 failing start; distinct by case hash"}
	vk.Check(t, u, genC16, c16Run)
}

// ---- the Manager as NewManager builds it (its own channel sizes and defaults) ----------------------------

type c16NMCase struct {
	Adapters int  `json:"adapters"`
	Burst    int  `json:"burst"`     // statuses each adapter reports back to back (the first is PeerDisappeared)
	SlowRead bool `json:"slow_read"` // the consumer of Manager.Channel() is busy for a moment
}

// vfAutoConv starts at once, counts, and reports what the harness tells it to.
type vfAutoConv struct {
	addr   string
	eid    bpv7.EndpointID
	status chan ConvergenceStatus
	starts int32
	closes int32
}

func (v *vfAutoConv) Start() (error, bool)               { atomic.AddInt32(&v.starts, 1); return nil, false }
func (v *vfAutoConv) Close() error                       { atomic.AddInt32(&v.closes, 1); return nil }
func (v *vfAutoConv) Channel() chan ConvergenceStatus    { return v.status }
func (v *vfAutoConv) Address() string                    { return v.addr }
func (v *vfAutoConv) IsPermanent() bool                  { return true }
func (v *vfAutoConv) Send(bpv7.Bundle) error             { return nil }
func (v *vfAutoConv) GetPeerEndpointID() bpv7.EndpointID { return v.eid }
func (v *vfAutoConv) String() string                     { return "vfAutoConv(" + v.addr + ")" }

func TestVerifC16NewManager(t *testing.T) {
	log.SetOutput(io.Discard)
	u := vk.Unit{Property: "C16", Name: "c16.newmanager", Quick: 40, Thorough: 1500,
		Rule: "the Manager exactly as NewManager() builds it (channel sizes, defaults): 1..24 permanent adapters start at once; each reports 1..4 statuses back to back, the first one a peer loss (as MTCP does on repeated send failures, TCPCLv4 with a received bundle followed by a peer loss), while the consumer of Manager.Channel() is prompt or busy for a moment; then Close. Oracle: nothing deadlocks (every report is taken within 20 s, Close returns within 20 s), every adapter was restarted after its peer loss (a second successful Start), and at the end every successful Start is matched by exactly one Close; non-trivial = burst >= 2; distinct by parameters"}
	vk.Check(t, u, func(t *rapid.T) c16NMCase {
		return c16NMCase{Adapters: rapid.IntRange(1, 24).Draw(t, "adapters"), Burst: rapid.IntRange(1, 4).Draw(t, "burst"), SlowRead: rapid.Bool().Draw(t, "slow")}
	}, func(c *vk.Ctx, cs c16NMCase) {
		if cs.Burst >= 2 {
			c.NonTrivial()
		}
		m := NewManager()
		stopRead := make(chan struct{})
		readDone := make(chan struct{})
		go func() {
			defer close(readDone)
			for {
				select {
				case <-m.Channel():
					if cs.SlowRead {
						time.Sleep(200 * time.Microsecond)
					}
				case <-stopRead:
					return
				}
			}
		}()
		var convs []*vfAutoConv
		for i := 0; i < cs.Adapters; i++ {
			v := &vfAutoConv{addr: fmt.Sprintf("vf://auto-%d", i), eid: bpv7.MustNewEndpointID(fmt.Sprintf("dtn://auto-%d/", i)), status: make(chan ConvergenceStatus)}
			convs = append(convs, v)
			m.Register(v)
		}
		var wg sync.WaitGroup
		stuck := int32(0)
		for _, v := range convs {
			wg.Add(1)
			go func(v *vfAutoConv) {
				defer wg.Done()
				for k := 0; k < cs.Burst; k++ {
					st := NewConvergencePeerDisappeared(v, v.eid)
					if k > 0 {
						st = NewConvergencePeerAppeared(v, v.eid)
					}
					select {
					case v.status <- st:
					case <-time.After(20 * time.Second):
						atomic.AddInt32(&stuck, 1)
						return
					}
				}
			}(v)
		}
		wg.Wait()
		if n := atomic.LoadInt32(&stuck); n > 0 {
			c.Failf("c16.deadlock", "%d of %d adapters could not hand their status report to the manager within 20 s (burst of %d reports each)", n, cs.Adapters, cs.Burst)
		}
		// every adapter is restarted after its peer loss
		deadline := time.Now().Add(20 * time.Second)
		for _, v := range convs {
			for atomic.LoadInt32(&v.starts) < 2 && time.Now().Before(deadline) {
				time.Sleep(200 * time.Microsecond)
			}
			if atomic.LoadInt32(&v.starts) < 2 {
				c.Failf("c16.no-restart", "adapter %s reported the loss of its peer but was not started again within 20 s (starts: %d, closes: %d)", v.addr, v.starts, v.closes)
			}
		}
		closed := make(chan struct{})
		go func() { _ = m.Close(); close(closed) }()
		select {
		case <-closed:
		case <-time.After(20 * time.Second):
			c.Failf("c16.deadlock", "Manager.Close does not return within 20 s after %d adapters reported %d statuses each", cs.Adapters, cs.Burst)
		}
		close(stopRead)
		<-readDone
		for _, v := range convs {
			if s, cl := atomic.LoadInt32(&v.starts), atomic.LoadInt32(&v.closes); s != cl {
				c.Failf("c16.close-balance", "adapter %s: %d successful starts, %d closes after Manager.Close", v.addr, s, cl)
			}
		}
	})
}
