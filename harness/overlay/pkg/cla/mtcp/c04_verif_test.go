package mtcp

import (
	"bytes"
	"io"
	"net"
	"testing"
	"time"

	log "github.com/sirupsen/logrus"

	"github.com/dtn7/dtn7-go/pkg/bpv7"
	vk "github.com/dtn7/dtn7-go/pkg/verifkit"
)

// C04 (MTCP) — the server's connection handler survives any byte stream.

func c04TargetConn(in []byte) string {
	serv := NewMTCPServer("127.0.0.1:0", bpv7.MustNewEndpointID("dtn://server/"), false)
	stop := make(chan struct{})
	defer close(stop)
	n := 0
	go func() {
		for {
			select {
			case <-serv.reportChan:
				n++
			case <-stop:
				return
			}
		}
	}()
	a, b := net.Pipe()
	go func() {
		_, _ = a.Write(in)
		_ = a.Close()
	}()
	done := make(chan struct{})
	go func() { serv.handleSender(b); close(done) }()
	select {
	case <-done:
	case <-time.After(10 * time.Minute):
	}
	if n > 0 {
		return "bundles handed up"
	}
	return "none"
}

func TestVerifChild(t *testing.T) {
	log.SetOutput(io.Discard)
	vk.ChildMain(t, map[string]vk.Target{"mtcp-conn": c04TargetConn})
}

func TestVerifC04Conn(t *testing.T) {
	if vk.IsChild() {
		t.Skip()
	}
	frame := func(payloads ...int) []byte {
		var out []byte
		for i, p := range payloads {
			if p < 0 {
				out = append(out, 0x40) // keep-alive
				continue
			}
			_, e, _ := vfBundle(p, uint64(i))
			var enc vk.Enc
			enc.Head(vk.MajBytes, uint64(len(e)))
			out = append(out, enc.B...)
			out = append(out, e...)
		}
		return out
	}
	seeds := [][]byte{frame(10), frame(10, -1, 300), frame(-1, -1, 0), frame(70000)}
	cases := vk.C04Inputs(seeds[:3], false)
	cases = append(cases, vk.C04Case{Class: "valid seed", Input: seeds[3]})
	// the frame's own length header at every boundary value, followed by a bundle / nothing
	_, e, _ := vfBundle(10, 1)
	for _, v := range vk.LengthBoundaries {
		var enc vk.Enc
		enc.Head(vk.MajBytes, v)
		cases = append(cases, vk.C04Case{Class: "frame length header at a boundary value", Input: append(append([]byte(nil), enc.B...), e...)})
		cases = append(cases, vk.C04Case{Class: "frame length header at a boundary value", Input: enc.B})
		// the same inside the bundle: every CBOR head of the framed bundle
	}
	for _, m := range vk.LengthMutants(e) {
		var enc vk.Enc
		enc.Head(vk.MajBytes, uint64(len(m)))
		cases = append(cases, vk.C04Case{Class: "length/count field of the framed bundle at a boundary value", Input: append(enc.B, m...)})
	}
	for b := 0; b < 256; b++ {
		cases = append(cases, vk.C04Case{Class: "first byte + run", Input: append([]byte{byte(b)}, bytes.Repeat([]byte{byte(b)}, 40)...)})
	}
	vk.RunC04(t, vk.C04Spec{Target: "mtcp-conn", RecoveredOK: true, Unit: vk.Unit{Property: "C04", Name: "c04.mtcp-conn",
		Rule: "MTCPServer.handleSender on an in-memory connection fed: valid frame sequences (bundles + keep-alives) with every truncation, the frame length header at the 11 boundary values, every CBOR head of the framed bundle at the boundary values, all 256 first bytes; in child processes; a panic recovered by the handler's own recover() drops the connection as designed; violation = process death, hang, allocation > 4 MiB + 256 x len(input); distinct by input hash"}}, cases)
}
