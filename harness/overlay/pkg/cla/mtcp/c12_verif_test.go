package mtcp

import (
	"bytes"
	"fmt"
	"io"
	"net"
	"sync"
	"testing"
	"time"

	log "github.com/sirupsen/logrus"

	"github.com/dtn7/cboring"
	"github.com/dtn7/dtn7-go/pkg/bpv7"
	"github.com/dtn7/dtn7-go/pkg/cla"
	vk "github.com/dtn7/dtn7-go/pkg/verifkit"
	"pgregory.net/rapid"
)

// C12 (MTCP part) — bundle sequences arrive identical and in order, keep-alives are
// invisible, a send on a broken connection fails and reports the peer as gone.

type c12Item struct {
	Pay   int    `json:"pay"`   // payload length; -1 = keep-alive frame
	Seed  uint64 `json:"seed"`
	Count int    `json:"count"` // number of keep-alive frames (for Pay == -1)
}

type c12Seq struct {
	Items []c12Item `json:"items"`
	CutAt int       `json:"cut_at"` // scripted-peer scenario: the peer resets the connection before the CutAt-th bundle (0 = no cut scenario)
}

func vfFreePort() (int, error) {
	l, err := net.Listen("tcp", "127.0.0.1:0")
	if err != nil {
		return 0, err
	}
	defer l.Close()
	return l.Addr().(*net.TCPAddr).Port, nil
}

func vfBundle(pay int, seed uint64) (bpv7.Bundle, []byte, error) {
	b, err := bpv7.Builder().CRC(bpv7.CRC32).Source("dtn://src/app").Destination("dtn://dst/app").CreationTimestampNow().Lifetime("1h").
		HopCountBlock(30).PayloadBlock(vk.PayloadBytes(pay, seed)).Build()
	if err != nil {
		return b, nil, err
	}
	var buf bytes.Buffer
	err = b.WriteBundle(&buf)
	return b, buf.Bytes(), err
}

func enc(b *bpv7.Bundle) []byte {
	var buf bytes.Buffer
	_ = b.WriteBundle(&buf)
	return buf.Bytes()
}

func genSeq(t *rapid.T) c12Seq {
	items := rapid.SliceOfN(rapid.Custom(func(t *rapid.T) c12Item {
		if rapid.IntRange(0, 3).Draw(t, "ka") == 0 {
			return c12Item{Pay: -1, Count: rapid.IntRange(1, 3).Draw(t, "n")}
		}
		pay := rapid.OneOf(rapid.IntRange(0, 300), rapid.SampledFrom([]int{0, 1, 23, 24, 255, 256, 4096, 65535, 65536, 70000})).Draw(t, "pay")
		return c12Item{Pay: pay, Seed: rapid.Uint64Range(0, 1<<30).Draw(t, "seed")}
	}), 1, 12).Draw(t, "items")
	return c12Seq{Items: items}
}

func TestVerifC12MTCPSequences(t *testing.T) {
	log.SetOutput(io.Discard)
	u := vk.Unit{Property: "C12", Name: "c12.mtcp-sequences", Quick: 150, Thorough: 6000,
		Rule: "1..12 items on one real loopback connection between MTCPClient and MTCPServer: bundles (payload 0..70000, boundary lengths) interleaved with keep-alive frames written exactly as the client's ticker writes them; oracle: the server's ReceivedBundle statuses equal the sent bundles, byte-identical and in order, nothing for keep-alives, every Send returns nil; non-trivial = >= 3 bundles and >= 1 keep-alive; distinct by case hash"}
	vk.Check(t, u, genSeq, func(c *vk.Ctx, cs c12Seq) {
		port, err := vfFreePort()
		if err != nil {
			c.Failf("c12.harness", "port: %v", err)
		}
		serv := NewMTCPServer(fmt.Sprintf("127.0.0.1:%d", port), bpv7.MustNewEndpointID("dtn://server/"), false)
		if err, _ := serv.Start(); err != nil {
			c.Note("server start failed (port race): " + err.Error())
			return
		}
		var mu sync.Mutex
		var got [][]byte
		servDone := make(chan struct{})
		go func() {
			defer close(servDone)
			for st := range serv.Channel() {
				if st.MessageType == cla.ReceivedBundle {
					rb := st.Message.(cla.ConvergenceReceivedBundle)
					mu.Lock()
					got = append(got, enc(rb.Bundle))
					mu.Unlock()
				}
			}
		}()
		client := NewMTCPClient(fmt.Sprintf("127.0.0.1:%d", port), bpv7.MustNewEndpointID("dtn://server/"), false)
		if err, _ := client.Start(); err != nil {
			_ = serv.Close()
			c.Failf("c12.harness", "client start: %v", err)
		}
		var cliStatus []cla.ConvergenceMessageType
		cliDone := make(chan struct{})
		go func() {
			defer close(cliDone)
			for st := range client.Channel() {
				mu.Lock()
				cliStatus = append(cliStatus, st.MessageType)
				mu.Unlock()
			}
		}()
		var want [][]byte
		nb, nk := 0, 0
		for _, it := range cs.Items {
			if it.Pay < 0 {
				for i := 0; i < it.Count; i++ {
					client.mutex.Lock()
					err := cboring.WriteByteStringLen(0, client.conn)
					client.mutex.Unlock()
					if err != nil {
						c.Failf("c12.harness", "keep-alive write: %v", err)
					}
					nk++
				}
				continue
			}
			b, e, err := vfBundle(it.Pay, it.Seed)
			if err != nil {
				c.Failf("c12.harness", "bundle: %v", err)
			}
			nb++
			want = append(want, e)
			if err := client.Send(b); err != nil {
				c.Failf("c12.mtcp-send-error", "Send of bundle %d (%d bytes) on a healthy connection fails: %v", nb, len(e), err)
			}
		}
		if nb >= 3 && nk >= 1 {
			c.NonTrivial()
		}
		// wait for delivery (bounded); the order and the content are the oracle, not the time
		deadline := time.Now().Add(5 * time.Second)
		for {
			mu.Lock()
			n := len(got)
			mu.Unlock()
			if n >= len(want) || time.Now().After(deadline) {
				break
			}
			time.Sleep(200 * time.Microsecond)
		}
		time.Sleep(2 * time.Millisecond) // anything beyond?
		_ = client.Close()
		_ = serv.Close()
		<-servDone
		<-cliDone
		mu.Lock()
		defer mu.Unlock()
		if len(got) != len(want) {
			c.Failf("c12.mtcp-count", "%d bundles sent (and %d keep-alives), server handed up %d", len(want), nk, len(got))
		}
		for i := range want {
			if !bytes.Equal(got[i], want[i]) {
				c.Failf("c12.mtcp-differs", "bundle %d arrives changed or out of order (%d vs %d bytes)", i, len(got[i]), len(want[i]))
			}
		}
		for _, s := range cliStatus {
			if s == cla.PeerDisappeared {
				c.Failf("c12.mtcp-false-disappear", "client reports the peer as gone on a healthy connection")
			}
		}
	})
}

type c12Cut struct {
	Before   int  `json:"bundles_before_cut"`
	Pay      int  `json:"pay"`
	Graceful bool `json:"graceful"`    // the peer closes in an orderly way (FIN) instead of resetting: a first write still succeeds locally
	Closed   bool `json:"then_closed"` // afterwards the client is closed (what the CLA manager does on PeerDisappeared) and one more Send is made
}

func TestVerifC12MTCPCut(t *testing.T) {
	log.SetOutput(io.Discard)
	u := vk.Unit{Property: "C12", Name: "c12.mtcp-cut",
		Rule: "fault enumeration: a scripted raw TCP peer accepts the MTCP client, reads k = 0..5 bundles and then resets the connection (SO_LINGER 0) or closes it in an orderly way and stops listening; optionally the client is closed afterwards and one more Send is made (it must return an error, not panic); after the reset has been observed (50 ms settle) the next Send must return an error and a PeerDisappeared status must be emitted; payload sizes 10 and 70000; every case non-trivial; distinct by (k, payload)"}
	vk.Enumerate(t, u, true, func(yield func(c12Cut) bool) {
		for k := 0; k <= 5; k++ {
			for _, p := range []int{10, 70000} {
				for _, g := range []bool{false, true} {
					for _, cl := range []bool{false, true} {
						if !yield(c12Cut{k, p, g, cl}) {
							return
						}
					}
				}
			}
		}
	}, func(c *vk.Ctx, cs c12Cut) {
		c.NonTrivial()
		ln, err := net.Listen("tcp", "127.0.0.1:0")
		if err != nil {
			c.Failf("c12.harness", "listen: %v", err)
		}
		defer ln.Close()
		peerReady := make(chan net.Conn, 1)
		go func() {
			conn, err := ln.Accept()
			if err == nil {
				peerReady <- conn
			}
		}()
		client := NewMTCPClient(ln.Addr().String(), bpv7.MustNewEndpointID("dtn://peer/"), false)
		if err, _ := client.Start(); err != nil {
			c.Failf("c12.harness", "client start: %v", err)
		}
		var mu sync.Mutex
		gone := 0
		cliDone := make(chan struct{})
		go func() {
			defer close(cliDone)
			for st := range client.Channel() {
				if st.MessageType == cla.PeerDisappeared {
					mu.Lock()
					gone++
					mu.Unlock()
				}
			}
		}()
		conn := <-peerReady
		// the peer reads everything it is sent
		readDone := make(chan struct{})
		go func() { defer close(readDone); _, _ = io.Copy(io.Discard, conn) }()
		for i := 0; i < cs.Before; i++ {
			b, _, _ := vfBundle(cs.Pay, uint64(i))
			if err := client.Send(b); err != nil {
				c.Failf("c12.mtcp-send-error", "Send %d on a healthy connection fails: %v", i, err)
			}
		}
		time.Sleep(20 * time.Millisecond)
		if cs.Graceful {
			_ = ln.Close() // the peer is gone for good
			_ = conn.Close() // FIN
		} else {
			_ = conn.(*net.TCPConn).SetLinger(0)
			_ = conn.Close() // RST
		}
		<-readDone
		time.Sleep(50 * time.Millisecond)
		b, _, _ := vfBundle(cs.Pay, 99)
		serr := client.Send(b)
		time.Sleep(5 * time.Millisecond)
		_ = client.Close()
		<-cliDone
		if serr == nil {
			c.Failf("c12.mtcp-broken-success", "connection was closed by the peer (graceful: %v) after %d bundles; the next Send (payload %d) returns nil", cs.Graceful, cs.Before, cs.Pay)
		}
		if cs.Closed {
			// a Send that arrives after the manager closed the client (or while it does): an error, not a crash
			func() {
				defer func() {
					if r := recover(); r != nil {
						c.Failf("c12.mtcp-send-panics", "Send on a closed client panics instead of returning an error: %v", r)
					}
				}()
				b2, _, _ := vfBundle(cs.Pay, 100)
				if err := client.Send(b2); err == nil {
					c.Failf("c12.mtcp-broken-success", "Send on a closed client (peer gone) returns nil")
				}
			}()
		}
		mu.Lock()
		defer mu.Unlock()
		if gone == 0 {
			c.Failf("c12.mtcp-no-disappear", "Send on the reset connection failed (%v) but no PeerDisappeared status was emitted", serr)
		}
	})
}

// ---- concurrent writers on one connection: several senders and the keep-alive ticker ----

type c12Conc struct {
	Senders  [][]c12Item `json:"senders"` // bundles per sending goroutine
	KeepLive bool        `json:"keepalive"`
}

func TestVerifC12MTCPConcurrent(t *testing.T) {
	log.SetOutput(io.Discard)
	u := vk.Unit{Property: "C12", Name: "c12.mtcp-concurrent", Quick: 60, Thorough: 3000,
		Rule: "1..3 goroutines send 1..6 bundles each (payload 0..70000, i.e. also frames larger than the 4 KiB write buffer) on ONE MTCPClient while a further goroutine writes keep-alive frames exactly as the client's ticker does (mutex, zero-length byte string) every 20..200 microseconds; oracle: every Send returns nil, the server hands up exactly the multiset of bundles sent, byte-identical, each sender's bundles in its own order, no PeerDisappeared; non-trivial = >= 2 writers (senders + keep-alive) and a frame > 4096 bytes; distinct by case hash"}
	vk.Check(t, u, func(t *rapid.T) c12Conc {
		item := rapid.Custom(func(t *rapid.T) c12Item {
			pay := rapid.OneOf(rapid.IntRange(0, 300), rapid.SampledFrom([]int{4000, 4096, 5000, 9000, 20000, 65536, 70000})).Draw(t, "pay")
			return c12Item{Pay: pay, Seed: rapid.Uint64Range(0, 1<<30).Draw(t, "seed")}
		})
		n := rapid.IntRange(1, 3).Draw(t, "senders")
		cs := c12Conc{KeepLive: rapid.Bool().Draw(t, "keepalive")}
		for i := 0; i < n; i++ {
			cs.Senders = append(cs.Senders, rapid.SliceOfN(item, 1, 6).Draw(t, "items"))
		}
		return cs
	}, func(c *vk.Ctx, cs c12Conc) {
		port, err := vfFreePort()
		if err != nil {
			c.Failf("c12.harness", "port: %v", err)
		}
		serv := NewMTCPServer(fmt.Sprintf("127.0.0.1:%d", port), bpv7.MustNewEndpointID("dtn://server/"), false)
		if err, _ := serv.Start(); err != nil {
			c.Note("server start failed (port race): " + err.Error())
			return
		}
		var mu sync.Mutex
		var got [][]byte
		servDone := make(chan struct{})
		go func() {
			defer close(servDone)
			for st := range serv.Channel() {
				if st.MessageType == cla.ReceivedBundle {
					rb := st.Message.(cla.ConvergenceReceivedBundle)
					mu.Lock()
					got = append(got, enc(rb.Bundle))
					mu.Unlock()
				}
			}
		}()
		client := NewMTCPClient(fmt.Sprintf("127.0.0.1:%d", port), bpv7.MustNewEndpointID("dtn://server/"), false)
		if err, _ := client.Start(); err != nil {
			_ = serv.Close()
			c.Failf("c12.harness", "client start: %v", err)
		}
		gone := false
		cliDone := make(chan struct{})
		go func() {
			defer close(cliDone)
			for st := range client.Channel() {
				if st.MessageType == cla.PeerDisappeared {
					mu.Lock()
					gone = true
					mu.Unlock()
				}
			}
		}()
		big := false
		total := 0
		want := make([][][]byte, len(cs.Senders))
		bundles := make([][]bpv7.Bundle, len(cs.Senders))
		for i, items := range cs.Senders {
			for j, it := range items {
				// distinct bundles: the seed is made unique per (sender, position)
				b, e, err := vfBundle(it.Pay, it.Seed*64+uint64(i*8+j))
				if err != nil {
					c.Failf("c12.harness", "bundle: %v", err)
				}
				b.PrimaryBlock.CreationTimestamp[1] = uint64(i*100 + j)
				e = enc(&b)
				if len(e) > 4096 {
					big = true
				}
				want[i] = append(want[i], e)
				bundles[i] = append(bundles[i], b)
				total++
			}
		}
		writers := len(cs.Senders)
		if cs.KeepLive {
			writers++
		}
		if writers >= 2 && big {
			c.NonTrivial()
		}
		stopKA := make(chan struct{})
		kaDone := make(chan struct{})
		nKA := 0
		if cs.KeepLive {
			go func() {
				defer close(kaDone)
				for i := 0; ; i++ {
					select {
					case <-stopKA:
						return
					default:
					}
					client.mutex.Lock()
					err := cboring.WriteByteStringLen(0, client.conn)
					client.mutex.Unlock()
					if err != nil {
						return
					}
					nKA++
					time.Sleep(time.Duration(20+(i%10)*20) * time.Microsecond)
				}
			}()
		} else {
			close(kaDone)
		}
		var wg sync.WaitGroup
		errs := make([]error, len(cs.Senders))
		for i := range cs.Senders {
			wg.Add(1)
			go func(i int) {
				defer wg.Done()
				for _, b := range bundles[i] {
					if err := client.Send(b); err != nil {
						errs[i] = err
						return
					}
				}
			}(i)
		}
		wg.Wait()
		close(stopKA)
		<-kaDone
		deadline := time.Now().Add(5 * time.Second)
		for {
			mu.Lock()
			n := len(got)
			mu.Unlock()
			if n >= total || time.Now().After(deadline) {
				break
			}
			time.Sleep(200 * time.Microsecond)
		}
		time.Sleep(2 * time.Millisecond)
		_ = client.Close()
		_ = serv.Close()
		<-servDone
		<-cliDone
		mu.Lock()
		defer mu.Unlock()
		for i, e := range errs {
			if e != nil {
				c.Failf("c12.mtcp-send-error", "%d concurrent writers (keep-alives: %v): Send of sender %d on a healthy connection fails: %v", writers, cs.KeepLive, i, e)
			}
		}
		if len(got) != total {
			c.Failf("c12.mtcp-count", "%d bundles sent by %d senders (%d keep-alive frames in between), server handed up %d", total, len(cs.Senders), nKA, len(got))
		}
		// each sender's bundles arrive in its order; the union is exactly what was sent
		next := make([]int, len(cs.Senders))
		for k, g := range got {
			found := false
			for i := range want {
				if next[i] < len(want[i]) && bytes.Equal(want[i][next[i]], g) {
					next[i]++
					found = true
					break
				}
			}
			if !found {
				c.Failf("c12.mtcp-differs", "bundle %d handed up by the server (%d bytes) is not the next bundle of any sender: changed, duplicated or out of order", k, len(g))
			}
		}
		if gone {
			c.Failf("c12.mtcp-false-disappear", "client reports the peer as gone on a healthy connection")
		}
	})
}
