package bbc

import (
	"bytes"
	"testing"

	vk "github.com/dtn7/dtn7-go/pkg/verifkit"
)

// C17 (BBC part) — fragment header bit packing round-trips for all header byte pairs.

type vfHdr struct {
	A int `json:"tid"`
	B int `json:"ident"`
}

func TestVerifC17FragmentHeader(t *testing.T) {
	u := vk.Unit{Property: "C17", Name: "c17.bbc-header",
		Rule: "exhaustive over all 256 x 256 header byte pairs (transmission id, identifier) with payloads of 0..3 bytes: ParseFragment(Bytes(f)) == f, Bytes(ParseFragment(x)) == x, and NewFragment(tid, seq, start, end, fail) reproduces the identifier for sequence numbers 0..31; every case non-trivial; distinct by (tid, identifier)"}
	vk.Enumerate(t, u, true, func(yield func(vfHdr) bool) {
		for a := 0; a < 256; a++ {
			for b := 0; b < 256; b++ {
				if !yield(vfHdr{a, b}) {
					return
				}
			}
		}
	}, func(c *vk.Ctx, h vfHdr) {
		c.NonTrivial()
		payload := []byte{1, 2, 3}[:(h.A+h.B)%4]
		raw := append([]byte{byte(h.A), byte(h.B)}, payload...)
		f, err := ParseFragment(raw)
		if err != nil {
			c.Failf("c17.decode-error", "ParseFragment(%x): %v", raw, err)
		}
		if !bytes.Equal(f.Bytes(), raw) {
			c.Failf("c17.roundtrip-differs", "Bytes(ParseFragment(%x)) = %x", raw, f.Bytes())
		}
		if f.TransmissionID() != byte(h.A) || !bytes.Equal(f.Payload, payload) {
			c.Failf("c17.roundtrip-differs", "fragment %x parsed as tid %d payload %x", raw, f.TransmissionID(), f.Payload)
		}
		seq, sb, eb, fb := byte(h.B)>>3, h.B&4 != 0, h.B&2 != 0, h.B&1 != 0
		if f.SequenceNumber() != seq || f.StartBit() != sb || f.EndBit() != eb || f.FailBit() != fb {
			c.Failf("c17.bbc-bits", "identifier %08b read as seq %d start %v end %v fail %v", h.B, f.SequenceNumber(), f.StartBit(), f.EndBit(), f.FailBit())
		}
		g := NewFragment(byte(h.A), seq, sb, eb, fb, payload)
		if !bytes.Equal(g.Bytes(), raw) {
			c.Failf("c17.roundtrip-differs", "NewFragment(%d,%d,%v,%v,%v) encodes as %x, want %x", h.A, seq, sb, eb, fb, g.Bytes(), raw)
		}
		g2, err := ParseFragment(g.Bytes())
		if err != nil || g2.TransmissionID() != g.TransmissionID() || g2.SequenceNumber() != g.SequenceNumber() || g2.StartBit() != sb || g2.EndBit() != eb || g2.FailBit() != fb || !bytes.Equal(g2.Payload, payload) {
			c.Failf("c17.roundtrip-differs", "ParseFragment(Bytes(f)) differs from f for %x", raw)
		}
	})
}

func TestVerifC17FragmentShort(t *testing.T) {
	u := vk.Unit{Property: "C17", Name: "c17.bbc-short",
		Rule: "fragments shorter than the 2-byte header (0 or 1 byte, all 257 inputs) must be rejected; exhaustive; every case non-trivial"}
	vk.Enumerate(t, u, true, func(yield func([]byte) bool) {
		if !yield([]byte{}) {
			return
		}
		for a := 0; a < 256; a++ {
			if !yield([]byte{byte(a)}) {
				return
			}
		}
	}, func(c *vk.Ctx, raw []byte) {
		c.NonTrivial()
		if f, err := ParseFragment(raw); err == nil {
			c.Failf("c17.invalid-accepted", "ParseFragment(%x) accepts a truncated header as %v", raw, f)
		}
	})
}
