package bbc

import (
	"bytes"
	"io"
	"os"
	"strings"
	"testing"

	log "github.com/sirupsen/logrus"
	"github.com/ulikunitz/xz"

	vk "github.com/dtn7/dtn7-go/pkg/verifkit"
)

// C04 (BBC) — fragments and transmissions from the air never crash or balloon the node.

// the input is a sequence of link fragments, each prefixed with its length (one byte)
func c04Split(in []byte) [][]byte {
	var out [][]byte
	for len(in) > 0 {
		n := int(in[0])
		in = in[1:]
		if n > len(in) {
			n = len(in)
		}
		out = append(out, in[:n])
		in = in[n:]
	}
	return out
}

func c04Join(frs [][]byte) []byte {
	var out []byte
	for _, f := range frs {
		out = append(out, byte(len(f)))
		out = append(out, f...)
	}
	return out
}

// Every complete transmission is decompressed by a fresh xz reader, which allocates its default 8 MiB
// dictionary whatever the stream says (measured: 8.4 MB for a 72-byte stream). That is a fixed cost per
// transmission that has arrived in full; a frame can complete at most one transmission.
func init() {
	vk.ExtraBudget = func(in []byte) uint64 { return 9 << 20 * uint64(len(c04Split(in))) }
	// known finding c04.oom.xz-index (see known_findings.json / DESIGN.md section 5): the xz library allocates
	// its index by the record count announced in the stream. A failure is attributed to it by its call site
	// (process death with xz.readIndexBody on the stack) or, for an allocation above the budget, by the input
	// carrying an index indicator followed by a large record count.
	vk.RefineTag = func(tag string, in []byte, r *vk.ChildResult) string {
		if strings.HasPrefix(tag, "c04.process-death") && strings.Contains(r.Stderr, "xz.readIndexBody") {
			return "c04.oom.xz-index"
		}
		if strings.HasPrefix(tag, "c04.panic") && strings.Contains(r.Panic, "xz.readIndexBody") {
			return "c04.oom.xz-index" // make([]record, n) with n beyond the slice limit panics instead of exhausting memory
		}
		if strings.HasPrefix(tag, "c04.alloc") && c04XzIndexSuspect(in) {
			return "c04.oom.xz-index"
		}
		return tag
	}
	for _, k := range strings.Split(os.Getenv("VERIF_KNOWN"), ",") {
		if k == "c04.oom.xz-index.bbc-fragments" {
			vk.FuzzExclude = c04XzIndexSuspect
		}
	}
}

// c04XzIndexSuspect over-approximates the class of the known finding: somewhere in the fragments' payloads a
// zero byte (xz index indicator) is followed by a base-128 number of at least 2^18 (records of 16 bytes: 4 MiB).
func c04XzIndexSuspect(in []byte) bool {
	var pay []byte
	for _, fr := range c04Split(in) {
		if len(fr) > 2 {
			pay = append(pay, fr[2:]...)
		}
	}
	for i := 0; i+1 < len(pay); i++ {
		if pay[i] != 0 {
			continue
		}
		var v uint64
		for k := 0; i+1+k < len(pay) && k < 10; k++ {
			b := pay[i+1+k]
			v |= uint64(b&0x7f) << (7 * uint(k))
			if b&0x80 == 0 {
				break
			}
		}
		if v >= 1<<18 {
			return true
		}
	}
	return false
}

func c04TargetFragments(in []byte) string {
	conn := NewConnector(vfNullModem{64}, false)
	delivered := 0
	for _, raw := range c04Split(in) {
		f, err := ParseFragment(append([]byte(nil), raw...))
		if err != nil {
			continue
		}
		_ = conn.handleIncomingFragment(f)
		for {
			select {
			case <-conn.fragmentOut:
				continue
			case <-conn.reportChan:
				delivered++
				continue
			case <-conn.failTransmission:
				continue
			default:
			}
			break
		}
	}
	if delivered > 0 {
		return "delivered"
	}
	return "nothing delivered"
}

func TestVerifChild(t *testing.T) {
	log.SetOutput(io.Discard)
	vk.ChildMain(t, map[string]vk.Target{"bbc-fragments": c04TargetFragments})
}

// c04Frames cuts an xz payload into link fragments of mtu bytes with correct marks.
func c04Frames(payload []byte, mtu int, tid byte) [][]byte {
	var frs [][]byte
	seq := byte(0)
	first := true
	for len(payload) > 0 || first {
		n := mtu - 2
		if n > len(payload) {
			n = len(payload)
		}
		seq = (seq + 1) % 16
		last := n == len(payload)
		frs = append(frs, NewFragment(tid, seq, first, last, false, payload[:n]).Bytes())
		payload = payload[n:]
		first = false
		if last {
			break
		}
	}
	return frs
}

func TestVerifC04Fragments(t *testing.T) {
	if vk.IsChild() {
		t.Skip()
	}
	_, e := vfBundle(30, 1)
	var xb bytes.Buffer
	xw, _ := xz.NewWriter(&xb)
	_, _ = xw.Write(e)
	_ = xw.Close()
	good := xb.Bytes()
	var cases []vk.C04Case
	add := func(class string, frs [][]byte) { cases = append(cases, vk.C04Case{Class: class, Input: c04Join(frs)}) }
	add("valid seed", c04Frames(good, 64, 5))
	add("valid seed", c04Frames(good, 200, 5))
	// every truncation of the compressed stream, every single byte of the xz header region set to 0x00/0xff and the boundary bytes
	for i := 0; i < len(good); i++ {
		add("truncated xz stream", c04Frames(good[:i], 200, 6))
	}
	for i := 0; i < len(good) && i < 64; i++ {
		for _, v := range []byte{0x00, 0x01, 0x17, 0x18, 0x28, 0x7f, 0x80, 0xfe, 0xff} {
			m := append([]byte(nil), good...)
			m[i] = v
			add("xz stream with one header/body byte replaced", c04Frames(m, 200, 7))
		}
	}
	// the bundle inside with every CBOR head at a boundary value, re-compressed
	for k, m := range vk.LengthMutants(e) {
		if k%3 != 0 {
			continue
		}
		var b bytes.Buffer
		w, _ := xz.NewWriter(&b)
		_, _ = w.Write(m)
		_ = w.Close()
		add("length/count field of the carried bundle at a boundary value", c04Frames(b.Bytes(), 200, 8))
	}
	// a highly compressible "bundle": 60 KiB input expanding to a large payload declaration
	big := append([]byte{0x9f, 0x89, 0x07, 0x00, 0x02}, bytes.Repeat([]byte{0x00}, 50<<20)...)
	{
		var b bytes.Buffer
		w, _ := xz.NewWriter(&b)
		_, _ = w.Write(big)
		_ = w.Close()
		if b.Len() < 60000 {
			add("decompression bomb (50 MiB of zeros)", c04Frames(b.Bytes(), 250, 9))
		}
	}
	// all 256 x 9 header byte pairs as a lone fragment, and fragment soup
	for a := 0; a < 256; a++ {
		for _, id := range []byte{0x00, 0x01, 0x02, 0x04, 0x06, 0x07, 0x0c, 0x84, 0xff} {
			add("lone fragment", [][]byte{{byte(a), id, 1, 2, 3}})
		}
	}
	add("short fragments", [][]byte{{}, {1}, {1, 2}})
	// an xz stream without any block whose index announces a huge number of records (found by the native fuzzer):
	// stream header, index indicator 0x00, record count as base-128 number
	xzHead := []byte{0xfd, '7', 'z', 'X', 'Z', 0x00, 0x00, 0x04, 0xe6, 0xd6, 0xb4, 0x46}
	for _, cnt := range [][]byte{{0xe1, 0xfb, 0xb1, 0xc4, 0x67}, {0xb1, 0xc4, 0x41}, {0xff, 0xff, 0xff, 0xff, 0xff, 0xff, 0xff, 0xff, 0x7f}, {0x80, 0x80, 0x40}, {0x05}} {
		st := append(append(append([]byte(nil), xzHead...), 0x00), cnt...)
		st = append(st, 0, 0, 0, 0, 0, 0, 0, 0)
		cases = append(cases, vk.C04Case{Class: "xz stream whose index announces many records", Input: c04Join(c04Frames(st, 200, 9))})
	}
	vk.RunC04(t, vk.C04Spec{Target: "bbc-fragments", C0: 16 << 20, Unit: vk.Unit{Property: "C04", Name: "c04.bbc-fragments",
		Rule: "sequences of link fragments through ParseFragment -> Connector.handleIncomingFragment -> IncomingTransmission.Bundle(): valid transmissions, every truncation of the xz stream, single bytes of the xz stream replaced, the carried bundle with every CBOR head at the boundary values, a decompression bomb, all 256 transmission ids x 9 identifier bytes as lone fragments, too short fragments; in child processes; violation = process death, panic, hang, allocation > 16 MiB (xz dictionary) + 256 x len(input); distinct by input hash"}}, cases)
}

func FuzzVerifC04Fragments(f *testing.F) {
	log.SetOutput(io.Discard)
	_, e := vfBundle(30, 1)
	var xb bytes.Buffer
	xw, _ := xz.NewWriter(&xb)
	_, _ = xw.Write(e)
	_ = xw.Close()
	vk.FuzzC04(f, "bbc-fragments", c04TargetFragments, 16<<20, [][]byte{c04Join(c04Frames(xb.Bytes(), 64, 5)), c04Join(c04Frames(xb.Bytes(), 250, 5)), {3, 1, 6, 0}})
}
