package bbc

import (
	"bytes"
	"fmt"
	"io"
	"testing"

	log "github.com/sirupsen/logrus"
	"github.com/ulikunitz/xz"

	"github.com/dtn7/dtn7-go/pkg/bpv7"
	"github.com/dtn7/dtn7-go/pkg/cla"
	vk "github.com/dtn7/dtn7-go/pkg/verifkit"
	"pgregory.net/rapid"
)

// C12 (BBC part) — link fragmentation respects the modem MTU and the receiver delivers
// the identical bundle or signals failure.

type vfNullModem struct{ mtu int }

func (m vfNullModem) Mtu() int                   { return m.mtu }
func (m vfNullModem) Send(Fragment) error        { return nil }
func (m vfNullModem) Receive() (Fragment, error) { return Fragment{}, io.EOF }
func (m vfNullModem) Close() error               { return nil }
func (m vfNullModem) String() string             { return "vfNullModem" }

func vfBundle(pay int, seed uint64) (bpv7.Bundle, []byte) {
	b, err := bpv7.Builder().CRC(bpv7.CRC32).Source("dtn://src/app").Destination("dtn://dst/app").CreationTimestampNow().Lifetime("1h").
		HopCountBlock(30).PayloadBlock(vk.PayloadBytes(pay, seed)).Build()
	if err != nil {
		panic(err)
	}
	var buf bytes.Buffer
	if err := b.WriteBundle(&buf); err != nil {
		panic(err)
	}
	return b, buf.Bytes()
}

// vfTrain produces the fragment train of a bundle for an MTU through Connector.Send.
func vfTrain(c *vk.Ctx, b bpv7.Bundle, enc []byte, mtu int, tid byte) []Fragment {
	conn := NewConnector(vfNullModem{mtu}, false)
	conn.tid = tid
	conn.fragmentOut = make(chan Fragment, 1<<16)
	if err := conn.Send(b); err != nil {
		c.Failf("c12.bbc-send-error", "Connector.Send fails: %v", err)
	}
	close(conn.fragmentOut)
	var train []Fragment
	for f := range conn.fragmentOut {
		// through the wire form, as a modem would carry it
		p, err := ParseFragment(append([]byte(nil), f.Bytes()...))
		if err != nil {
			c.Failf("c12.bbc-send-invalid", "fragment does not parse: %v", err)
		}
		if n := len(f.Bytes()); n > mtu {
			c.Failf("c12.bbc-exceeds-mtu", "link fragment of %d bytes exceeds the modem MTU %d", n, mtu)
		}
		train = append(train, p)
	}
	if len(train) == 0 {
		c.Failf("c12.bbc-send-invalid", "no fragment produced")
	}
	var cat []byte
	for i, f := range train {
		if f.TransmissionID() != tid {
			c.Failf("c12.bbc-send-invalid", "fragment %d has transmission id %d, want %d", i, f.TransmissionID(), tid)
		}
		if f.FailBit() {
			c.Failf("c12.bbc-send-invalid", "fragment %d has the fail bit", i)
		}
		if f.StartBit() != (i == 0) || f.EndBit() != (i == len(train)-1) {
			c.Failf("c12.bbc-marks", "fragment %d of %d: start=%v end=%v", i, len(train), f.StartBit(), f.EndBit())
		}
		if i > 0 && f.SequenceNumber() != (train[i-1].SequenceNumber()+1)%16 {
			c.Failf("c12.bbc-sequence", "fragment %d has sequence number %d after %d", i, f.SequenceNumber(), train[i-1].SequenceNumber())
		}
		cat = append(cat, f.Payload...)
	}
	xr, err := xz.NewReader(bytes.NewReader(cat))
	if err != nil {
		c.Failf("c12.bbc-payload", "concatenated payload is not an xz stream: %v", err)
	}
	plain, err := io.ReadAll(xr)
	if err != nil || !bytes.Equal(plain, enc) {
		c.Failf("c12.bbc-payload", "concatenated payload does not decompress to the bundle (%v)", err)
	}
	return train
}

// --- reference receiver (independent state machine of the link protocol) ---

type refResult struct {
	deliveries int
	failures   []byte // transmission ids of failure fragments, in order
}

func refReceive(seq []Fragment) refResult {
	var r refResult
	type st struct{ prev byte }
	open := map[byte]*st{}
	for _, f := range seq {
		if f.FailBit() {
			continue
		}
		tid := f.TransmissionID()
		s, ok := open[tid]
		if !ok {
			if !f.StartBit() {
				r.failures = append(r.failures, tid)
				continue
			}
			if f.EndBit() {
				r.deliveries++
			} else {
				open[tid] = &st{f.SequenceNumber()}
			}
			continue
		}
		if f.SequenceNumber() != (s.prev+1)%16 || f.StartBit() {
			r.failures = append(r.failures, tid)
			delete(open, tid)
			continue
		}
		s.prev = f.SequenceNumber()
		if f.EndBit() {
			r.deliveries++
			delete(open, tid)
		}
	}
	return r
}

// vfFeed hands the sequence to a receiving Connector and collects what it does.
func vfFeed(c *vk.Ctx, seq []Fragment) (delivered [][]byte, failures []byte) {
	conn := NewConnector(vfNullModem{64}, false)
	for _, f := range seq {
		// every arriving fragment has its own buffer, as read from a modem
		p, _ := ParseFragment(append([]byte(nil), f.Bytes()...))
		_ = conn.handleIncomingFragment(p)
		for {
			select {
			case out := <-conn.fragmentOut:
				if !out.FailBit() {
					c.Failf("c12.bbc-recv-output", "receiver emitted a non-failure fragment %v", out)
				}
				failures = append(failures, out.TransmissionID())
				continue
			case st := <-conn.reportChan:
				if st.MessageType == cla.ReceivedBundle {
					rb := st.Message.(cla.ConvergenceReceivedBundle)
					var buf bytes.Buffer
					_ = rb.Bundle.WriteBundle(&buf)
					delivered = append(delivered, buf.Bytes())
				}
				continue
			case <-conn.failTransmission:
				continue
			default:
			}
			break
		}
	}
	return
}

type c12Fault struct {
	Op string `json:"op"` // drop, dup, swap
	I  int    `json:"i"`
}

func applyFaults(train []Fragment, faults []c12Fault) []Fragment {
	seq := append([]Fragment(nil), train...)
	for _, f := range faults {
		if len(seq) == 0 {
			break
		}
		i := f.I % len(seq)
		switch f.Op {
		case "drop":
			seq = append(seq[:i:i], seq[i+1:]...)
		case "dup":
			seq = append(seq[:i+1:i+1], seq[i:]...)
		case "swap":
			if i+1 < len(seq) {
				seq[i], seq[i+1] = seq[i+1], seq[i]
			}
		}
	}
	return seq
}

func isPrefix(seq, train []Fragment) bool {
	if len(seq) > len(train) {
		return false
	}
	for i := range seq {
		if !bytes.Equal(seq[i].Bytes(), train[i].Bytes()) {
			return false
		}
	}
	return true
}

func c12Judge(c *vk.Ctx, enc []byte, train, seq []Fragment, single bool, what string) {
	delivered, failures := vfFeed(c, seq)
	for _, d := range delivered {
		if !bytes.Equal(d, enc) {
			c.Failf("c12.bbc-different-bundle", "%s: receiver delivered a bundle that differs from the one sent", what)
		}
	}
	ref := refReceive(seq)
	if len(delivered) != ref.deliveries {
		c.Failf("c12.bbc-delivery-count", "%s: receiver delivered %d bundles, the link protocol's reference receiver %d", what, len(delivered), ref.deliveries)
	}
	if len(failures) != len(ref.failures) {
		c.Failf("c12.bbc-failure-signal", "%s: receiver sent %d failure fragments, the reference receiver %d", what, len(failures), len(ref.failures))
	}
	for i := range failures {
		if failures[i] != ref.failures[i] {
			c.Failf("c12.bbc-failure-signal", "%s: failure fragment %d names transmission %d, expected %d", what, i, failures[i], ref.failures[i])
		}
	}
	same := len(seq) == len(train) && isPrefix(seq, train)
	if same && (len(delivered) != 1 || len(failures) != 0) {
		c.Failf("c12.bbc-undisturbed", "undisturbed train of %d fragments: %d deliveries, %d failure fragments", len(train), len(delivered), len(failures))
	}
	// the statement's clause for a single lost / duplicated / swapped fragment: failure is signalled,
	// except where nothing arrives after the gap (trailing loss) or a one-fragment transmission is duplicated
	if single && !same && !isPrefix(seq, train) && len(train) > 1 && len(failures) == 0 {
		c.Failf("c12.bbc-no-failure-signal", "%s on a train of %d fragments: no failure fragment was sent", what, len(train))
	}
}

type c12Single struct {
	Pay int    `json:"pay"`
	MTU int    `json:"mtu"`
	Op  string `json:"op"`
	I   int    `json:"i"`
}

func TestVerifC12BBCSingles(t *testing.T) {
	log.SetOutput(io.Discard)
	mtus := []int{5, 10, 64, 255}
	pays := []int{0, 40}
	if vk.Tier() == "thorough" {
		mtus = []int{3, 4, 5, 10, 33, 64, 255}
		pays = []int{0, 1, 40, 300, 2000}
	}
	u := vk.Unit{Property: "C12", Name: "c12.bbc-singles",
		Rule: "fault enumeration: bundle x modem MTU (quick 5,10,64,255; thorough also 3,4,33) -> fragment train through Connector.Send (checked: every fragment <= MTU, consecutive sequence numbers mod 16, START only first, END only last, payload = xz(bundle)); then EVERY single drop, duplication and adjacent swap is fed to a receiving Connector; oracle: deliveries identical to the sent bundle, delivery and failure-fragment counts equal to an independent reference receiver, undisturbed => exactly one delivery, detectable single fault => failure fragment; non-trivial = train >= 3 fragments with a fault; distinct by (payload, MTU, fault)"}
	vk.Enumerate(t, u, true, func(yield func(c12Single) bool) {
		n := 0
		for _, p := range pays {
			for _, m := range mtus {
				_, e := vfBundle(p, 1)
				// upper bound of the train length (xz output is not larger than this for such inputs)
				maxFr := (len(e)+200)/(m-2) + 2
				if !yield(c12Single{p, m, "none", 0}) {
					return
				}
				for _, op := range []string{"drop", "dup", "swap"} {
					for i := 0; i < maxFr; i++ {
						n++
						if !vk.ShardOwns(n) {
							continue
						}
						if !yield(c12Single{p, m, op, i}) {
							return
						}
					}
				}
			}
		}
	}, func(c *vk.Ctx, cs c12Single) {
		b, e := vfBundle(cs.Pay, 1)
		train := vfTrain(c, b, e, cs.MTU, byte(cs.Pay+cs.MTU))
		if cs.Op != "none" && cs.I >= len(train) {
			return // beyond the real train length
		}
		var seq []Fragment
		if cs.Op == "none" {
			seq = train
		} else {
			seq = applyFaults(train, []c12Fault{{cs.Op, cs.I}})
			if len(train) >= 3 {
				c.NonTrivial()
			}
		}
		c.Class("op=" + cs.Op)
		c12Judge(c, e, train, seq, true, fmt.Sprintf("%s at fragment %d of %d", cs.Op, cs.I, len(train)))
	})
}

type c12Multi struct {
	Pay    int        `json:"pay"`
	Seed   uint64     `json:"seed"`
	MTU    int        `json:"mtu"`
	Faults []c12Fault `json:"faults"`
	Second bool       `json:"second"` // interleave a second, undisturbed transmission
	Inter  uint64     `json:"inter"`
}

func TestVerifC12BBCMulti(t *testing.T) {
	log.SetOutput(io.Discard)
	u := vk.Unit{Property: "C12", Name: "c12.bbc-multi", Quick: 800, Thorough: 40000,
		Rule: "random bundles x MTU in {3,4,5,10,64,255} x 0..4 random faults (drop / duplicate / adjacent swap), optionally interleaved with a second undisturbed transmission; oracle as c12.bbc-singles without the single-fault clause (differential against the reference receiver, identical content, undisturbed second transmission delivered exactly once); non-trivial = >= 1 fault on a train of >= 3 fragments; distinct by case hash"}
	vk.Check(t, u, func(t *rapid.T) c12Multi {
		return c12Multi{
			Pay: rapid.OneOf(rapid.IntRange(0, 200), rapid.SampledFrom([]int{0, 1000, 5000})).Draw(t, "pay"), Seed: rapid.Uint64Range(0, 1<<20).Draw(t, "seed"),
			MTU: rapid.SampledFrom([]int{3, 4, 5, 10, 64, 255}).Draw(t, "mtu"),
			Faults: rapid.SliceOfN(rapid.Custom(func(t *rapid.T) c12Fault {
				return c12Fault{Op: rapid.SampledFrom([]string{"drop", "dup", "swap"}).Draw(t, "op"), I: rapid.IntRange(0, 5000).Draw(t, "i")}
			}), 0, 4).Draw(t, "faults"),
			Second: rapid.Bool().Draw(t, "second"), Inter: rapid.Uint64().Draw(t, "inter"),
		}
	}, func(c *vk.Ctx, cs c12Multi) {
		if cs.MTU <= 5 && cs.Pay > 300 {
			cs.Pay = cs.Pay % 300 // keep tiny-MTU trains short
		}
		b, e := vfBundle(cs.Pay, cs.Seed)
		train := vfTrain(c, b, e, cs.MTU, 7)
		seq := applyFaults(train, cs.Faults)
		if len(cs.Faults) > 0 && len(train) >= 3 {
			c.NonTrivial()
		}
		c.Classf("faults=%d", len(cs.Faults))
		if !cs.Second {
			c12Judge(c, e, train, seq, false, fmt.Sprintf("faults %v on %d fragments", cs.Faults, len(train)))
			return
		}
		c.Class("two interleaved transmissions")
		b2, e2 := vfBundle(33, cs.Seed+1)
		train2 := vfTrain(c, b2, e2, cs.MTU, 9)
		// interleave deterministically by the bits of Inter
		var mix []Fragment
		i, j := 0, 0
		x := cs.Inter | 1
		for i < len(seq) || j < len(train2) {
			x ^= x << 13
			x ^= x >> 7
			x ^= x << 17
			if j >= len(train2) || (i < len(seq) && x&1 == 0) {
				mix = append(mix, seq[i])
				i++
			} else {
				mix = append(mix, train2[j])
				j++
			}
		}
		delivered, failures := vfFeed(c, mix)
		ref := refReceive(mix)
		n2 := 0
		for _, d := range delivered {
			switch {
			case bytes.Equal(d, e2):
				n2++
			case bytes.Equal(d, e):
			default:
				c.Failf("c12.bbc-different-bundle", "receiver delivered a bundle that was never sent")
			}
		}
		if n2 != 1 {
			c.Failf("c12.bbc-undisturbed", "the undisturbed second transmission was delivered %d times", n2)
		}
		if len(delivered) != ref.deliveries || len(failures) != len(ref.failures) {
			c.Failf("c12.bbc-delivery-count", "deliveries %d / failure fragments %d, reference receiver %d / %d", len(delivered), len(failures), ref.deliveries, len(ref.failures))
		}
		for _, f := range failures {
			if f == 9 {
				c.Failf("c12.bbc-failure-signal", "failure fragment for the undisturbed transmission")
			}
		}
	})
}
