package tcpclv4

import (
	"bytes"
	"io"
	"net"
	"testing"
	"time"

	log "github.com/sirupsen/logrus"

	"github.com/dtn7/dtn7-go/pkg/bpv7"
	"github.com/dtn7/dtn7-go/pkg/cla"
	vk "github.com/dtn7/dtn7-go/pkg/verifkit"
)

// C11, "success means delivered", at the moment at which it is hardest: the TCP connection is lost while the
// acknowledgements of a transfer travel back - after 0, 1, .. bytes of them, exactly behind the last one, or a
// byte later. Two real Clients (one dialed, one created by the real listener under a real cla.Manager) talk
// through a forwarder of the harness that cuts the connection after a chosen number of bytes in the direction of
// the acknowledgements.

type c11Cut struct {
	Dir   string `json:"dir"`   // "ab": the dialing side sends, "ba": the listening side sends
	Class string `json:"class"` // small | mid | seg | seg+1
	K     int    `json:"k"`     // the connection is cut after K bytes of acknowledgements
	Rst   bool   `json:"rst"`
	Rep   int    `json:"rep"`
}

const c11AckLen = 18 // XFER_ACK: type, flags, transfer id (8), acknowledged length (8)

func c11CutCases() []c11Cut {
	var out []c11Cut
	thorough := vk.Tier() == "thorough"
	for _, dir := range []string{"ab", "ba"} {
		for _, cl := range []string{"small", "mid", "seg", "seg+1"} {
			segs := 1
			if cl == "seg+1" {
				segs = 2
			}
			total := segs * c11AckLen
			var ks []int
			if thorough {
				for k := 0; k <= total+2; k++ {
					ks = append(ks, k)
				}
			} else {
				ks = []int{0, total - 1, total, total + 1}
				if segs == 2 {
					ks = append(ks, c11AckLen)
				}
			}
			for _, k := range ks {
				reps := 1
				if k == total {
					reps = 3
					if thorough {
						reps = 8
					}
				}
				for rep := 0; rep < reps; rep++ {
					out = append(out, c11Cut{Dir: dir, Class: cl, K: k, Rst: (k+rep)%2 == 1, Rep: rep})
				}
			}
		}
	}
	return out
}

func TestVerifC11CutAfterAck(t *testing.T) {
	log.SetOutput(io.Discard)
	u := vk.Unit{Property: "C11", Name: "c11.cut-after-ack",
		Rule: "a dialed Client and a Client created by the real TCP listener under a real cla.Manager, joined through a TCP forwarder of the harness; one bundle (encoding of ~150 B, ~300 kB, exactly one 1 MiB segment, one segment + 1 byte) is sent by the dialing or by the listening side while the forwarder cuts the connection (orderly or by reset) after K bytes of the acknowledgements' direction, K = 0 .. all acknowledgement bytes + 2 (quick tier: 0, all-1, all, all+1 and the segment boundary), the cut exactly behind the last acknowledgement repeated 3 (8) times. Oracle: Send returns nil only if every acknowledgement byte passed the forwarder, and whenever Send returned nil the receiving Client hands up exactly one bundle, byte-identical - before it reports its peer as gone; with an error the receiver hands up nothing or that one bundle. Every case non-trivial; distinct by tuple"}
	cases := c11CutCases()
	vk.Enumerate(t, u, true, func(yield func(c11Cut) bool) {
		for i, cs := range cases {
			if !vk.ShardOwns(i + 1) {
				continue
			}
			if !yield(cs) {
				return
			}
		}
	}, func(c *vk.Ctx, cs c11Cut) {
		c.NonTrivial()
		eidA := bpv7.MustNewEndpointID("dtn://a/")
		eidB := bpv7.MustNewEndpointID("dtn://b/")
		mgr := cla.NewManager()
		var ln *TCPListener
		var lnAddr string
		for try := 0; try < 8 && ln == nil; try++ {
			probe, err := net.Listen("tcp", "127.0.0.1:0")
			if err != nil {
				continue
			}
			lnAddr = probe.Addr().String()
			_ = probe.Close()
			l := ListenTCP(lnAddr, eidB)
			l.RegisterManager(mgr)
			if err := l.Start(); err == nil {
				ln = l
			}
		}
		if ln == nil {
			_ = mgr.Close()
			c.Failf("c11.harness", "no port for the listener")
		}
		px, err := vk.NewProxy()
		if err != nil {
			_ = ln.Close()
			_ = mgr.Close()
			c.Failf("c11.harness", "forwarder: %v", err)
		}
		px.SetTarget(lnAddr)

		sideB := &c11Side{}
		senderB := make(chan cla.ConvergenceSender, 4)
		mgrDone := make(chan struct{})
		mgrStop := make(chan struct{})
		go func() {
			defer close(mgrDone)
			for {
				select {
				case st := <-mgr.Channel():
					switch st.MessageType {
					case cla.ReceivedBundle:
						sideB.add(st.Message.(cla.ConvergenceReceivedBundle).Bundle)
					case cla.PeerAppeared:
						if s, ok := st.Sender.(cla.ConvergenceSender); ok {
							senderB <- s
						}
					case cla.PeerDisappeared:
						sideB.mu.Lock()
						sideB.gone++
						sideB.mu.Unlock()
					}
				case <-mgrStop:
					return
				}
			}
		}()
		a := DialTCP(px.Addr(), eidA, false)
		aStarted := false
		cleanup := func() {
			px.Disarm()
			if aStarted {
				func() {
					defer func() { _ = recover() }()
					_ = a.Close()
				}()
			}
			_ = ln.Close()
			_ = mgr.Close()
			close(mgrStop)
			<-mgrDone
			px.Close()
		}
		if err, _ := a.Start(); err != nil {
			cleanup()
			c.Failf("c11.harness", "dialing client does not start: %v", err)
		}
		aStarted = true
		// side A: everything the dialing client reports, in the order of its channel
		type ev struct {
			bundle []byte
			gone   bool
		}
		aEvents := make(chan ev, 64)
		aChan := a.Channel()
		go func() {
			for st := range aChan {
				switch st.MessageType {
				case cla.ReceivedBundle:
					var buf bytes.Buffer
					_ = st.Message.(cla.ConvergenceReceivedBundle).Bundle.WriteBundle(&buf)
					aEvents <- ev{bundle: buf.Bytes()}
				case cla.PeerDisappeared:
					aEvents <- ev{gone: true}
					return
				}
			}
		}()
		var b cla.ConvergenceSender
		select {
		case b = <-senderB:
		case <-time.After(20 * time.Second):
			cleanup()
			c.Failf("c11.harness", "listening side never reported the peer")
		}

		x := c11Xfer{Class: cs.Class, Seed: uint64(cs.K*7 + cs.Rep + 1)}
		switch cs.Class {
		case "small":
			x.Pay = 60
		case "mid":
			x.Pay = 300000
		}
		var bndl bpv7.Bundle
		var enc []byte
		var snd cla.ConvergenceSender
		ackDir := 1 // listener -> dialer
		if cs.Dir == "ab" {
			bndl, enc, err = c11Build("dtn://a/app", "dtn://b/app", x)
			snd = a
		} else {
			bndl, enc, err = c11Build("dtn://b/app", "dtn://a/app", x)
			snd = b
			ackDir = 0
		}
		if err != nil {
			cleanup()
			c.Failf("c11.harness", "bundle: %v", err)
		}
		segs := (len(enc) + c11SegMru - 1) / c11SegMru
		total := segs * c11AckLen
		before := px.Forwarded(ackDir)
		px.Arm(ackDir, int64(cs.K), cs.Rst)
		serr, pan := c11SafeSend(snd, bndl)
		if pan != "" {
			cleanup()
			c.Failf("c11.send-panics", "Send panicked: %s", pan)
		}
		acked := px.Forwarded(ackDir) - before
		cut := px.Cuts() > 0
		c.Classf("send error: %v, connection cut: %v", serr != nil, cut)

		// what the receiver hands up
		var got [][]byte
		goneFirst := false
		if cs.Dir == "ba" {
			deadline := time.After(15 * time.Second)
		loop:
			for {
				select {
				case e := <-aEvents:
					if e.gone {
						goneFirst = len(got) == 0
						break loop
					}
					got = append(got, e.bundle)
					if !cut {
						break loop
					}
				case <-deadline:
					break loop
				}
			}
		} else {
			deadline := time.Now().Add(15 * time.Second)
			var goneAt time.Time
			for time.Now().Before(deadline) {
				sideB.mu.Lock()
				n, gone := len(sideB.got), sideB.gone
				sideB.mu.Unlock()
				if n > 0 && (!cut || gone > 0) {
					break
				}
				if gone > 0 {
					if goneAt.IsZero() {
						goneAt = time.Now()
					} else if time.Since(goneAt) > 3*time.Second {
						break
					}
				}
				time.Sleep(time.Millisecond)
			}
			sideB.mu.Lock()
			got = append(got, sideB.got...)
			sideB.mu.Unlock()
		}
		cleanup()

		if serr == nil && acked < int64(total) {
			c.Failf("c11.success-without-ack", "Send returned nil although only %d of the %d acknowledgement bytes of the transfer (%d segments) reached the sender before the connection was cut", acked, total, segs)
		}
		for _, g := range got {
			if !bytes.Equal(g, enc) {
				c.Failf("c11.corrupt", "the receiver handed up a bundle that differs from the one sent (%d instead of %d bytes, or other bytes)", len(g), len(enc))
			}
		}
		if len(got) > 1 {
			c.Failf("c11.duplicate", "one bundle was sent, the receiver handed up %d", len(got))
		}
		if serr == nil && len(got) == 0 {
			order := ""
			if goneFirst {
				order = " (its channel carries the PeerDisappeared status and no bundle before it)"
			}
			c.Failf("c11.success-without-delivery", "Send returned nil - every acknowledgement reached the sender, then the connection was lost (cut after %d bytes of acknowledgements, %d segments, %d bytes) - but the receiving Client never handed the bundle up%s: the transfer was acknowledged and dropped", cs.K, segs, len(enc), order)
		}
	})
}
