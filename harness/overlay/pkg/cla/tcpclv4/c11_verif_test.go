package tcpclv4

import (
	"bytes"
	"fmt"
	"io"
	"net"
	"net/http"
	"net/http/httptest"
	"sort"
	"strings"
	"sync"
	"testing"
	"time"

	log "github.com/sirupsen/logrus"

	"github.com/dtn7/dtn7-go/pkg/bpv7"
	"github.com/dtn7/dtn7-go/pkg/cla"
	vk "github.com/dtn7/dtn7-go/pkg/verifkit"
	"pgregory.net/rapid"
)

// C11 over real sockets — two real Clients (one dialed, one created by the real listener and
// started by a real cla.Manager) on loopback TCP or WebSocket exchange bundles in both
// directions, sequentially or from concurrent goroutines. Oracle: every Send on the healthy
// session returns nil and the other side hands up exactly the multiset of bundles sent to it,
// each byte-identical; after the session is lost, Send returns an error (never nil, never a
// crash) unless the receiver did hand the bundle up.

const c11SegMru = 1048576 // fixed in Client.Start

type c11Xfer struct {
	Class string `json:"class"` // small | mid | seg-1 | seg | seg+1 | 2seg
	Pay   int    `json:"pay"`   // for small/mid
	Seed  uint64 `json:"seed"`
}

type c11Sock struct {
	WS         bool      `json:"ws"`
	AB         []c11Xfer `json:"a_to_b"` // dialing side -> listening side
	BA         []c11Xfer `json:"b_to_a"`
	Concurrent bool      `json:"concurrent"`
	Loss       int       `json:"loss"` // 0 none; 1 = A's session closed, then B sends; 2 = connection cut under A, then A sends; 3 = connection cut under B, then B sends
}

var c11PadCache sync.Map // target encoded length -> payload length

func c11Build(src, dst string, x c11Xfer) (bpv7.Bundle, []byte, error) {
	mk := func(pay int) (bpv7.Bundle, []byte, error) {
		b, err := bpv7.Builder().CRC(bpv7.CRC32).Source(src).Destination(dst).CreationTimestampNow().Lifetime("1h").
			HopCountBlock(30).PayloadBlock(vk.PayloadBytes(pay, x.Seed)).Build()
		if err != nil {
			return b, nil, err
		}
		var buf bytes.Buffer
		err = b.WriteBundle(&buf)
		return b, buf.Bytes(), err
	}
	target := 0
	switch x.Class {
	case "small", "mid":
		return mk(x.Pay)
	case "seg-1":
		target = c11SegMru - 1
	case "seg":
		target = c11SegMru
	case "seg+1":
		target = c11SegMru + 1
	case "2seg":
		target = 2 * c11SegMru
	default:
		return bpv7.Bundle{}, nil, fmt.Errorf("class %q", x.Class)
	}
	// The creation timestamp's width may differ between two builds (sequence number), so the
	// payload length is adjusted until the encoding has exactly the wanted length.
	pay := target - 120
	for i := 0; i < 6; i++ {
		b, e, err := mk(pay)
		if err != nil {
			return b, nil, err
		}
		if len(e) == target {
			return b, e, nil
		}
		pay += target - len(e)
	}
	return bpv7.Bundle{}, nil, fmt.Errorf("cannot reach encoded length %d", target)
}

func genC11Sock(t *rapid.T) c11Sock {
	x := rapid.Custom(func(t *rapid.T) c11Xfer {
		cl := rapid.SampledFrom([]string{"small", "small", "small", "mid", "seg-1", "seg", "seg", "seg+1", "2seg"}).Draw(t, "class")
		xf := c11Xfer{Class: cl, Seed: rapid.Uint64Range(0, 1<<30).Draw(t, "seed")}
		switch cl {
		case "small":
			xf.Pay = rapid.IntRange(0, 300).Draw(t, "pay")
		case "mid":
			xf.Pay = rapid.SampledFrom([]int{4096, 65535, 65536, 70000, 300000}).Draw(t, "pay")
		}
		return xf
	})
	return c11Sock{
		WS:         rapid.Bool().Draw(t, "ws"),
		AB:         rapid.SliceOfN(x, 0, 5).Draw(t, "ab"),
		BA:         rapid.SliceOfN(x, 0, 5).Draw(t, "ba"),
		Concurrent: rapid.Bool().Draw(t, "concurrent"),
		Loss:       rapid.SampledFrom([]int{0, 0, 0, 1, 2, 3}).Draw(t, "loss"),
	}
}

type c11Side struct {
	mu   sync.Mutex
	got  [][]byte
	gone int
}

func (s *c11Side) add(b *bpv7.Bundle) {
	var buf bytes.Buffer
	_ = b.WriteBundle(&buf)
	s.mu.Lock()
	s.got = append(s.got, buf.Bytes())
	s.mu.Unlock()
}

func (s *c11Side) count() int {
	s.mu.Lock()
	defer s.mu.Unlock()
	return len(s.got)
}

func c11Multiset(bs [][]byte) []string {
	out := make([]string, len(bs))
	for i, b := range bs {
		out[i] = string(b)
	}
	sort.Strings(out)
	return out
}

func c11SafeSend(s cla.ConvergenceSender, b bpv7.Bundle) (err error, panicked string) {
	defer func() {
		if r := recover(); r != nil {
			panicked = fmt.Sprint(r)
		}
	}()
	err = s.Send(b)
	return
}

func TestVerifC11Sockets(t *testing.T) {
	log.SetOutput(io.Discard)
	u := vk.Unit{Property: "C11", Name: "c11.sockets", Quick: 60, Thorough: 1500,
		Rule: "a dialed Client and a Client created by the real TCP / WebSocket listener and started by a real cla.Manager, on loopback; 0..5 bundles per direction with encodings of 40 B .. 2 MiB incl. exactly 1 and 2 segments of the fixed 1 MiB MRU and one byte either side; sent one after the other or from one goroutine per bundle in both directions at once; optional session loss afterwards (own Close, peer Close, connection cut) followed by one more Send. Oracle: healthy session => every Send nil and the peer hands up exactly the multiset sent, byte-identical; after loss => Send returns an error or the bundle was handed up, and never panics. Non-trivial = both directions used with >= 3 bundles in total, or a bundle whose encoding is a multiple of the segment size, or a loss scenario; distinct by case hash"}
	vk.Check(t, u, genC11Sock, func(c *vk.Ctx, cs c11Sock) {
		eidA := bpv7.MustNewEndpointID("dtn://a/")
		eidB := bpv7.MustNewEndpointID("dtn://b/")

		// listening side: real listener + real manager
		mgr := cla.NewManager()
		var addr string
		var srv *httptest.Server
		if cs.WS {
			l := ListenWebSocket(eidB)
			mux := http.NewServeMux()
			mux.Handle("/tcpclv4", l)
			srv = httptest.NewServer(mux)
			addr = "ws://" + strings.TrimPrefix(srv.URL, "http://") + "/tcpclv4"
			mgr.Register(l)
		} else {
			ln, err := net.Listen("tcp", "127.0.0.1:0")
			if err != nil {
				c.Failf("c11.harness", "listen: %v", err)
			}
			addr = ln.Addr().String()
			_ = ln.Close()
			mgr.Register(ListenTCP(addr, eidB))
		}
		sideB := &c11Side{}
		senderB := make(chan cla.ConvergenceSender, 4)
		mgrDone := make(chan struct{})
		mgrStop := make(chan struct{})
		go func() {
			defer close(mgrDone)
			for {
				select {
				case st := <-mgr.Channel():
					switch st.MessageType {
					case cla.ReceivedBundle:
						sideB.add(st.Message.(cla.ConvergenceReceivedBundle).Bundle)
					case cla.PeerAppeared:
						if s, ok := st.Sender.(cla.ConvergenceSender); ok {
							senderB <- s
						}
					case cla.PeerDisappeared:
						sideB.mu.Lock()
						sideB.gone++
						sideB.mu.Unlock()
					}
				case <-mgrStop:
					return
				}
			}
		}()
		closeAll := func(a *Client, aStarted bool) {
			if aStarted {
				func() {
					defer func() { _ = recover() }()
					_ = a.Close()
				}()
			}
			_ = mgr.Close()
			close(mgrStop)
			<-mgrDone
			if srv != nil {
				srv.CloseClientConnections()
				srv.Close()
			}
		}

		// dialing side: a bare Client, as the manager would start it
		var a *Client
		if cs.WS {
			a = DialWebSocket(addr, eidA, false)
		} else {
			a = DialTCP(addr, eidA, false)
		}
		var startErr error
		for try := 0; try < 40; try++ { // the TCP listener is started asynchronously by the manager
			if startErr, _ = a.Start(); startErr == nil {
				break
			}
			time.Sleep(5 * time.Millisecond)
		}
		if startErr != nil {
			closeAll(a, false)
			c.Failf("c11.harness", "dialing client does not start: %v", startErr)
		}
		sideA := &c11Side{}
		aDone := make(chan struct{})
		aChan := a.Channel()
		go func() {
			defer close(aDone)
			for st := range aChan {
				switch st.MessageType {
				case cla.ReceivedBundle:
					sideA.add(st.Message.(cla.ConvergenceReceivedBundle).Bundle)
				case cla.PeerDisappeared:
					sideA.mu.Lock()
					sideA.gone++
					sideA.mu.Unlock()
					return
				}
			}
		}()
		var b cla.ConvergenceSender
		select {
		case b = <-senderB:
		case <-time.After(20 * time.Second):
			closeAll(a, true)
			c.Failf("c11.harness", "listening side never reported the peer")
		}

		type res struct {
			dir string
			idx int
			err error
			pan string
			enc []byte
		}
		var results []res
		var rmu sync.Mutex
		var wg sync.WaitGroup
		send := func(dir string, i int, x c11Xfer) {
			defer wg.Done()
			var bndl bpv7.Bundle
			var e []byte
			var err error
			var snd cla.ConvergenceSender
			if dir == "ab" {
				bndl, e, err = c11Build("dtn://a/app", "dtn://b/app", x)
				snd = a
			} else {
				bndl, e, err = c11Build("dtn://b/app", "dtn://a/app", x)
				snd = b
			}
			if err != nil {
				rmu.Lock()
				results = append(results, res{dir, i, fmt.Errorf("harness build: %w", err), "harness", nil})
				rmu.Unlock()
				return
			}
			serr, pan := c11SafeSend(snd, bndl)
			rmu.Lock()
			results = append(results, res{dir, i, serr, pan, e})
			rmu.Unlock()
		}
		multiple := false
		for _, x := range append(append([]c11Xfer{}, cs.AB...), cs.BA...) {
			if x.Class == "seg" || x.Class == "2seg" {
				multiple = true
			}
		}
		if cs.Concurrent {
			for i, x := range cs.AB {
				wg.Add(1)
				go send("ab", i, x)
			}
			for i, x := range cs.BA {
				wg.Add(1)
				go send("ba", i, x)
			}
			wg.Wait()
		} else {
			n := len(cs.AB)
			if len(cs.BA) > n {
				n = len(cs.BA)
			}
			for i := 0; i < n; i++ {
				if i < len(cs.AB) {
					wg.Add(1)
					send("ab", i, cs.AB[i])
				}
				if i < len(cs.BA) {
					wg.Add(1)
					send("ba", i, cs.BA[i])
				}
			}
		}
		var wantA, wantB [][]byte
		var failure string
		for _, r := range results {
			if r.pan == "harness" {
				failure = r.err.Error()
				continue
			}
			if r.pan != "" {
				failure = fmt.Sprintf("Send %s[%d] panics on a healthy session: %s", r.dir, r.idx, r.pan)
				continue
			}
			if r.err != nil {
				failure = fmt.Sprintf("Send %s[%d] (%d bytes) fails on a healthy session: %v", r.dir, r.idx, len(r.enc), r.err)
				continue
			}
			if r.dir == "ab" {
				wantB = append(wantB, r.enc)
			} else {
				wantA = append(wantA, r.enc)
			}
		}
		// Send returned nil => the transfer including END was acknowledged; the hand-up to the
		// status channel follows asynchronously: wait (bounded) for the counts, judge the content.
		deadline := time.Now().Add(10 * time.Second)
		for (sideA.count() < len(wantA) || sideB.count() < len(wantB)) && time.Now().Before(deadline) {
			time.Sleep(200 * time.Microsecond)
		}
		time.Sleep(3 * time.Millisecond) // anything beyond what was sent?

		// session loss and one more transmission
		var lossMsg string
		if cs.Loss != 0 && failure == "" {
			x := c11Xfer{Class: "small", Pay: 50, Seed: 99}
			var snd cla.ConvergenceSender
			var src, dst string
			var recvSide *c11Side
			switch cs.Loss {
			case 1: // A closes its session in an orderly way; B transmits afterwards
				_ = a.Close()
				snd, src, dst, recvSide = b, "dtn://b/app", "dtn://a/app", sideA
			case 2: // the connection under A is cut; A transmits afterwards
				if cc := a.connCloser; cc != nil {
					_ = cc.Close()
				}
				snd, src, dst, recvSide = a, "dtn://a/app", "dtn://b/app", sideB
			case 3: // the connection under B is cut; B transmits afterwards
				if cc := b.(*Client).connCloser; cc != nil {
					_ = cc.Close()
				}
				snd, src, dst, recvSide = b, "dtn://b/app", "dtn://a/app", sideA
			}
			time.Sleep(30 * time.Millisecond) // let both sides notice
			before := recvSide.count()
			bndl, _, err := c11Build(src, dst, x)
			if err != nil {
				lossMsg = "harness build: " + err.Error()
			} else {
				done := make(chan struct{})
				var serr error
				var pan string
				go func() {
					serr, pan = c11SafeSend(snd, bndl)
					close(done)
				}()
				select {
				case <-done:
					if pan != "" {
						lossMsg = fmt.Sprintf("c11.send-after-loss-panics|Send after session loss (scenario %d) panics: %s", cs.Loss, pan)
					} else if serr == nil {
						time.Sleep(20 * time.Millisecond)
						if recvSide.count() == before {
							lossMsg = fmt.Sprintf("c11.success-not-delivered|Send after session loss (scenario %d) returns nil although the peer handed nothing up", cs.Loss)
						}
					}
				case <-time.After(40 * time.Second):
					lossMsg = fmt.Sprintf("c11.send-after-loss-hangs|Send after session loss (scenario %d) has not returned after 40 s", cs.Loss)
				}
			}
		}

		a2 := a
		closeAll(a2, cs.Loss != 1)
		select {
		case <-aDone:
		case <-time.After(5 * time.Second):
		}

		if len(cs.AB) > 0 && len(cs.BA) > 0 && len(cs.AB)+len(cs.BA) >= 3 || multiple || cs.Loss != 0 {
			c.NonTrivial()
		}
		if cs.WS {
			c.Class("transport:ws")
		} else {
			c.Class("transport:tcp")
		}
		if multiple {
			c.Class("encoding is a multiple of the segment size")
		}
		if cs.Concurrent && len(cs.AB)+len(cs.BA) >= 2 {
			c.Class("concurrent senders")
		}
		c.Classf("loss:%d", cs.Loss)

		if failure != "" {
			if strings.HasPrefix(failure, "harness") {
				c.Failf("c11.harness", "%s", failure)
			}
			c.Failf("c11.socket-send-fails", "%s", failure)
		}
		sideA.mu.Lock()
		gotA := c11Multiset(sideA.got)
		sideA.mu.Unlock()
		sideB.mu.Lock()
		gotB := c11Multiset(sideB.got)
		sideB.mu.Unlock()
		chk := func(name string, want [][]byte, got []string) {
			w := c11Multiset(want)
			if len(w) != len(got) {
				c.Failf("c11.socket-count", "%s: %d transmissions reported successful, %d bundles handed up", name, len(w), len(got))
			}
			for i := range w {
				if w[i] != got[i] {
					c.Failf("c11.socket-differs", "%s: the bundles handed up are not the bundles sent (multiset differs at %d: %d vs %d bytes)", name, i, len(got[i]), len(w[i]))
				}
			}
		}
		if cs.Loss == 0 {
			chk("a->b", wantB, gotB)
			chk("b->a", wantA, gotA)
		} else {
			// the extra bundle of the loss scenario may or may not have arrived; compare the prefix sets
			chkSub := func(name string, want [][]byte, got []string) {
				g := map[string]int{}
				for _, x := range got {
					g[x]++
				}
				for _, w := range want {
					if g[string(w)] == 0 {
						c.Failf("c11.socket-count", "%s: a transmission reported successful was never handed up (%d bytes)", name, len(w))
					}
					g[string(w)]--
				}
			}
			chkSub("a->b", wantB, gotB)
			chkSub("b->a", wantA, gotA)
		}
		if lossMsg != "" {
			if i := strings.Index(lossMsg, "|"); i > 0 {
				c.Failf(lossMsg[:i], "%s", lossMsg[i+1:])
			}
			c.Failf("c11.harness", "%s", lossMsg)
		}
	})
}
