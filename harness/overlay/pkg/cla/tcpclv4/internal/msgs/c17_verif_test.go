package msgs

import (
	"bytes"
	"fmt"
	"io"
	"reflect"
	"testing"

	vk "github.com/dtn7/dtn7-go/pkg/verifkit"
	"pgregory.net/rapid"
)

// C17 (TCPCLv4 part) — contact header and the seven message types round-trip and stay aligned.

type vfMsg struct {
	Kind   string `json:"kind"`
	U8a    uint8  `json:"u8a,omitempty"`
	U8b    uint8  `json:"u8b,omitempty"`
	U16    uint16 `json:"u16,omitempty"`
	U64a   uint64 `json:"u64a,omitempty"`
	U64b   uint64 `json:"u64b,omitempty"`
	StrLen int    `json:"strlen,omitempty"`
	Seed   uint64 `json:"seed,omitempty"`
}

var vfKinds = []string{"contact", "sess_init", "sess_term", "xfer_segment", "xfer_ack", "xfer_refuse", "keepalive", "reject"}

func (m vfMsg) build() Message {
	switch m.Kind {
	case "contact":
		return NewContactHeader(ContactFlags(m.U8a))
	case "sess_init":
		id := make([]byte, m.StrLen)
		pb := vk.PayloadBytes(m.StrLen, m.Seed)
		for i := range id {
			id[i] = "abcdefghijklmnopqrstuvwxyz:/.-0123456789"[int(pb[i])%40]
		}
		return NewSessionInitMessage(m.U16, m.U64a, m.U64b, string(id))
	case "sess_term":
		return NewSessionTerminationMessage(SessionTerminationFlags(m.U8a), SessionTerminationCode(m.U8b%6))
	case "xfer_segment":
		return NewDataTransmissionMessage(SegmentFlags(m.U8a), m.U64a, vk.PayloadBytes(m.StrLen, m.Seed))
	case "xfer_ack":
		return NewDataAcknowledgementMessage(SegmentFlags(m.U8a), m.U64a, m.U64b)
	case "xfer_refuse":
		return NewTransferRefusalMessage(TransferRefusalCode(m.U8b%7), m.U64a)
	case "keepalive":
		return NewKeepaliveMessage()
	default:
		return NewMessageRejectionMessage(MessageRejectionReason(1+m.U8b%3), m.U8a)
	}
}

func vfNorm(m Message) Message {
	if d, ok := m.(*DataTransmissionMessage); ok && len(d.Data) == 0 {
		c := *d
		c.Data = nil
		return &c
	}
	return m
}

var vfU64s = []uint64{0, 1, 255, 256, 65535, 65536, 1<<32 - 1, 1 << 32, 1<<63 - 1, 1 << 63, 1<<64 - 1}

func genMsg(t *rapid.T) vfMsg {
	m := vfMsg{Kind: rapid.SampledFrom(vfKinds).Draw(t, "kind")}
	m.U8a = rapid.OneOf(rapid.SampledFrom([]uint8{0, 1, 2, 3, 255}), rapid.Uint8()).Draw(t, "u8a")
	m.U8b = rapid.Uint8().Draw(t, "u8b")
	m.U16 = rapid.OneOf(rapid.SampledFrom([]uint16{0, 1, 255, 256, 65535}), rapid.Uint16()).Draw(t, "u16")
	m.U64a = rapid.OneOf(rapid.SampledFrom(vfU64s), rapid.Uint64()).Draw(t, "u64a")
	m.U64b = rapid.OneOf(rapid.SampledFrom(vfU64s), rapid.Uint64()).Draw(t, "u64b")
	if m.Kind == "sess_init" || m.Kind == "xfer_segment" {
		m.StrLen = rapid.OneOf(rapid.SampledFrom([]int{0, 1, 2, 255, 256, 65535}), rapid.IntRange(0, 300)).Draw(t, "strlen")
		if m.Kind == "xfer_segment" && rapid.IntRange(0, 19).Draw(t, "big") == 0 {
			m.StrLen = rapid.SampledFrom([]int{65536, 100000}).Draw(t, "biglen")
		}
		m.Seed = rapid.Uint64Range(0, 1000).Draw(t, "seed")
	}
	return m
}

func boundary(m vfMsg) bool {
	isB := func(v uint64) bool {
		for _, b := range vfU64s {
			if v == b {
				return true
			}
		}
		return false
	}
	return isB(m.U64a) || isB(m.U64b) || m.U16 == 0 || m.U16 == 65535 || m.StrLen == 0 || m.StrLen == 255 || m.StrLen == 256 || m.StrLen >= 65535 || m.U8a == 255
}

func TestVerifC17MsgsStream(t *testing.T) {
	u := vk.Unit{Property: "C17", Name: "c17.tcpcl-stream", Quick: 6000, Thorough: 300000,
		Rule: "1..12 generated TCPCLv4 messages (contact header + 7 types, numeric fields at 0/1/width maximum/random, node IDs and data of length 0/1/255/256/65535/random) are marshalled into one buffer followed by a sentinel byte and read back with ReadMessage; each must equal the written value and the reader must end exactly at the sentinel, from a bytes.Reader and from a reader that returns short reads of 1..7 bytes; non-trivial = stream with >= 2 messages and >= 1 boundary field; distinct by case hash"}
	vk.Check(t, u, func(t *rapid.T) []vfMsg {
		return rapid.SliceOfN(rapid.Custom(genMsg), 1, 12).Draw(t, "msgs")
	}, func(c *vk.Ctx, ms []vfMsg) {
		var buf bytes.Buffer
		var want []Message
		anyB := false
		for _, m := range ms {
			msg := m.build()
			want = append(want, msg)
			if err := msg.Marshal(&buf); err != nil {
				c.Failf("c17.marshal-error", "%s: %v", m.Kind, err)
			}
			c.Class("kind=" + m.Kind)
			anyB = anyB || boundary(m)
		}
		if len(ms) >= 2 && anyB {
			c.NonTrivial()
		}
		buf.WriteByte(0xA5)
		r := bytes.NewReader(buf.Bytes())
		for i, w := range want {
			got, err := ReadMessage(r)
			if err != nil {
				c.Failf("c17.decode-error", "message %d (%s) of the stream cannot be read back: %v", i, ms[i].Kind, err)
			}
			if !reflect.DeepEqual(vfNorm(got), vfNorm(w)) {
				c.Failf("c17.roundtrip-differs", "message %d (%s): got %v want %v", i, ms[i].Kind, got, w)
			}
		}
		rest, _ := io.ReadAll(r)
		if !bytes.Equal(rest, []byte{0xA5}) {
			c.Failf("c17.misaligned", "after reading %d messages %d bytes remain instead of the sentinel", len(want), len(rest))
		}
		// the same stream from a connection that delivers it in small pieces (a TCP stream may do so)
		if buf.Len() <= 20000 {
			cr := &vfChunkReader{data: buf.Bytes(), sizes: []int{1, 3, 2, 7, 1, 5}}
			for i, w := range want {
				got, err := ReadMessage(cr)
				if err != nil {
					c.Failf("c17.reader-dependent", "message %d (%s) is read back from a bytes.Reader but not from a reader that returns short reads: %v", i, ms[i].Kind, err)
				}
				if !reflect.DeepEqual(vfNorm(got), vfNorm(w)) {
					c.Failf("c17.reader-dependent", "message %d (%s) read from a reader that returns short reads differs: got %v want %v", i, ms[i].Kind, got, w)
				}
			}
			if rest, _ := io.ReadAll(cr); !bytes.Equal(rest, []byte{0xA5}) {
				c.Failf("c17.misaligned", "short-read reader: after reading %d messages %d bytes remain instead of the sentinel", len(want), len(rest))
			}
		}
	})
}

// vfChunkReader returns at most the next size of a cyclic list per Read.
type vfChunkReader struct {
	data  []byte
	sizes []int
	i     int
}

func (r *vfChunkReader) Read(p []byte) (int, error) {
	if len(r.data) == 0 {
		return 0, io.EOF
	}
	n := r.sizes[r.i%len(r.sizes)]
	r.i++
	if n > len(p) {
		n = len(p)
	}
	if n > len(r.data) {
		n = len(r.data)
	}
	copy(p, r.data[:n])
	r.data = r.data[n:]
	return n, nil
}

type vfCodeCase struct {
	What string `json:"what"`
	V    int    `json:"v"`
	Pos  int    `json:"pos,omitempty"`
}

func TestVerifC17MsgsCodes(t *testing.T) {
	u := vk.Unit{Property: "C17", Name: "c17.tcpcl-codes",
		Rule: "exhaustive: all 256 values of the message-type byte, of each reason-code field (SESS_TERM, XFER_REFUSE, MSG_REJECT), of each contact-header magic/version byte: accepted iff inside the enumeration / equal to the magic; accepted values must decode to themselves; every case non-trivial; distinct by (field, value)"}
	vk.Enumerate(t, u, true, func(yield func(vfCodeCase) bool) {
		for _, w := range []string{"type", "sess_term", "xfer_refuse", "reject"} {
			for v := 0; v < 256; v++ {
				if !yield(vfCodeCase{What: w, V: v}) {
					return
				}
			}
		}
		for pos := 0; pos < 5; pos++ {
			for v := 0; v < 256; v++ {
				if !yield(vfCodeCase{What: "magic", V: v, Pos: pos}) {
					return
				}
			}
		}
	}, func(c *vk.Ctx, cs vfCodeCase) {
		c.NonTrivial()
		v := byte(cs.V)
		var raw []byte
		var valid bool
		switch cs.What {
		case "type":
			// a full valid body for every known type follows the type byte
			bodies := map[byte]Message{SESS_INIT: NewSessionInitMessage(1, 2, 3, "dtn://x/"), SESS_TERM: NewSessionTerminationMessage(0, 1),
				XFER_SEGMENT: NewDataTransmissionMessage(3, 1, []byte("d")), XFER_ACK: NewDataAcknowledgementMessage(1, 2, 3),
				XFER_REFUSE: NewTransferRefusalMessage(1, 2), KEEPALIVE: NewKeepaliveMessage(), MSG_REJECT: NewMessageRejectionMessage(1, 2), 0x64: NewContactHeader(0)}
			_, valid = bodies[v]
			if valid {
				var b bytes.Buffer
				_ = bodies[v].Marshal(&b)
				raw = b.Bytes()
			} else {
				raw = append([]byte{v}, bytes.Repeat([]byte{0}, 40)...)
			}
		case "sess_term":
			raw, valid = []byte{SESS_TERM, 0, v}, v <= 5
		case "xfer_refuse":
			raw, valid = []byte{XFER_REFUSE, v, 0, 0, 0, 0, 0, 0, 0, 9}, v <= 6
		case "reject":
			raw, valid = []byte{MSG_REJECT, v, 7}, v >= 1 && v <= 3
		case "magic":
			raw = []byte{0x64, 0x74, 0x6E, 0x21, 0x04, 0x00}
			valid = raw[cs.Pos] == v
			raw[cs.Pos] = v
			if cs.Pos == 0 && !valid {
				// another (or no) message type; only "is not read as a contact header" is asserted
				msg, err := ReadMessage(bytes.NewReader(raw))
				if _, isCh := msg.(*ContactHeader); err == nil && isCh {
					c.Failf("c17.invalid-accepted", "bytes %x are read as a contact header", raw)
				}
				return
			}
		}
		msg, err := ReadMessage(bytes.NewReader(append(raw, 0xA5)))
		if valid && err != nil {
			c.Failf("c17.valid-rejected", "%s value %d is inside the enumeration but rejected: %v", cs.What, cs.V, err)
		}
		if !valid && err == nil {
			c.Failf("c17.invalid-accepted", "%s value %d is outside the enumeration but accepted as %v", cs.What, cs.V, msg)
		}
		if valid {
			var b bytes.Buffer
			if err := msg.Marshal(&b); err != nil || !bytes.Equal(b.Bytes(), raw) {
				c.Failf("c17.roundtrip-differs", "%s value %d does not re-encode to itself: %x vs %x (%v)", cs.What, cs.V, b.Bytes(), raw, err)
			}
		}
	})
}

var _ = fmt.Sprint
