package msgs

import (
	"bytes"
	"encoding/binary"
	"testing"

	vk "github.com/dtn7/dtn7-go/pkg/verifkit"
)

// C04 (TCPCLv4 messages) — ReadMessage never crashes, hangs or balloons.

func TestVerifChild(t *testing.T) {
	vk.ChildMain(t, map[string]vk.Target{
		"tcpcl-message": func(in []byte) string {
			r := bytes.NewReader(in)
			n := 0
			for r.Len() > 0 {
				if _, err := ReadMessage(r); err != nil {
					return "rejected"
				}
				n++
			}
			return "accepted"
		},
	})
}

func marshal(m Message) []byte {
	var b bytes.Buffer
	_ = m.Marshal(&b)
	return b.Bytes()
}

func TestVerifC04Messages(t *testing.T) {
	if vk.IsChild() {
		t.Skip()
	}
	seeds := [][]byte{
		marshal(NewContactHeader(0)), marshal(NewSessionInitMessage(30, 1<<20, 1<<30, "dtn://node/")), marshal(NewSessionInitMessage(0, 0, 0, "")),
		marshal(NewSessionTerminationMessage(1, 3)), marshal(NewDataTransmissionMessage(3, 7, []byte("some data of a segment"))), marshal(NewDataTransmissionMessage(0, 0, nil)),
		marshal(NewDataAcknowledgementMessage(1, 2, 3)), marshal(NewTransferRefusalMessage(2, 9)), marshal(NewKeepaliveMessage()), marshal(NewMessageRejectionMessage(1, 5)),
	}
	cases := vk.C04Inputs(seeds, false)
	bounds := vk.LengthBoundaries
	put := func(class string, base []byte, off, width int, v uint64) {
		m := append([]byte(nil), base...)
		switch width {
		case 2:
			binary.BigEndian.PutUint16(m[off:], uint16(v))
		case 4:
			binary.BigEndian.PutUint32(m[off:], uint32(v))
		case 8:
			binary.BigEndian.PutUint64(m[off:], v)
		}
		cases = append(cases, vk.C04Case{Class: class, Input: m})
	}
	si := marshal(NewSessionInitMessage(30, 1<<20, 1<<30, "dtn://node/"))
	seg := marshal(NewDataTransmissionMessage(3, 7, []byte("some data of a segment")))
	for _, v := range bounds {
		// SESS_INIT: header(1) keepalive(2) segmentMRU(8) transferMRU(8) nodeIdLen(2) nodeId extLen(4)
		put("SESS_INIT node id length", si, 19, 2, v)
		put("SESS_INIT extension length", si, len(si)-4, 4, v)
		put("SESS_INIT segment MRU", si, 3, 8, v)
		put("SESS_INIT transfer MRU", si, 11, 8, v)
		// XFER_SEGMENT: header(1) flags(1) transferId(8) extLen(4) dataLen(8) data
		put("XFER_SEGMENT extension length", seg, 10, 4, v)
		put("XFER_SEGMENT data length", seg, 14, 8, v)
		for _, w := range bounds {
			m := append([]byte(nil), seg...)
			binary.BigEndian.PutUint32(m[10:], uint32(v))
			binary.BigEndian.PutUint64(m[14:], w)
			cases = append(cases, vk.C04Case{Class: "XFER_SEGMENT extension and data length", Input: m})
		}
	}
	// every message type byte followed by 0xff / 0x00 runs
	for ty := 0; ty < 256; ty++ {
		cases = append(cases, vk.C04Case{Class: "type byte + 0xff run", Input: append([]byte{byte(ty)}, bytes.Repeat([]byte{0xff}, 64)...)})
		cases = append(cases, vk.C04Case{Class: "type byte + 0x00 run", Input: append([]byte{byte(ty)}, bytes.Repeat([]byte{0x00}, 64)...)})
	}
	vk.RunC04(t, vk.C04Spec{Target: "tcpcl-message", Unit: vk.Unit{Property: "C04", Name: "c04.tcpcl-message",
		Rule: "msgs.ReadMessage on a stream: every message type (valid), every truncation, each length field (SESS_INIT node-id length and extension length, XFER_SEGMENT extension length and data length, alone and crossed) and the MRU fields set to the 11 boundary values, all 256 type bytes followed by 0xff / 0x00 runs; in child processes; violation = process death, panic, hang, or allocation > 4 MiB + 256 x len(input); distinct by input hash"}}, cases)
}

func FuzzVerifC04Messages(f *testing.F) {
	seeds := [][]byte{
		marshal(NewContactHeader(0)), marshal(NewSessionInitMessage(30, 1<<20, 1<<30, "dtn://node/")), marshal(NewSessionTerminationMessage(1, 3)),
		marshal(NewDataTransmissionMessage(3, 7, []byte("some data of a segment"))), marshal(NewDataAcknowledgementMessage(1, 2, 3)), marshal(NewTransferRefusalMessage(2, 9)),
		marshal(NewKeepaliveMessage()), marshal(NewMessageRejectionMessage(1, 5)),
		{0x01, 0x03, 0, 0, 0, 0, 0, 0, 0, 1, 0xff, 0xff, 0xff, 0xff, 0xff, 0xff, 0xff, 0xff, 0xff, 0xff, 0xff, 0xff},
	}
	vk.FuzzC04(f, "tcpcl-message", func(in []byte) string {
		r := bytes.NewReader(in)
		for r.Len() > 0 {
			if _, err := ReadMessage(r); err != nil {
				return "rejected"
			}
		}
		return "accepted"
	}, 4<<20, seeds)
}
