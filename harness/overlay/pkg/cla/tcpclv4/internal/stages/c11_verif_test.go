package stages

import (
	"testing"
	"time"

	"github.com/dtn7/dtn7-go/pkg/cla/tcpclv4/internal/msgs"
	vk "github.com/dtn7/dtn7-go/pkg/verifkit"
	"pgregory.net/rapid"
)

// C11 (session stage) — between the connection and the TransferManager sits the established-session
// stage. Whatever the pace of the upper layer, it must pass the received XFER_SEGMENTs (and the
// acknowledgements in the other direction) on in the order of their arrival, none lost, none twice:
// otherwise the concatenation of the segments is not the bundle's encoding any more.

type c11StageCase struct {
	Segments int   `json:"segments"`
	PauseMs  int   `json:"initial_pause_ms"` // the upper layer is busy at first (e.g. an earlier bundle has not been fetched yet)
	Every    int   `json:"pause_every"`      // ... and pauses for 1 ms after every n-th message (0: never)
	IDs      []int `json:"transfer_ids"`     // transfer ids interleaved round-robin
}

func TestVerifC11StageOrder(t *testing.T) {
	u := vk.Unit{Property: "C11", Name: "c11.stage-order", Quick: 40, Thorough: 1500,
		Rule: "a real SessEstablishedStage with channels of the size NewStageHandler uses (32) receives 1..3000 XFER_SEGMENTs of 1..3 interleaved transfers (small negotiated segment size: many segments per bundle) while the consumer of its exchange channel is busy at first (0..60 ms) and pauses now and then; oracle: the consumer gets exactly the segments received, per transfer in the order of reception; non-trivial = more than 64 segments and a busy consumer; distinct by case hash"}
	vk.Check(t, u, func(t *rapid.T) c11StageCase {
		return c11StageCase{Segments: rapid.OneOf(rapid.IntRange(1, 100), rapid.IntRange(100, 3000)).Draw(t, "segments"),
			PauseMs: rapid.SampledFrom([]int{0, 1, 10, 60}).Draw(t, "pause"), Every: rapid.SampledFrom([]int{0, 7, 50}).Draw(t, "every"),
			IDs: rapid.SliceOfNDistinct(rapid.IntRange(0, 5), 1, 3, func(x int) int { return x }).Draw(t, "ids")}
	}, func(c *vk.Ctx, cs c11StageCase) {
		if cs.Segments > 64 && (cs.PauseMs > 0 || cs.Every > 0) {
			c.NonTrivial()
		}
		msgIn := make(chan msgs.Message, 32)
		state := &State{MsgIn: msgIn, MsgOut: make(chan msgs.Message, 32), ExchangeMsgIn: make(chan msgs.Message, 32), ExchangeMsgOut: make(chan msgs.Message, 32), Keepalive: 0}
		closeChan := make(chan struct{})
		fin := make(chan struct{})
		sess := &SessEstablishedStage{}
		go func() { sess.Handle(state, closeChan); close(fin) }()
		go func() {
			for i := 0; i < cs.Segments; i++ {
				var fl msgs.SegmentFlags
				if i < len(cs.IDs) {
					fl |= msgs.SegmentStart
				}
				if i >= cs.Segments-len(cs.IDs) {
					fl |= msgs.SegmentEnd
				}
				id := uint64(cs.IDs[i%len(cs.IDs)])
				msgIn <- msgs.NewDataTransmissionMessage(fl, id, []byte{byte(i >> 16), byte(i >> 8), byte(i)})
			}
		}()
		time.Sleep(time.Duration(cs.PauseMs) * time.Millisecond)
		last := map[uint64]int{}
		for i := 0; i < cs.Segments; i++ {
			select {
			case m := <-state.ExchangeMsgIn:
				dtm, ok := m.(*msgs.DataTransmissionMessage)
				if !ok {
					c.Failf("c11.stage-foreign", "the stage handed up a %T instead of a segment", m)
				}
				no := int(dtm.Data[0])<<16 | int(dtm.Data[1])<<8 | int(dtm.Data[2])
				if prev, seen := last[dtm.TransferId]; seen && no <= prev {
					c.Failf("c11.stage-order", "segment %d of transfer %d was handed up after segment %d (received in the opposite order); %d segments, consumer busy for %d ms first", no, dtm.TransferId, prev, cs.Segments, cs.PauseMs)
				}
				if want := i; no != want {
					c.Failf("c11.stage-order", "segment %d was handed up at position %d of %d (consumer busy for %d ms first)", no, i, cs.Segments, cs.PauseMs)
				}
				last[dtm.TransferId] = no
			case <-time.After(20 * time.Second):
				c.Failf("c11.stage-lost", "segment %d of %d never reached the upper layer (20 s)", i, cs.Segments)
			}
			if cs.Every > 0 && i%cs.Every == cs.Every-1 {
				time.Sleep(time.Millisecond)
			}
		}
		select {
		case m := <-state.ExchangeMsgIn:
			c.Failf("c11.stage-duplicate", "the stage handed up one message more than it received: %v", m)
		case <-time.After(2 * time.Millisecond):
		}
		close(closeChan)
		select {
		case <-fin:
		case <-time.After(5 * time.Second):
			c.Failf("c11.stage-stuck", "the stage does not end after its close signal")
		}
	})
}
