package utils

import (
	"bytes"
	"fmt"
	"io"
	"runtime"
	"strings"
	"sync"
	"sync/atomic"
	"testing"
	"time"

	"github.com/dtn7/dtn7-go/pkg/bpv7"
	"github.com/dtn7/dtn7-go/pkg/cla/tcpclv4/internal/msgs"
	vk "github.com/dtn7/dtn7-go/pkg/verifkit"
	"pgregory.net/rapid"
)

// C11 — TCPCLv4 transfers deliver the exact bundle, and success means delivered.

type c11Grid struct {
	L int `json:"L"`
	M int `json:"m"`
}

// vfTrain pulls all segments of an outgoing transfer (bounded, to survive a non-terminating sender).
func vfTrain(t *OutgoingTransfer, m uint64, max int) (segs []*msgs.DataTransmissionMessage, err error) {
	for i := 0; i < max; i++ {
		dtm, e := t.NextSegment(m)
		if e != nil {
			if e == io.EOF {
				return segs, nil
			}
			return segs, e
		}
		segs = append(segs, dtm)
		if dtm.Flags&msgs.SegmentEnd != 0 {
			// a correct sender has nothing more to say; ask once more to see that it does not invent data
			if extra, e2 := t.NextSegment(m); e2 == nil {
				segs = append(segs, extra)
			}
			return segs, nil
		}
	}
	return segs, fmt.Errorf("sender did not terminate after %d segments", max)
}

// vfTrainOracle is the validity predicate over a segment train.
func vfTrainOracle(c *vk.Ctx, segs []*msgs.DataTransmissionMessage, data []byte, m int, id uint64) {
	if len(segs) == 0 {
		c.Failf("c11.no-segments", "no segment emitted for %d bytes", len(data))
	}
	var cat []byte
	for i, s := range segs {
		if len(s.Data) > m {
			c.Failf("c11.segment-too-large", "segment %d carries %d bytes, negotiated size %d", i, len(s.Data), m)
		}
		if s.TransferId != id {
			c.Failf("c11.transfer-id", "segment %d has transfer id %d, want %d", i, s.TransferId, id)
		}
		start, end := s.Flags&msgs.SegmentStart != 0, s.Flags&msgs.SegmentEnd != 0
		if start != (i == 0) {
			c.Failf("c11.start-flag", "segment %d of %d: start flag = %v (L=%d, m=%d)", i, len(segs), start, len(data), m)
		}
		if end != (i == len(segs)-1) {
			c.Failf("c11.end-flag", "segment %d of %d: end flag = %v (L=%d, m=%d)", i, len(segs), end, len(data), m)
		}
		cat = append(cat, s.Data...)
	}
	if !bytes.Equal(cat, data) {
		c.Failf("c11.concatenation", "concatenated segments (%d bytes) differ from the data (%d bytes), L=%d m=%d", len(cat), len(data), len(data), m)
	}
}

func TestVerifC11Grid(t *testing.T) {
	maxL := 160
	if vk.Tier() == "thorough" {
		maxL = 400
	}
	u := vk.Unit{Property: "C11", Name: "c11.grid",
		Rule: "exhaustive: data length L = 1..N (quick 160, thorough 400) x segment size m = 1..L+2 through OutgoingTransfer.NextSegment; validity predicate over the segment train (concatenation = data, no segment > m, START on exactly the first, END on exactly the last segment, an END exists); non-trivial = >= 2 segments; distinct by (L, m)"}
	vk.Enumerate(t, u, true, func(yield func(c11Grid) bool) {
		i := 0
		for L := 1; L <= maxL; L++ {
			for m := 1; m <= L+2; m++ {
				i++
				if !vk.ShardOwns(i) {
					continue
				}
				if !yield(c11Grid{L, m}) {
					return
				}
			}
		}
	}, func(c *vk.Ctx, g c11Grid) {
		data := vk.PayloadBytes(g.L, uint64(g.L*1000+g.M))
		tr, w := NewOutgoingTransfer(uint64(g.L))
		go func() {
			_, _ = w.Write(data)
			_ = w.(*io.PipeWriter).Close()
		}()
		segs, err := vfTrain(tr, uint64(g.M), g.L+5)
		if err != nil {
			c.Failf("c11.sender-error", "L=%d m=%d: %v", g.L, g.M, err)
		}
		if len(segs) >= 2 {
			c.NonTrivial()
		}
		if g.L%g.M == 0 {
			c.Class("m divides L")
		}
		vfTrainOracle(c, segs, data, g.M, uint64(g.L))
	})
}

// vfBundleOfLen builds a bundle whose encoding has a length that is a multiple of m (if align) .
func vfBundle(payLen int, seed uint64, m int, align bool) (bpv7.Bundle, []byte, error) {
	mk := func(n int) (bpv7.Bundle, []byte, error) {
		b, err := bpv7.Builder().CRC(bpv7.CRC32).Source("dtn://src/app").Destination("dtn://dst/app").CreationTimestampNow().Lifetime("1h").
			HopCountBlock(30).PayloadBlock(vk.PayloadBytes(n, seed)).Build()
		if err != nil {
			return b, nil, err
		}
		var buf bytes.Buffer
		err = b.WriteBundle(&buf)
		return b, buf.Bytes(), err
	}
	b, enc, err := mk(payLen)
	if err != nil || !align || m <= 0 {
		return b, enc, err
	}
	for i := 0; i < 6 && len(enc)%m != 0; i++ {
		payLen += m - len(enc)%m
		if b, enc, err = mk(payLen); err != nil {
			return b, enc, err
		}
	}
	return b, enc, nil
}

type c11Bundle struct {
	Pay   int    `json:"pay"`
	Seed  uint64 `json:"seed"`
	M     int    `json:"m"`
	Align bool   `json:"align"`
}

func TestVerifC11BundleTrains(t *testing.T) {
	u := vk.Unit{Property: "C11", Name: "c11.bundle-trains", Quick: 600, Thorough: 30000,
		Rule: "real bundles through NewBundleOutgoingTransfer with segment sizes 1, 7, 64, 4096, 65536 and (thorough) 1 MiB; in half of the cases the payload is padded so that the encoded length is an exact multiple of the segment size; predicate as c11.grid against the bundle's own serialisation; non-trivial = >= 2 segments; distinct by case hash"}
	vk.Check(t, u, func(t *rapid.T) c11Bundle {
		ms := []int{1, 7, 64, 4096, 65536}
		if vk.Tier() == "thorough" {
			ms = append(ms, 1<<20)
		}
		m := rapid.SampledFrom(ms).Draw(t, "m")
		maxPay := 4 * m
		if maxPay < 300 {
			maxPay = 300
		}
		if maxPay > 2200000 {
			maxPay = 2200000
		}
		return c11Bundle{Pay: rapid.IntRange(0, maxPay).Draw(t, "pay"), Seed: rapid.Uint64Range(0, 99).Draw(t, "seed"), M: m, Align: rapid.Bool().Draw(t, "align")}
	}, func(c *vk.Ctx, cs c11Bundle) {
		b, enc, err := vfBundle(cs.Pay, cs.Seed, cs.M, cs.Align)
		if err != nil {
			c.Failf("c11.harness", "bundle: %v", err)
		}
		if len(enc)%cs.M == 0 {
			c.Class("m divides L")
		}
		c.Classf("m=%d", cs.M)
		tr := NewBundleOutgoingTransfer(7, b)
		segs, err := vfTrain(tr, uint64(cs.M), len(enc)/cs.M+5)
		if err != nil {
			c.Failf("c11.sender-error", "L=%d m=%d: %v", len(enc), cs.M, err)
		}
		if len(segs) >= 2 {
			c.NonTrivial()
		}
		vfTrainOracle(c, segs, enc, cs.M, 7)
	})
}

// ---- two transfer managers back to back ----

type vfPair struct {
	a, b     *TransferManager
	gotA     chan bpv7.Bundle // bundles handed up at a
	gotB     chan bpv7.Bundle
	errs     chan error
	stopOnce sync.Once
	stop     chan struct{}
}

func vfNewPair(m uint64) *vfPair {
	// buffered like a network connection: a manager's handler must never block on its peer's handler
	ab := make(chan msgs.Message, 1<<16)
	ba := make(chan msgs.Message, 1<<16)
	p := &vfPair{gotA: make(chan bpv7.Bundle, 64), gotB: make(chan bpv7.Bundle, 64), errs: make(chan error, 64), stop: make(chan struct{})}
	p.a = NewTransferManager(ba, ab, m)
	p.b = NewTransferManager(ab, ba, m)
	drain := func(tm *TransferManager, out chan bpv7.Bundle) {
		bs, es := tm.Exchange()
		for {
			select {
			case b := <-bs:
				out <- b
			case e := <-es:
				select {
				case p.errs <- e:
				default:
				}
			case <-p.stop:
				return
			}
		}
	}
	go drain(p.a, p.gotA)
	go drain(p.b, p.gotB)
	return p
}

func (p *vfPair) close() {
	p.stopOnce.Do(func() {
		_ = p.a.Close()
		_ = p.b.Close()
		close(p.stop)
	})
}

type c11Pair struct {
	M     int         `json:"m"`
	AtoB  []c11Bundle `json:"a_to_b"`
	BtoA  []c11Bundle `json:"b_to_a"`
	Async bool        `json:"concurrent"`
}

func enc(b *bpv7.Bundle) []byte {
	var buf bytes.Buffer
	_ = b.WriteBundle(&buf)
	return buf.Bytes()
}

func TestVerifC11Managers(t *testing.T) {
	u := vk.Unit{Property: "C11", Name: "c11.managers", Quick: 600, Thorough: 12000,
		Rule: "two TransferManagers connected back to back by channels, segment size m in {1(small bundles), 7, 64, 500, 4096}; 1..4 bundles sent in each direction, sequentially or all concurrently; half of the bundles padded so that m divides the encoded length; oracle: Send == nil => the peer hands up exactly one bundle with identical serialisation (awaited <= 5 s), nothing else is handed up, number handed up == number of nil returns; non-trivial = >= 2 segments per bundle or concurrent senders; distinct by case hash"}
	vk.Check(t, u, func(t *rapid.T) c11Pair {
		m := rapid.SampledFrom([]int{1, 7, 64, 500, 4096}).Draw(t, "m")
		gen := rapid.Custom(func(t *rapid.T) c11Bundle {
			maxPay := 3 * m
			if m == 1 {
				maxPay = 40
			}
			if maxPay < 100 {
				maxPay = 100
			}
			return c11Bundle{Pay: rapid.IntRange(0, maxPay).Draw(t, "pay"), Seed: rapid.Uint64Range(0, 1<<30).Draw(t, "seed"), M: m, Align: rapid.Bool().Draw(t, "align")}
		})
		return c11Pair{M: m, AtoB: rapid.SliceOfN(gen, 1, 4).Draw(t, "atob"), BtoA: rapid.SliceOfN(gen, 0, 4).Draw(t, "btoa"), Async: rapid.Bool().Draw(t, "async")}
	}, func(c *vk.Ctx, cs c11Pair) {
		p := vfNewPair(uint64(cs.M))
		defer p.close()
		type job struct {
			from *TransferManager
			to   chan bpv7.Bundle
			b    bpv7.Bundle
			enc  []byte
			err  error
			dir  string
		}
		var jobs []*job
		divides := false
		add := func(list []c11Bundle, from *TransferManager, to chan bpv7.Bundle, dir string) {
			for _, x := range list {
				b, e, err := vfBundle(x.Pay, x.Seed, cs.M, x.Align)
				if err != nil {
					c.Failf("c11.harness", "bundle: %v", err)
				}
				if len(e)%cs.M == 0 {
					divides = true
				}
				jobs = append(jobs, &job{from: from, to: to, b: b, enc: e, dir: dir})
			}
		}
		add(cs.AtoB, p.a, p.gotB, "a->b")
		add(cs.BtoA, p.b, p.gotA, "b->a")
		if divides {
			c.Class("some m divides L")
		}
		if cs.Async {
			c.Class("concurrent")
		}
		c.NonTrivial()
		if cs.Async {
			var wg sync.WaitGroup
			for _, j := range jobs {
				wg.Add(1)
				go func(j *job) { defer wg.Done(); j.err = j.from.Send(j.b) }(j)
			}
			wg.Wait()
		} else {
			for _, j := range jobs {
				j.err = j.from.Send(j.b)
			}
		}
		for _, j := range jobs {
			if j.err != nil {
				c.Class("a Send returned an error")
			}
		}
		// collect what was handed up on each side
		collect := func(ch chan bpv7.Bundle, want int) [][]byte {
			var out [][]byte
			deadline := time.After(5 * time.Second)
			for len(out) < want {
				select {
				case b := <-ch:
					out = append(out, enc(&b))
				case <-deadline:
					return out
				}
			}
			// anything beyond?
			select {
			case b := <-ch:
				out = append(out, enc(&b))
			case <-time.After(20 * time.Millisecond):
			}
			return out
		}
		for _, side := range []struct {
			dir string
			ch  chan bpv7.Bundle
		}{{"a->b", p.gotB}, {"b->a", p.gotA}} {
			var okEnc [][]byte
			var all [][]byte
			for _, j := range jobs {
				if j.dir != side.dir {
					continue
				}
				all = append(all, j.enc)
				if j.err == nil {
					okEnc = append(okEnc, j.enc)
				}
			}
			got := collect(side.ch, len(okEnc))
			// every successful send must have been handed up exactly once
			used := make([]bool, len(got))
			for _, w := range okEnc {
				found := false
				for i, g := range got {
					if !used[i] && bytes.Equal(g, w) {
						used[i], found = true, true
						break
					}
				}
				if !found {
					c.Failf("c11.success-not-delivered", "%s: Send returned nil for a bundle of %d bytes (m=%d, m|L=%v) but the receiver did not hand it up within 5 s (handed up: %d, successful sends: %d)",
						side.dir, len(w), cs.M, len(w)%cs.M == 0, len(got), len(okEnc))
				}
			}
			for i, g := range got {
				if used[i] {
					continue
				}
				// handed up without a successful send: allowed only if it is one of the sent bundles whose Send failed late
				known := false
				for _, a := range all {
					if bytes.Equal(a, g) {
						known = true
					}
				}
				if !known {
					c.Failf("c11.invented-bundle", "%s: receiver handed up a bundle of %d bytes that was never sent", side.dir, len(g))
				}
				c.Failf("c11.duplicate-delivery", "%s: receiver handed up more bundles (%d) than successful sends (%d)", side.dir, len(got), len(okEnc))
			}
		}
	})
}

// ---- scripted misbehaving peer ----

type c11Fault struct {
	Kind string `json:"kind"` // "stop-ack", "refuse", "wrong-ack", "close"
	K    int    `json:"k"`    // after how many segments
	Segs int    `json:"segs"` // number of segments of the transfer
	Code int    `json:"code"` // refuse: the XFER_REFUSE reason code (0..6)
}

func TestVerifC11Faults(t *testing.T) {
	u := vk.Unit{Property: "C11", Name: "c11.faults",
		Rule: "fault enumeration at message level: for transfers of n = 1..4 segments a scripted peer (a) stops acknowledging after segment k, (b) sends XFER_REFUSE (each of the seven reason codes) after segment k, (c) acknowledges a wrong final length, (d) the manager is closed after segment k, for all k; Send must return an error (the code's own 10 s timeout for (a)/(c); cases run concurrently); every case non-trivial; distinct by (kind, n, k, code)"}
	var cases []c11Fault
	maxSegs := 3
	if vk.Tier() == "thorough" {
		maxSegs = 6
	}
	for n := 1; n <= maxSegs; n++ {
		for k := 0; k < n; k++ {
			for _, kind := range []string{"stop-ack", "wrong-ack", "close"} {
				cases = append(cases, c11Fault{Kind: kind, K: k, Segs: n})
			}
			// a refusal is a refusal whatever reason the peer gives: all seven reason codes
			for code := 0; code <= 6; code++ {
				cases = append(cases, c11Fault{Kind: "refuse", K: k, Segs: n, Code: code})
			}
		}
	}
	type res struct {
		err     error
		elapsed time.Duration
		segs    int
	}
	run := func(cs c11Fault) res {
		b, e, _ := vfBundle(50, 1, 0, false)
		m := (len(e) + cs.Segs - 1) / cs.Segs
		if len(e)%m == 0 && cs.Segs > 1 {
			m++ // keep clear of the divisor case, which c11.grid covers
		}
		in := make(chan msgs.Message)
		out := make(chan msgs.Message)
		tm := NewTransferManager(in, out, uint64(m))
		defer tm.Close()
		done := make(chan struct{})
		seen := 0
		go func() {
			acked := 0
			for {
				select {
				case <-done:
					return
				case msg := <-out:
					seg, ok := msg.(*msgs.DataTransmissionMessage)
					if !ok {
						continue
					}
					seen++
					acked += len(seg.Data)
					idx := seen - 1
					switch {
					case idx < cs.K:
						send(in, done, msgs.NewDataAcknowledgementMessage(seg.Flags, seg.TransferId, uint64(acked)))
					case cs.Kind == "stop-ack":
					case cs.Kind == "refuse":
						send(in, done, msgs.NewTransferRefusalMessage(msgs.TransferRefusalCode(cs.Code), seg.TransferId))
					case cs.Kind == "wrong-ack":
						send(in, done, msgs.NewDataAcknowledgementMessage(seg.Flags, seg.TransferId, uint64(acked+1)))
					case cs.Kind == "close":
						_ = tm.Close()
					}
				}
			}
		}()
		// also drain the error channel of the manager
		go func() {
			_, es := tm.Exchange()
			for {
				select {
				case <-es:
				case <-done:
					return
				}
			}
		}()
		t0 := time.Now()
		err := tm.Send(b)
		close(done)
		return res{err, time.Since(t0), seen}
	}
	results := make([]res, len(cases))
	if raw := vfReplayMode(); !raw {
		var wg sync.WaitGroup
		for i := range cases {
			if !vk.ShardOwns(i) {
				continue
			}
			wg.Add(1)
			go func(i int) { defer wg.Done(); results[i] = run(cases[i]) }(i)
		}
		wg.Wait()
	}
	vk.Enumerate(t, u, true, func(yield func(c11Fault) bool) {
		for i := range cases {
			if !vk.ShardOwns(i) {
				continue
			}
			if !yield(cases[i]) {
				return
			}
		}
	}, func(c *vk.Ctx, cs c11Fault) {
		c.NonTrivial()
		c.Class("fault=" + cs.Kind)
		var r res
		found := false
		for i := range cases {
			if cases[i] == cs && results[i].segs > 0 {
				r, found = results[i], true
			}
		}
		if !found {
			r = run(cs)
		}
		if r.err == nil {
			c.Failf("c11.fault-success", "peer misbehaves (%s after segment %d of %d) but Send returns nil after %v", cs.Kind, cs.K, cs.Segs, r.elapsed)
		}
	})
}

func vfReplayMode() bool { return false }

func send(in chan msgs.Message, done chan struct{}, m msgs.Message) {
	select {
	case in <- m:
	case <-done:
	case <-time.After(15 * time.Second):
	}
}

// ---- unforced concurrency: many senders entering Send at the same instant --------------------

type c11Stress struct {
	M       int `json:"m"`
	Senders int `json:"senders_per_side"`
	Rounds  int `json:"rounds"`
}

func TestVerifC11ConcurrentStress(t *testing.T) {
	u := vk.Unit{Property: "C11", Name: "c11.concurrent-stress", Quick: 6, Thorough: 200,
		Rule: "two TransferManagers back to back; 2..4 sender goroutines per side, each sending 150..600 small bundles (segment size 16/64/500), all senders released together by a spin barrier before every Send so that Send calls of one session overlap within nanoseconds; oracle: every Send returns nil, each side hands up exactly the multiset of bundles sent to it, byte-identical, no session error; every case non-trivial; distinct by parameters. The schedule is the runtime's; a failure reproduces only statistically"}
	vk.Check(t, u, func(t *rapid.T) c11Stress {
		return c11Stress{M: rapid.SampledFrom([]int{16, 64, 500}).Draw(t, "m"), Senders: rapid.IntRange(2, 4).Draw(t, "senders"), Rounds: rapid.IntRange(150, 600).Draw(t, "rounds")}
	}, func(c *vk.Ctx, cs c11Stress) {
		c.NonTrivial()
		p := vfNewPair(uint64(cs.M))
		defer p.close()
		parties := int32(2 * cs.Senders)
		var arrived int32
		var abort uint32
		wait := func(step int) {
			target := int32(step+1) * parties
			atomic.AddInt32(&arrived, 1)
			for i := 1; atomic.LoadInt32(&arrived) < target && atomic.LoadUint32(&abort) == 0; i++ {
				if i%2048 == 0 {
					runtime.Gosched()
				}
			}
		}
		type sideRes struct {
			mu   sync.Mutex
			got  map[string]int
			n    int
			done chan struct{}
		}
		collect := func(ch chan bpv7.Bundle, want int) *sideRes {
			r := &sideRes{got: map[string]int{}, done: make(chan struct{})}
			go func() {
				defer close(r.done)
				deadline := time.After(60 * time.Second)
				for r.n < want {
					select {
					case b := <-ch:
						r.mu.Lock()
						r.got[string(enc(&b))]++
						r.n++
						r.mu.Unlock()
					case <-deadline:
						return
					case <-p.stop:
						return
					}
				}
			}()
			return r
		}
		total := cs.Senders * cs.Rounds
		resA := collect(p.gotA, total)
		resB := collect(p.gotB, total)
		want := map[string]map[string]int{"a": {}, "b": {}}
		var wmu sync.Mutex
		var firstErr atomic.Value
		var wg sync.WaitGroup
		for side := 0; side < 2; side++ {
			for s := 0; s < cs.Senders; s++ {
				wg.Add(1)
				go func(side, s int) {
					defer wg.Done()
					tm, to := p.a, "b"
					if side == 1 {
						tm, to = p.b, "a"
					}
					for r := 0; r < cs.Rounds; r++ {
						b, e, err := vfBundle(20+(r%40), uint64(side*1000000+s*100000+r), cs.M, false)
						if err != nil {
							firstErr.CompareAndSwap(nil, "harness: "+err.Error())
							atomic.StoreUint32(&abort, 1)
							return
						}
						wmu.Lock()
						want[to][string(e)]++
						wmu.Unlock()
						wait(r)
						if atomic.LoadUint32(&abort) != 0 {
							return
						}
						if err := tm.Send(b); err != nil {
							firstErr.CompareAndSwap(nil, fmt.Sprintf("Send (side %d, sender %d, round %d) fails: %v", side, s, r, err))
							atomic.StoreUint32(&abort, 1)
							return
						}
					}
				}(side, s)
			}
		}
		wg.Wait()
		if e := firstErr.Load(); e != nil {
			msg := e.(string)
			if strings.HasPrefix(msg, "harness") {
				c.Failf("c11.harness", "%s", msg)
			}
			c.Failf("c11.concurrent-send-fails", "%d senders per side, m=%d: %s although the peer acknowledges everything it receives", cs.Senders, cs.M, msg)
		}
		<-resA.done
		<-resB.done
		select {
		case e := <-p.errs:
			c.Failf("c11.concurrent-session-error", "a TransferManager reports an error on a fault-free connection: %v", e)
		default:
		}
		for name, r := range map[string]*sideRes{"a": resA, "b": resB} {
			r.mu.Lock()
			if r.n != total {
				c.Failf("c11.success-not-delivered", "side %s: %d Sends returned nil, %d bundles were handed up", name, total, r.n)
			}
			for k, n := range want[name] {
				if r.got[k] != n {
					c.Failf("c11.success-not-delivered", "side %s: a bundle sent %d time(s) was handed up %d time(s)", name, n, r.got[k])
				}
			}
			r.mu.Unlock()
		}
	})
}
