package utils

import (
	"bytes"
	"encoding/binary"
	"testing"
	"time"

	"github.com/dtn7/dtn7-go/pkg/cla/tcpclv4/internal/msgs"
	vk "github.com/dtn7/dtn7-go/pkg/verifkit"
)

// C04 (TCPCLv4 transfer layer) — a peer-declared segment MRU cannot make the sending side
// panic or spin; hostile message streams cannot crash the receiving side.

func c04TargetMRU(in []byte) string {
	if len(in) < 8 {
		return "short"
	}
	mru := binary.BigEndian.Uint64(in)
	b, _, err := vfBundle(40, 1, 0, false)
	if err != nil {
		return "harness"
	}
	msgIn := make(chan msgs.Message, 1024)
	msgOut := make(chan msgs.Message, 1024)
	tm := NewTransferManager(msgIn, msgOut, mru)
	defer tm.Close()
	stop := make(chan struct{})
	defer close(stop)
	go func() { // a well-behaved peer: acknowledges what it gets, but at most 4096 segments
		acked := 0
		n := 0
		for {
			select {
			case <-stop:
				return
			case m := <-msgOut:
				if seg, ok := m.(*msgs.DataTransmissionMessage); ok {
					acked += len(seg.Data)
					n++
					if n > 4096 {
						continue
					}
					select {
					case msgIn <- msgs.NewDataAcknowledgementMessage(seg.Flags, seg.TransferId, uint64(acked)):
					case <-stop:
						return
					}
				}
			}
		}
	}()
	go func() {
		bs, es := tm.Exchange()
		for {
			select {
			case <-bs:
			case <-es:
			case <-stop:
				return
			}
		}
	}()
	done := make(chan error, 1)
	go func() { done <- tm.Send(b) }()
	select {
	case err := <-done:
		if err != nil {
			return "send error"
		}
		return "sent"
	case <-time.After(15 * time.Second):
		// the implementation's own 10 s acknowledgement timeout has passed: the sender spins or is stuck
		for {
			time.Sleep(time.Hour)
		}
	}
}

func c04TargetStream(in []byte) string {
	msgIn := make(chan msgs.Message)
	msgOut := make(chan msgs.Message, 1<<16)
	tm := NewTransferManager(msgIn, msgOut, 1<<20)
	defer tm.Close()
	stop := make(chan struct{})
	defer close(stop)
	failed := make(chan struct{}, 1)
	go func() {
		bs, es := tm.Exchange()
		for {
			select {
			case <-bs:
			case <-es:
				select {
				case failed <- struct{}{}:
				default:
				}
			case <-stop:
				return
			}
		}
	}()
	r := bytes.NewReader(in)
	n := 0
	for r.Len() > 0 {
		m, err := msgs.ReadMessage(r)
		if err != nil {
			break
		}
		select {
		case msgIn <- m:
			n++
		case <-failed:
			return "manager stopped with an error"
		case <-time.After(2 * time.Second):
			return "manager does not take messages"
		}
	}
	time.Sleep(time.Millisecond)
	return "fed"
}

func TestVerifChild(t *testing.T) {
	vk.ChildMain(t, map[string]vk.Target{"tcpcl-mru": c04TargetMRU, "tcpcl-stream": c04TargetStream})
}

func TestVerifC04MRU(t *testing.T) {
	if vk.IsChild() {
		t.Skip()
	}
	var cases []vk.C04Case
	vals := append([]uint64{2, 7, 100, 1 << 20, 1<<20 + 1, 1 << 24, 1 << 30, 1 << 40}, vk.LengthBoundaries...)
	for _, v := range vals {
		var b [8]byte
		binary.BigEndian.PutUint64(b[:], v)
		cases = append(cases, vk.C04Case{Class: "peer segment MRU", Input: b[:]})
	}
	vk.RunC04(t, vk.C04Spec{Target: "tcpcl-mru", Hang: 40 * time.Second, Unit: vk.Unit{Property: "C04", Name: "c04.tcpcl-mru",
		Rule: "a TransferManager configured with the segment MRU a peer declared in SESS_INIT (0, 1, 2, 7, 23, 24, 100, 2^16, 2^20, 2^20+1, 2^24, 2^30, 2^31-1, 2^31, 2^32-1, 2^40, 2^62, 2^63, 2^64-1) sends one small bundle to a well-behaved peer, in child processes; violation = process death, panic, no return within the implementation's own 10 s timeout + margin (spin), or allocation > 4 MiB + 256 x 8; every case non-trivial; distinct by MRU"}}, cases)
}

func TestVerifC04Stream(t *testing.T) {
	if vk.IsChild() {
		t.Skip()
	}
	mk := func(ms ...msgs.Message) []byte {
		var b bytes.Buffer
		for _, m := range ms {
			_ = m.Marshal(&b)
		}
		return b.Bytes()
	}
	_, enc, _ := vfBundle(60, 3, 0, false)
	half := len(enc) / 2
	seeds := [][]byte{
		mk(msgs.NewDataTransmissionMessage(3, 1, enc)),
		mk(msgs.NewDataTransmissionMessage(2, 1, enc[:half]), msgs.NewDataTransmissionMessage(1, 1, enc[half:])),
		mk(msgs.NewDataTransmissionMessage(2, 1, enc[:half]), msgs.NewDataTransmissionMessage(2, 2, enc[:half]), msgs.NewDataTransmissionMessage(1, 2, enc[half:]), msgs.NewDataTransmissionMessage(1, 1, enc[half:])),
		mk(msgs.NewDataTransmissionMessage(1, 5, enc), msgs.NewDataTransmissionMessage(1, 5, enc)),
		mk(msgs.NewDataAcknowledgementMessage(1, 99, 10)), mk(msgs.NewTransferRefusalMessage(1, 99)), mk(msgs.NewKeepaliveMessage()),
		mk(msgs.NewSessionTerminationMessage(0, 1)), mk(msgs.NewDataTransmissionMessage(3, 1, nil)), mk(msgs.NewDataTransmissionMessage(3, 1, []byte{0x9f, 0xff})),
	}
	cases := vk.C04Inputs(seeds, false)
	// segment flag / transfer id / content variations
	for flags := 0; flags < 8; flags++ {
		for _, tid := range []uint64{0, 1, 1 << 63, 1<<64 - 1} {
			cases = append(cases, vk.C04Case{Class: "segment flags x transfer id", Input: mk(msgs.NewDataTransmissionMessage(msgs.SegmentFlags(flags), tid, enc[:half]), msgs.NewDataTransmissionMessage(msgs.SegmentFlags(flags), tid, enc[half:]))})
		}
	}
	vk.RunC04(t, vk.C04Spec{Target: "tcpcl-stream", Unit: vk.Unit{Property: "C04", Name: "c04.tcpcl-stream",
		Rule: "message streams decoded with ReadMessage and fed to a TransferManager's handler: complete and split transfers, interleaved transfers, duplicate END, acknowledgement / refusal for unknown transfers, unexpected message types, empty and garbage bundles, all segment flag combinations x transfer ids, every truncation of each stream; in child processes; violation as c04.bundle; distinct by input hash"}}, cases)
}
