package discovery

import (
	"bytes"
	"reflect"
	"testing"

	"github.com/dtn7/dtn7-go/pkg/bpv7"
	"github.com/dtn7/dtn7-go/pkg/cla"
	vk "github.com/dtn7/dtn7-go/pkg/verifkit"
	"pgregory.net/rapid"
)

// C17 (discovery part) — announcement lists round-trip; invalid CLA types are rejected.

type vfAnn struct {
	Type uint64     `json:"type"`
	EID  vk.EIDSpec `json:"eid"`
	Port uint64     `json:"port"`
}

func vfEID(e vk.EIDSpec) bpv7.EndpointID {
	switch e.Kind {
	case "none":
		return bpv7.DtnNone()
	case "ipn":
		return bpv7.EndpointID{EndpointType: bpv7.IpnEndpoint{Node: e.N, Service: e.S}}
	default:
		return bpv7.EndpointID{EndpointType: bpv7.DtnEndpoint{NodeName: e.Node, Demux: e.Demux}}
	}
}

func TestVerifC17Announcements(t *testing.T) {
	u := vk.Unit{Property: "C17", Name: "c17.announcements", Quick: 4000, Thorough: 200000,
		Rule: "lists of 0..20 announcements (each valid CLA type, all endpoint forms, ports at 0/1/23/24/255/256/65535/65536/2^32/2^63): MarshalAnnouncements equals the independent encoding, UnmarshalAnnouncements returns an equal list; a list with one CLA type replaced by a value outside {0,1,10,20} is rejected; non-trivial = list of >= 2 announcements; distinct by case hash"}
	vk.Check(t, u, func(t *rapid.T) []vfAnn {
		return rapid.SliceOfN(rapid.Custom(func(t *rapid.T) vfAnn {
			return vfAnn{Type: rapid.SampledFrom([]uint64{0, 1, 10, 20}).Draw(t, "type"), EID: vk.GenEIDOrNone().Draw(t, "eid"),
				Port: vk.BoundaryMax(0, 1<<63).Draw(t, "port")}
		}), 0, 20).Draw(t, "anns")
	}, func(c *vk.Ctx, as []vfAnn) {
		if len(as) >= 2 {
			c.NonTrivial()
		}
		var in []Announcement
		var enc vk.Enc
		enc.Arr(uint64(len(as)))
		for _, a := range as {
			in = append(in, Announcement{Type: cla.CLAType(a.Type), Endpoint: vfEID(a.EID), Port: uint(a.Port)})
			enc.Arr(3).Uint(a.Type)
			a.EID.Encode(&enc)
			enc.Uint(a.Port)
		}
		data, err := MarshalAnnouncements(in)
		if err != nil {
			c.Failf("c17.marshal-error", "MarshalAnnouncements: %v", err)
		}
		if !bytes.Equal(data, enc.B) {
			c.Failf("c17.announce-cbor", "encoding %x differs from the independent encoder's %x", data, enc.B)
		}
		out, err := UnmarshalAnnouncements(data)
		if err != nil {
			c.Failf("c17.decode-error", "UnmarshalAnnouncements of an encoded list: %v", err)
		}
		if len(out) != len(in) || (len(in) > 0 && !reflect.DeepEqual(out, in)) {
			c.Failf("c17.roundtrip-differs", "announcements differ after round trip: %v vs %v", out, in)
		}
		// invalid CLA type in one position
		if len(as) > 0 {
			for _, bad := range []uint64{2, 9, 11, 19, 21, 255, 1 << 32} {
				var e2 vk.Enc
				e2.Arr(uint64(len(as)))
				for i, a := range as {
					ty := a.Type
					if i == len(as)/2 {
						ty = bad
					}
					e2.Arr(3).Uint(ty)
					a.EID.Encode(&e2)
					e2.Uint(a.Port)
				}
				if _, err := UnmarshalAnnouncements(e2.B); err == nil {
					c.Failf("c17.invalid-accepted", "announcement with CLA type %d is accepted", bad)
				}
			}
		}
	})
}
