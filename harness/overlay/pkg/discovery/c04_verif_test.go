package discovery

import (
	"testing"

	vk "github.com/dtn7/dtn7-go/pkg/verifkit"
)

// C04 (discovery) — announcement packets from the local network.

func TestVerifChild(t *testing.T) {
	vk.ChildMain(t, map[string]vk.Target{"announcements": func(in []byte) string {
		as, err := UnmarshalAnnouncements(in)
		if err != nil {
			return "rejected"
		}
		if len(as) > 0 {
			_ = as[0].String()
		}
		return "accepted"
	}})
}

func TestVerifC04Announcements(t *testing.T) {
	if vk.IsChild() {
		t.Skip()
	}
	mk := func(n int) []byte {
		var e vk.Enc
		e.Arr(uint64(n))
		for i := 0; i < n; i++ {
			e.Arr(3).Uint([]uint64{0, 1, 10, 20}[i%4])
			if i%2 == 0 {
				vk.EIDSpec{Kind: "dtn", Node: "node", Demux: "x"}.Encode(&e)
			} else {
				vk.EIDSpec{Kind: "ipn", N: 5, S: 6}.Encode(&e)
			}
			e.Uint(uint64(4556 + i))
		}
		return e.B
	}
	cases := vk.C04Inputs([][]byte{mk(0), mk(1), mk(3)}, true)
	vk.RunC04(t, vk.C04Spec{Target: "announcements", Unit: vk.Unit{Property: "C04", Name: "c04.announcements",
		Rule: "discovery.UnmarshalAnnouncements on valid lists of 0, 1 and 3 announcements with every CBOR head (list length, array lengths, text lengths, numbers) at the 11 boundary values and every truncation; in child processes; violation = process death, panic, hang, allocation > 4 MiB + 256 x len(input); distinct by input hash"}}, cases)
}

func FuzzVerifC04Announcements(f *testing.F) {
	var e vk.Enc
	e.Arr(1).Arr(3).Uint(10)
	vk.EIDSpec{Kind: "dtn", Node: "node", Demux: "x"}.Encode(&e)
	e.Uint(4556)
	vk.FuzzC04(f, "announcements", func(in []byte) string {
		if _, err := UnmarshalAnnouncements(in); err != nil {
			return "rejected"
		}
		return "accepted"
	}, 4<<20, [][]byte{e.B, {0x80}, {0x9b, 0x7f, 0xff, 0xff, 0xff, 0xff, 0xff, 0xff, 0xff}})
}
