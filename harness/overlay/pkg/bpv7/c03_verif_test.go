package bpv7

import (
	"bytes"
	"fmt"
	"testing"
	"time"

	vk "github.com/dtn7/dtn7-go/pkg/verifkit"
	"pgregory.net/rapid"
)

// C03 — block CRCs are computed per specification and every mismatch is rejected.

var c03Opts = vk.GenOpts{AllCRC: true, SmallPayload: true}

// c03Judge decides independently whether an encoding is a structurally sound bundle
// whose every block carries a correct CRC consistent with its declared type.
func c03Judge(raw []byte) (valid bool, why string) {
	w, err := vk.ReadBundle(raw)
	if err != nil {
		return false, "structure: " + err.Error()
	}
	if w.End != len(raw) {
		return false, "trailing bytes"
	}
	chk := func(crcType uint64, arrHasCRC bool) string {
		if crcType > 2 {
			return "unknown CRC type"
		}
		if (crcType != 0) != arrHasCRC {
			return "array length contradicts CRC type"
		}
		return ""
	}
	if s := chk(w.Primary.CRCType, w.Primary.CRCItem != nil); s != "" {
		return false, "primary: " + s
	}
	for i := range w.Blocks {
		if s := chk(w.Blocks[i].CRCType, w.Blocks[i].CRCItem != nil); s != "" {
			return false, fmt.Sprintf("block %d: %s", i, s)
		}
	}
	if p := w.CheckCRCs(); len(p) > 0 {
		return false, p[0]
	}
	return true, ""
}

// --- serialiser writes the right CRC ---

func TestVerifC03Write(t *testing.T) {
	vfRegisterCustom()
	u := vk.Unit{Property: "C03", Name: "c03.write", Quick: 3000, Thorough: 100000,
		Rule: "valid bundles with CRC-16 or CRC-32 on every block, serialised by dtn7; every block is delimited by the independent reader and its CRC recomputed bit-by-bit (X-25 / Castagnoli) over the block with the CRC field zeroed; non-trivial = >=2 canonical blocks; distinct by case hash"}
	vk.Check(t, u, func(t *rapid.T) vk.BundleSpec {
		o := c03Opts
		o.SmallPayload = false
		o.MaxPayload = 70000
		return vk.GenBundle(o).Draw(t, "bundle")
	}, func(c *vk.Ctx, s vk.BundleSpec) {
		b := vfBundle(&s, vfNowDtn())
		raw, err := vfWrite(&b)
		if err != nil {
			c.Failf("c03.write-error", "serialising failed: %v", err)
		}
		if len(s.Blocks) >= 2 {
			c.NonTrivial()
		}
		w, err := vk.ReadBundle(raw)
		if err != nil {
			c.Failf("c03.write-undecodable", "independent reader: %v", err)
		}
		if w.Primary.CRCItem == nil {
			c.Failf("c03.write-missing-crc", "primary block declares CRC type %d but carries no CRC", s.CRC)
		}
		for i := range w.Blocks {
			if w.Blocks[i].CRCItem == nil {
				c.Failf("c03.write-missing-crc", "block %d declares CRC type %d but carries no CRC", i, w.Blocks[i].CRCType)
			}
			c.Classf("block-crc=%d", w.Blocks[i].CRCType)
		}
		if p := w.CheckCRCs(); len(p) > 0 {
			c.Failf("c03.write-wrong-crc", "serialiser wrote a CRC that the independent implementation does not reproduce: %s", p[0])
		}
	})
}

// --- a primary block built through the public constructors always carries a CRC ---

type c03CtorCase struct {
	Path string `json:"path"`
	CRC  uint64 `json:"crc"`
	Src  string `json:"src"`
}

func TestVerifC03Constructors(t *testing.T) {
	u := vk.Unit{Property: "C03", Name: "c03.constructors",
		Rule: "every public way to create a primary block (NewPrimaryBlock, SetCRCType, Bundle.SetCRCType, Builder().CRC, BuildFromMap) x requested CRC type none/16/32: the serialised primary block must carry a correct CRC; enumerated exhaustively; every case non-trivial"}
	paths := []string{"NewPrimaryBlock", "SetCRCType", "Bundle.SetCRCType", "Builder.CRC", "Builder.default", "BuildFromMap", "MustNewBundle", "Fragment"}
	vk.Enumerate(t, u, true, func(yield func(c03CtorCase) bool) {
		for _, p := range paths {
			for crc := uint64(0); crc <= 2; crc++ {
				for _, src := range []string{"dtn://a/b", "ipn:3.4"} {
					if !yield(c03CtorCase{Path: p, CRC: crc, Src: src}) {
						return
					}
				}
			}
		}
	}, func(c *vk.Ctx, cs c03CtorCase) {
		c.NonTrivial()
		src := MustNewEndpointID(cs.Src)
		dst := MustNewEndpointID("dtn://dest/")
		ts := NewCreationTimestamp(DtnTimeNow(), 0)
		payload := NewCanonicalBlock(1, 0, NewPayloadBlock([]byte("hello world, this is a payload")))
		var b Bundle
		var err error
		switch cs.Path {
		case "NewPrimaryBlock":
			pb := NewPrimaryBlock(0, dst, src, ts, 3600000)
			b, err = NewBundle(pb, []CanonicalBlock{payload})
		case "SetCRCType":
			pb := NewPrimaryBlock(0, dst, src, ts, 3600000)
			pb.SetCRCType(CRCType(cs.CRC))
			b, err = NewBundle(pb, []CanonicalBlock{payload})
		case "Bundle.SetCRCType":
			pb := NewPrimaryBlock(0, dst, src, ts, 3600000)
			b, err = NewBundle(pb, []CanonicalBlock{payload})
			b.SetCRCType(CRCType(cs.CRC))
		case "MustNewBundle":
			pb := NewPrimaryBlock(0, dst, src, ts, 3600000)
			b = MustNewBundle(pb, []CanonicalBlock{payload})
			b.SetCRCType(CRCType(cs.CRC))
		case "Builder.CRC":
			b, err = Builder().CRC(CRCType(cs.CRC)).Source(src).Destination(dst).CreationTimestampNow().Lifetime("1h").PayloadBlock([]byte("hello")).Build()
		case "Builder.default":
			b, err = Builder().Source(src).Destination(dst).CreationTimestampNow().Lifetime("1h").PayloadBlock([]byte("hello")).Build()
		case "BuildFromMap":
			b, err = BuildFromMap(map[string]interface{}{"source": cs.Src, "destination": "dtn://dest/", "creation_timestamp_now": true, "lifetime": "1h", "payload_block": "hello"})
		case "Fragment":
			var whole Bundle
			whole, err = Builder().CRC(CRCType(cs.CRC)).Source(src).Destination(dst).CreationTimestampNow().Lifetime("1h").BundleCtrlFlags(0).PayloadBlock(bytes.Repeat([]byte{7}, 500)).Build()
			if err == nil {
				var fr []Bundle
				fr, err = whole.Fragment(200)
				if err == nil {
					b = fr[len(fr)-1]
				}
			}
		}
		if err != nil {
			c.Failf("c03.ctor-error", "%s: %v", cs.Path, err)
		}
		raw, err := vfWrite(&b)
		if err != nil {
			c.Failf("c03.ctor-error", "%s: serialising failed: %v", cs.Path, err)
		}
		w, err := vk.ReadBundle(raw)
		if err != nil {
			c.Failf("c03.write-undecodable", "independent reader: %v", err)
		}
		if w.Primary.CRCType == 0 || w.Primary.CRCItem == nil {
			c.Failf("c03.primary-without-crc", "%s with requested CRC type %d produced a primary block without CRC", cs.Path, cs.CRC)
		}
		if p := w.CheckCRCs(); len(p) > 0 {
			c.Failf("c03.write-wrong-crc", "%s: %s", cs.Path, p[0])
		}
	})
}

// --- every single bit flip is rejected (exhaustive per bundle) ---

type c03FlipCase struct {
	BundleSeed int    `json:"bundle_seed"`
	Bit        int    `json:"bit"`
	Raw        []byte `json:"raw"` // the un-flipped encoding (kept for replay; lifetime >= 1h)
}

func TestVerifC03BitFlips(t *testing.T) {
	vfRegisterCustom()
	nb := 40
	if vk.Tier() == "thorough" {
		nb = 2000
	}
	u := vk.Unit{Property: "C03", Name: "c03.bitflips",
		Rule: "for each generated fully CRC-protected bundle (60..700 bytes) EVERY bit of the encoding is flipped (exhaustive per bundle) and the result parsed; the independent judge (own CBOR reader + own CRCs) says whether the mutant is still a sound bundle with all CRCs correct; if not the parser must reject; non-trivial = mutant judged invalid; distinct by (bundle, bit)"}
	vk.Enumerate(t, u, false, func(yield func(c03FlipCase) bool) {
		for i := 0; i < nb; i++ {
			if !vk.ShardOwns(i) {
				continue
			}
			seed := int(vk.BaseSeed())*100000 + i
			s := vk.GenBundle(c03Opts).Example(seed)
			raw := s.Encode(vfNowDtn())
			for bit := 0; bit < len(raw)*8; bit++ {
				if !yield(c03FlipCase{BundleSeed: seed, Bit: bit, Raw: raw}) {
					return
				}
			}
		}
	}, func(c *vk.Ctx, cs c03FlipCase) {
		if cs.Bit == 0 {
			// the un-flipped encoding must be accepted, so that a rejection is attributable to the flip
			if _, err := vfParse(cs.Raw); err != nil {
				c.Failf("c03.seed-rejected", "un-flipped fully CRC-protected bundle is rejected: %v", err)
			}
			if ok, why := c03Judge(cs.Raw); !ok {
				c.Failf("c03.harness", "independent judge rejects the seed: %s", why)
			}
		}
		mut := append([]byte(nil), cs.Raw...)
		mut[cs.Bit/8] ^= 1 << uint(7-cs.Bit%8)
		valid, why := c03Judge(mut)
		if valid {
			c.Class("flip judged still valid (skipped)")
			return
		}
		c.NonTrivial(fmt.Sprintf("%d/%d", cs.BundleSeed, cs.Bit))
		if _, err := vfParse(mut); err == nil {
			c.Failf("c03.flip-accepted", "bit %d (byte %d) flipped, independent judge: %q, but the parser accepts", cs.Bit, cs.Bit/8, why)
		}
	})
}

// --- bursts no longer than the CRC width, confined to one block ---

type c03BurstCase struct {
	Spec    vk.BundleSpec `json:"spec"`
	Block   int           `json:"block"`    // 0 = primary, i = i-th canonical block (mod count)
	Start   int           `json:"start"`    // start bit inside the block (mod)
	Pattern uint32        `json:"pattern"`  // burst pattern, first and last bit set
	Len     int           `json:"burstlen"` // burst length in bits
	Raw     []byte        `json:"raw,omitempty"`
}

func TestVerifC03Bursts(t *testing.T) {
	vfRegisterCustom()
	u := vk.Unit{Property: "C03", Name: "c03.bursts", Quick: 40000, Thorough: 2000000,
		Rule: "fully CRC-protected bundle x block x start bit x random burst pattern of length <= 16 (CRC-16 block) / <= 32 (CRC-32 block) confined to that block; bursts that move a block boundary (judged by the independent reader) are counted and skipped; otherwise the parser must reject; non-trivial = burst of >= 2 bits with boundaries intact; distinct by case hash"}
	vk.Check(t, u, func(t *rapid.T) c03BurstCase {
		o := c03Opts
		if rapid.IntRange(0, 19).Draw(t, "big") == 0 {
			o.SmallPayload = false
			o.MaxPayload = 70000
		}
		return c03BurstCase{
			Spec:    vk.GenBundle(o).Draw(t, "bundle"),
			Block:   rapid.IntRange(0, 16).Draw(t, "block"),
			Start:   rapid.IntRange(0, 1<<24).Draw(t, "start"),
			Pattern: rapid.Uint32().Draw(t, "pattern"),
			Len:     rapid.IntRange(1, 32).Draw(t, "len"),
		}
	}, func(c *vk.Ctx, cs c03BurstCase) {
		raw := cs.Raw
		if raw == nil {
			raw = cs.Spec.Encode(vfNowDtn())
		}
		w, err := vk.ReadBundle(raw)
		if err != nil {
			c.Failf("c03.harness", "independent reader fails on own encoding: %v", err)
		}
		var it *vk.Item
		var crcType uint64
		if k := cs.Block % (len(w.Blocks) + 1); k == 0 {
			it, crcType = w.Primary.Item, w.Primary.CRCType
		} else {
			it, crcType = w.Blocks[k-1].Item, w.Blocks[k-1].CRCType
		}
		width := 16
		if crcType == 2 {
			width = 32
		}
		blen := cs.Len
		if blen > width {
			blen = 1 + (blen-1)%width
		}
		nbits := (it.End - it.Start) * 8
		if blen > nbits {
			blen = nbits
		}
		start := cs.Start % (nbits - blen + 1)
		// pattern: first and last bit of the burst set, random in between
		mut := append([]byte(nil), raw...)
		flipped := 0
		for i := 0; i < blen; i++ {
			set := i == 0 || i == blen-1 || (cs.Pattern>>uint(i%32))&1 == 1
			if set {
				bit := it.Start*8 + start + i
				mut[bit/8] ^= 1 << uint(7-bit%8)
				flipped++
			}
		}
		c.Classf("crc-width=%d", width)
		// premise: block boundaries intact
		w2, err := vk.ReadBundle(mut)
		intact := err == nil && len(w2.Blocks) == len(w.Blocks) && w2.End == w.End &&
			w2.Primary.Item.Start == w.Primary.Item.Start && w2.Primary.Item.End == w.Primary.Item.End
		if intact {
			for i := range w.Blocks {
				if w2.Blocks[i].Item.Start != w.Blocks[i].Item.Start || w2.Blocks[i].Item.End != w.Blocks[i].Item.End {
					intact = false
				}
			}
		}
		if !intact {
			c.Class("burst moves a block boundary / breaks structure")
			// the statement's premise does not hold, but such a mutant must of course not be
			// accepted when it is not a sound bundle either
			if ok, _ := c03Judge(mut); !ok {
				if _, perr := vfParse(mut); perr == nil {
					c.Failf("c03.flip-accepted", "burst (start bit %d, %d bits) broke the structure, yet the parser accepts", start, blen)
				}
			}
			return
		}
		if ok, _ := c03Judge(mut); ok {
			c.Class("burst judged still valid (skipped)")
			return
		}
		if flipped >= 2 {
			c.NonTrivial()
		}
		if _, perr := vfParse(mut); perr == nil {
			c.Failf("c03.burst-accepted", "burst of %d bits (%d flipped) at bit %d of a block with CRC-%d is accepted", blen, flipped, start, width)
		}
	})
}

// --- accepted only if every declared CRC is right (stale CRCs kept on purpose) ---

func TestVerifC03AcceptOnlyIf(t *testing.T) {
	vfRegisterCustom()
	u := vk.Unit{Property: "C03", Name: "c03.accept-only-if", Quick: 12000, Thorough: 400000,
		Rule: "item-level mutants of valid encodings, half of them with CRCs left stale on purpose; whenever the parser accepts, every block declaring CRC type 1/2 must carry a field equal to the independent CRC and no block may declare an unknown CRC type or contradict its array length; non-trivial = accepted mutant that differs from its seed and has >=1 CRC-carrying block; distinct by mutant bytes"}
	vk.Check(t, u, func(t *rapid.T) mutCase {
		m := genMutCase(t)
		if rapid.Bool().Draw(t, "stale") {
			m.Muts = append(m.Muts, vk.Mutation{Op: "crcstale"})
		}
		return m
	}, func(c *vk.Ctx, m mutCase) {
		seed, mut, stale := m.mutate()
		if mut == nil {
			return
		}
		if stale {
			c.Class("stale CRCs")
		}
		if _, err := vfParse(mut); err != nil {
			c.Class("rejected")
			return
		}
		c.Class("accepted")
		w, err := vk.ReadBundle(mut)
		if err != nil {
			// accepted although the independent reader cannot delimit it: report only if it is about CRC shape
			c.Class("accepted but not delimitable independently")
			return
		}
		ncrc := 0
		if w.Primary.CRCType != 0 {
			ncrc++
		}
		for i := range w.Blocks {
			if w.Blocks[i].CRCType != 0 {
				ncrc++
			}
		}
		if ncrc > 0 && !bytes.Equal(seed, mut) {
			c.NonTrivial(string(mut))
		}
		if p := w.CheckCRCs(); len(p) > 0 {
			c.Failf("c03.accepted-bad-crc", "parser accepts %x… although: %s", vfTrunc(mut), p[0])
		}
	})
}

var _ = time.Now

// --- the serialiser writes the right CRC whatever happened to the bundle (or to the serialiser) before ---

type c03HistOp struct {
	Op  string `json:"op"` // write, failwrite, parse, lifetime, rpt, dst, flag, blockflag, hop, age, crctype, pwrite
	B   int    `json:"b"`
	Arg uint64 `json:"arg"`
}

type c03HistCase struct {
	Specs []vk.BundleSpec `json:"specs"`
	Ops   []c03HistOp     `json:"ops"`
}

type c03FailWriter struct {
	left int
}

func (w *c03FailWriter) Write(p []byte) (int, error) {
	if len(p) > w.left {
		n := w.left
		w.left = 0
		return n, fmt.Errorf("injected write fault")
	}
	w.left -= len(p)
	return len(p), nil
}

func TestVerifC03SerialiserHistories(t *testing.T) {
	vfRegisterCustom()
	u := vk.Unit{Property: "C03", Name: "c03.serialiser-histories", Quick: 1500, Thorough: 60000,
		Rule: "histories over 1..3 bundle objects with a CRC on every block: serialise; serialise into a writer that fails after n bytes; replace the object by the parsed copy of its last encoding (stored CRC fields are then populated); change a field in place (lifetime, report-to, destination, a status-request flag, a block's flags, hop count, bundle age, CRC type 16<->32 through SetCRCType); serialise two objects from two goroutines at once. After EVERY successful serialisation the encoding is decoded independently, must show the changed field values, and every CRC must equal the independent bit-wise CRC. Non-trivial = a serialisation after an in-place change of a parsed/serialised object or after an interrupted write; distinct by case hash"}
	gen := func(t *rapid.T) c03HistCase {
		var cs c03HistCase
		n := rapid.IntRange(1, 3).Draw(t, "n")
		for i := 0; i < n; i++ {
			o := c03Opts
			o.SmallPayload = true
			cs.Specs = append(cs.Specs, vk.GenBundle(o).Draw(t, "bundle"))
		}
		ops := []string{"write", "write", "failwrite", "failwrite", "parse", "lifetime", "rpt", "dst", "flag", "blockflag", "hop", "age", "crctype", "pwrite"}
		cs.Ops = rapid.SliceOfN(rapid.Custom(func(t *rapid.T) c03HistOp {
			return c03HistOp{Op: rapid.SampledFrom(ops).Draw(t, "op"), B: rapid.IntRange(0, n-1).Draw(t, "b"), Arg: rapid.Uint64Range(0, 1<<20).Draw(t, "arg")}
		}), 2, 14).Draw(t, "ops")
		return cs
	}
	vk.Check(t, u, gen, func(c *vk.Ctx, cs c03HistCase) {
		now := vfNowDtn()
		bs := make([]Bundle, len(cs.Specs))
		last := make([][]byte, len(cs.Specs))
		dirty := make([]bool, len(cs.Specs)) // changed in place after having been serialised or parsed
		touched := make([]bool, len(cs.Specs))
		for i := range cs.Specs {
			bs[i] = vfBundle(&cs.Specs[i], now)
		}
		interrupted := false
		var trace []string
		judge := func(i int, raw []byte, how string) {
			w, err := vk.ReadBundle(raw)
			if err != nil {
				c.Failf("c03.write-undecodable", "%s: independent reader: %v\nhistory: %v", how, err, trace)
			}
			if w.Primary.CRCItem == nil {
				c.Failf("c03.write-missing-crc", "%s: primary block carries no CRC\nhistory: %v", how, trace)
			}
			if p := w.CheckCRCs(); len(p) > 0 {
				c.Failf("c03.write-wrong-crc", "%s: serialiser wrote a CRC that the independent implementation does not reproduce: %s\nhistory: %v", how, p[0], trace)
			}
			b := &bs[i]
			if w.Primary.Lifetime != b.PrimaryBlock.Lifetime || w.Primary.Flags != uint64(b.PrimaryBlock.BundleControlFlags) ||
				w.Primary.Rpt.String() != b.PrimaryBlock.ReportTo.String() || w.Primary.Dst.String() != b.PrimaryBlock.Destination.String() {
				c.Failf("c03.write-stale-bytes", "%s: the encoding does not show the object's current primary block fields\nhistory: %v", how, trace)
			}
			if dirty[i] || interrupted {
				c.NonTrivial()
			}
			if dirty[i] {
				c.Class("serialised after an in-place change")
			}
			if interrupted {
				c.Class("serialised after an interrupted write")
			}
			dirty[i] = false
			last[i] = raw
			touched[i] = true
		}
		for k, op := range cs.Ops {
			i := op.B % len(bs)
			b := &bs[i]
			trace = append(trace, fmt.Sprintf("#%d %s(%d,%d)", k, op.Op, i, op.Arg))
			switch op.Op {
			case "write":
				raw, err := vfWrite(b)
				if err != nil {
					c.Failf("c03.write-error", "serialising failed: %v\nhistory: %v", err, trace)
				}
				judge(i, raw, "write")
				interrupted = false
			case "failwrite":
				full, err := vfWrite(b)
				if err != nil {
					c.Failf("c03.write-error", "serialising failed: %v\nhistory: %v", err, trace)
				}
				judge(i, full, "write")
				fw := &c03FailWriter{left: int(op.Arg % uint64(len(full)))}
				if err := b.WriteBundle(fw); err == nil {
					c.Failf("c03.harness", "write into a failing writer succeeded")
				}
				interrupted = true
			case "pwrite":
				j := (i + 1) % len(bs)
				var r1, r2 []byte
				var e1, e2 error
				done := make(chan struct{})
				go func() { r2, e2 = vfWrite(&bs[j]); close(done) }()
				if j != i {
					r1, e1 = vfWrite(b)
				}
				<-done
				if e1 != nil || e2 != nil {
					c.Failf("c03.write-error", "concurrent serialising failed: %v %v\nhistory: %v", e1, e2, trace)
				}
				if j != i {
					judge(i, r1, "concurrent write")
				}
				judge(j, r2, "concurrent write")
				interrupted = false
			case "parse":
				if last[i] == nil {
					continue
				}
				p, err := vfParse(last[i])
				if err != nil {
					continue // e.g. expired meanwhile; not this property
				}
				bs[i] = p
				touched[i] = true
			case "lifetime":
				b.PrimaryBlock.Lifetime += 1000 + op.Arg
				dirty[i] = touched[i]
			case "rpt":
				if b.PrimaryBlock.BundleControlFlags.Has(AdministrativeRecordPayload) {
					continue
				}
				b.PrimaryBlock.ReportTo = MustNewEndpointID(fmt.Sprintf("dtn://rpt%d/x", op.Arg%1000))
				dirty[i] = touched[i]
			case "dst":
				b.PrimaryBlock.Destination = MustNewEndpointID(fmt.Sprintf("dtn://dst%d/y", op.Arg%1000))
				dirty[i] = touched[i]
			case "flag":
				if b.PrimaryBlock.BundleControlFlags.Has(AdministrativeRecordPayload) || b.PrimaryBlock.SourceNode == DtnNone() {
					continue
				}
				b.PrimaryBlock.BundleControlFlags ^= StatusRequestDelivery
				dirty[i] = touched[i]
			case "blockflag":
				cb := &b.CanonicalBlocks[int(op.Arg)%len(b.CanonicalBlocks)]
				if cb.TypeCode() == ExtBlockTypePayloadBlock {
					continue
				}
				cb.BlockControlFlags ^= ReplicateBlock
				dirty[i] = touched[i]
			case "hop":
				if cb, err := b.ExtensionBlock(ExtBlockTypeHopCountBlock); err == nil {
					hc := cb.Value.(*HopCountBlock)
					if hc.Count < hc.Limit {
						hc.Count++
						dirty[i] = touched[i]
					}
				}
			case "age":
				if cb, err := b.ExtensionBlock(ExtBlockTypeBundleAgeBlock); err == nil {
					ab := cb.Value.(*BundleAgeBlock)
					*ab = BundleAgeBlock(uint64(*ab) + 1 + op.Arg%100000)
					dirty[i] = touched[i]
				}
			case "crctype":
				nt := CRC16
				if b.PrimaryBlock.CRCType == CRC16 {
					nt = CRC32
				}
				b.SetCRCType(nt)
				dirty[i] = touched[i]
			}
			if err := b.CheckValid(); err != nil && op.Op != "parse" {
				// the change made the bundle invalid (e.g. lifetime overflow): not a case for this property
				c.Note("history left the valid domain: " + err.Error())
				return
			}
		}
		// final serialisation of everything
		for i := range bs {
			trace = append(trace, fmt.Sprintf("final write(%d)", i))
			raw, err := vfWrite(&bs[i])
			if err != nil {
				c.Failf("c03.write-error", "serialising failed: %v\nhistory: %v", err, trace)
			}
			judge(i, raw, "final write")
			interrupted = false
		}
	})
}

// --- every way of writing the same block with wider CBOR heads, the CRC bytes left as they were ---

type c03WidthCase struct {
	Spec vk.BundleSpec `json:"spec"`
}

func c03WalkItems(it *vk.Item, f func(*vk.Item)) {
	f(it)
	for _, s := range it.Items {
		c03WalkItems(s, f)
	}
}

// c03WrongCRCs returns copies of raw in which every block's CRC value is replaced by a value computed
// in one particular wrong way (the same way for all blocks of one copy).
func c03WrongCRCs(raw []byte) [][]byte {
	w, err := vk.ReadBundle(raw)
	if err != nil {
		return nil
	}
	type blk struct {
		start, end int
		typ        uint64
		crc        *vk.Item
	}
	var blks []blk
	blks = append(blks, blk{w.Primary.Item.Start, w.Primary.Item.End, w.Primary.CRCType, w.Primary.CRCItem})
	for i := range w.Blocks {
		blks = append(blks, blk{w.Blocks[i].Item.Start, w.Blocks[i].Item.End, w.Blocks[i].CRCType, w.Blocks[i].CRCItem})
	}
	var out [][]byte
	for mode := 0; mode < 3; mode++ {
		cp := append([]byte(nil), raw...)
		for _, b := range blks {
			n := 0
			switch {
			case b.typ == 1 && b.crc != nil && len(b.crc.Bytes) == 2:
				n = 2
			case b.typ == 2 && b.crc != nil && len(b.crc.Bytes) == 4:
				n = 4
			}
			if n == 0 || b.crc.End != b.end {
				continue
			}
			var data []byte
			switch mode {
			case 0: // the last 1+n bytes of the block are assumed to be the canonical CRC field
				data = append([]byte(nil), raw[b.start:b.end-(1+n)]...)
				data = append(data, byte(0x40+n))
				data = append(data, make([]byte, n)...)
			case 1: // the CRC field is left out altogether
				data = append([]byte(nil), raw[b.start:b.crc.Start]...)
			case 2: // the block up to the CRC value, nothing for the value
				data = append([]byte(nil), raw[b.start:b.end-n]...)
			}
			if n == 2 {
				v := vk.CRC16X25(data)
				cp[b.end-2], cp[b.end-1] = byte(v>>8), byte(v)
			} else {
				v := vk.CRC32C(data)
				cp[b.end-4], cp[b.end-3], cp[b.end-2], cp[b.end-1] = byte(v>>24), byte(v>>16), byte(v>>8), byte(v)
			}
		}
		out = append(out, cp)
	}
	return out
}

func TestVerifC03HeadWidths(t *testing.T) {
	vfRegisterCustom()
	u := vk.Unit{Property: "C03", Name: "c03.head-widths", Quick: 120, Thorough: 6000,
		Rule: "for each generated fully CRC-protected bundle: EVERY CBOR head inside every block (array heads, integers, string lengths, and the length head of the CRC field itself) is re-written in every wider form (1-, 2-, 4-, 8-byte argument), one at a time (exhaustive per bundle), with the CRC bytes left as they were, with the CRC re-computed independently over the new bytes, and with CRC values computed in three plausible wrong ways (block tail taken for a canonical CRC field, CRC field left out, value bytes dropped); oracle: whenever the parser accepts, every CRC equals the independent CRC over exactly the received bytes; non-trivial = the re-written head is the CRC field's own length head or the block's array head; distinct by mutant bytes"}
	vk.Check(t, u, func(t *rapid.T) c03WidthCase {
		o := c03Opts
		o.SmallPayload = true
		o.MaxExt = 3
		return c03WidthCase{Spec: vk.GenBundle(o).Draw(t, "bundle")}
	}, func(c *vk.Ctx, cs c03WidthCase) {
		raw := cs.Spec.Encode(vfNowDtn())
		top, err := vk.DecodeItem(raw, 0)
		if err != nil || top.End != len(raw) {
			c.Failf("c03.harness", "own encoding does not decode: %v", err)
		}
		// count the heads
		n := 0
		c03WalkItems(top, func(it *vk.Item) { n++ })
		checked, accepted := 0, 0
		for idx := 1; idx < n; idx++ { // 0 is the outer indefinite array
			for _, hn := range []int{2, 3, 5, 9} {
				t2 := vk.CloneItem(top)
				k := 0
				var target *vk.Item
				c03WalkItems(t2, func(it *vk.Item) {
					if k == idx {
						target = it
					}
					k++
				})
				if target == nil || target.Indef || target.Major == vk.MajOther || target.HeadN >= hn {
					continue
				}
				target.HeadN = hn
				var e vk.Enc
				vk.EncodeItem(t2, &e)
				stale := e.B
				variants := [][]byte{stale, vk.FixCRCs(stale)}
				names := []string{"original", "re-computed"}
				// CRC values a parser would expect if it delimited or normalised the block in a plausible
				// WRONG way (each must be rejected, because it is not the CRC over the received bytes):
				// the tail of the block taken to be a canonical, minimally encoded CRC field; the CRC
				// field left out; the CRC value bytes not zeroed
				for wi, wrong := range c03WrongCRCs(stale) {
					variants = append(variants, wrong)
					names = append(names, fmt.Sprintf("wrongly computed (%d)", wi))
				}
				for variant, mut := range variants {
					if mut == nil || bytes.Equal(mut, raw) {
						continue
					}
					checked++
					if _, err := vfParse(mut); err != nil {
						continue
					}
					accepted++
					w, err := vk.ReadBundle(mut)
					if err != nil {
						continue
					}
					if p := w.CheckCRCs(); len(p) > 0 {
						c.Failf("c03.accepted-bad-crc", "head %d re-written with a %d-byte head (%s CRC bytes): parser accepts %x… although: %s", idx, hn, names[variant], vfTrunc(mut), p[0])
					}
				}
			}
		}
		if checked > 0 {
			c.NonTrivial()
		}
		c.Classf("accepted re-writings: %v", accepted > 0)
	})
}
