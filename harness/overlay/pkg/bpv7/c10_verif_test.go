package bpv7

import (
	"bytes"
	"fmt"
	"testing"

	vk "github.com/dtn7/dtn7-go/pkg/verifkit"
	"pgregory.net/rapid"
)

// C10 — reassembly accepts any covering set of fragments and nothing else.

type c10Case struct {
	Spec   vk.BundleSpec `json:"spec"`
	MTUs   []int         `json:"mtus"`   // extra bytes above the minimal usable MTU, per fragmentation (<=3)
	Second []int         `json:"second"` // indices (mod pool) of first-level fragments that are fragmented again
	SecMTU int           `json:"secmtu"`
	Pick   []int         `json:"pick"` // indices (mod pool) forming the multiset handed to reassembly, in this order
}

type c10Frag struct {
	B     Bundle
	Off   uint64
	Len   uint64
	Level int
	Src   string
}

// c10Pool builds the pool of fragments. It returns nil if the bundle cannot be fragmented.
func c10Pool(c *vk.Ctx, orig Bundle, payload []byte, cs *c10Case) []c10Frag {
	var pool []c10Frag
	enc, _ := vfWrite(&orig)
	base := len(enc) - len(payload)
	add := func(f Bundle, level int, src string) {
		p, err := f.PayloadBlock()
		if err != nil {
			c.Failf("c10.harness", "fragment without payload block")
		}
		pool = append(pool, c10Frag{B: f, Off: f.PrimaryBlock.FragmentOffset, Len: uint64(len(p.Value.(*PayloadBlock).Data())), Level: level, Src: src})
	}
	m0 := c10MinMTU(orig, base)
	if m0 == 0 {
		return nil
	}
	for k, extra := range cs.MTUs {
		mtu := m0 + extra - 1
		frags, err := orig.Fragment(mtu)
		if err != nil || len(frags) < 2 {
			continue
		}
		for i := range frags {
			add(frags[i], 1, fmt.Sprintf("F%d(mtu=%d)[%d]", k, mtu, i))
		}
	}
	n1 := len(pool)
	if n1 == 0 {
		return nil
	}
	for _, idx := range cs.Second {
		parent := pool[idx%n1]
		pe, err := vfWrite(&parent.B)
		if err != nil {
			continue
		}
		pm0 := c10MinMTU(parent.B, len(pe)-int(parent.Len))
		if pm0 == 0 {
			continue
		}
		mtu := pm0 + cs.SecMTU - 1
		sub, err := parent.B.Fragment(mtu)
		if err != nil || len(sub) < 2 {
			continue
		}
		total := uint64(len(payload))
		for i := range sub {
			sp := &sub[i].PrimaryBlock
			pl, _ := sub[i].PayloadBlock()
			data := pl.Value.(*PayloadBlock).Data()
			// fragments of a fragment keep offsets relative to the original payload and the original total
			if sp.TotalDataLength != total {
				c.Failf("c10.second-level-total", "fragment of the fragment at offset %d announces total length %d, original payload has %d bytes", parent.Off, sp.TotalDataLength, total)
			}
			if sp.FragmentOffset < parent.Off || sp.FragmentOffset+uint64(len(data)) > parent.Off+parent.Len ||
				!bytes.Equal(data, payload[sp.FragmentOffset:sp.FragmentOffset+uint64(len(data))]) {
				c.Failf("c10.second-level-offset", "fragment %d of the fragment [%d,%d) has offset %d and %d bytes, which is not that part of the original payload", i, parent.Off, parent.Off+parent.Len, sp.FragmentOffset, len(data))
			}
			add(sub[i], 2, fmt.Sprintf("%s/sub[%d]", parent.Src, i))
		}
	}
	return pool
}

// c10MinMTU searches the smallest MTU for which Fragment succeeds (one payload byte per
// fragment); 0 if none is found nearby.
func c10MinMTU(b Bundle, base int) int {
	// One fragmentation just below the bundle's size yields two fragments; the first one's
	// payload length tells the per-fragment overhead the package assumes for that MTU.
	enc, err := vfWrite(&b)
	if err != nil {
		return 0
	}
	m := len(enc) - 1
	fr, err := b.Fragment(m)
	if err != nil || len(fr) < 2 {
		return 0
	}
	p, err := fr[0].PayloadBlock()
	if err != nil {
		return 0
	}
	c1 := len(p.Value.(*PayloadBlock).Data())
	return m - c1 + 2 // overhead + 1 would carry one byte; +1 slack for a narrower length header
}

// covers computes independently whether the intervals cover [0,total).
func c10Covers(fr []c10Frag, total uint64) bool {
	if total == 0 {
		return len(fr) > 0
	}
	covered := make([]bool, total)
	for _, f := range fr {
		for i := f.Off; i < f.Off+f.Len && i < total; i++ {
			covered[i] = true
		}
	}
	for _, v := range covered {
		if !v {
			return false
		}
	}
	return true
}

func c10Body(c *vk.Ctx, cs c10Case) {
	b := vfBundle(&cs.Spec, vfNowDtn())
	enc, err := vfWrite(&b)
	if err != nil {
		c.Failf("c10.harness", "serialise: %v", err)
	}
	orig, err := vfParse(enc)
	if err != nil {
		c.Failf("c10.harness", "parse: %v", err)
	}
	payload := cs.Spec.PayloadSpec().Payload()
	pool := c10Pool(c, orig, payload, &cs)
	if len(pool) == 0 || len(cs.Pick) == 0 {
		c.Class("no pool")
		return
	}
	var sel []c10Frag
	seen := map[string]int{}
	overlap, dup, second := false, false, false
	for _, p := range cs.Pick {
		f := pool[p%len(pool)]
		for _, g := range sel {
			if f.Off < g.Off+g.Len && g.Off < f.Off+f.Len && !(f.Off == g.Off && f.Len == g.Len) {
				overlap = true
			}
		}
		key := fmt.Sprintf("%d/%d", f.Off, f.Len)
		seen[key]++
		if seen[key] > 1 {
			dup = true
		}
		if f.Level == 2 {
			second = true
		}
		sel = append(sel, f)
	}
	covering := c10Covers(sel, uint64(len(payload)))
	if overlap {
		c.Class("overlap")
	}
	if dup {
		c.Class("duplicate")
	}
	if second {
		c.Class("second-level fragment")
	}
	if covering {
		c.Class("covering")
	} else {
		c.Class("not covering")
	}
	if overlap || dup || second {
		c.NonTrivial()
	}
	describe := func() string {
		s := ""
		for _, f := range sel {
			s += fmt.Sprintf("[%d,%d) ", f.Off, f.Off+f.Len)
		}
		return s
	}
	mk := func() []Bundle {
		in := make([]Bundle, len(sel))
		for i := range sel {
			in[i] = sel[i].B
		}
		return in
	}
	can := IsBundleReassemblable(mk())
	r, rerr := ReassembleFragments(mk())
	if covering {
		if !can {
			c.Failf("c10.covering-refused", "IsBundleReassemblable is false although the fragments %scover [0,%d)", describe(), len(payload))
		}
		if rerr != nil {
			c.Failf("c10.covering-refused", "ReassembleFragments fails although the fragments %scover [0,%d): %v", describe(), len(payload), rerr)
		}
		rp, err := r.PayloadBlock()
		if err != nil {
			c.Failf("c10.wrong-data", "reassembled bundle has no payload")
		}
		if got := rp.Value.(*PayloadBlock).Data(); !bytes.Equal(got, payload) {
			c.Failf("c10.wrong-data", "reassembled payload differs from the original (len %d vs %d, first difference at %d) for fragments %s", len(got), len(payload), firstDiff(got, payload), describe())
		}
		if d := vfPrimaryEq(&orig.PrimaryBlock, &r.PrimaryBlock); d != "" {
			c.Failf("c10.wrong-data", "reassembled primary block differs: %s", d)
		}
		if r.PrimaryBlock.HasFragmentation() {
			c.Failf("c10.wrong-data", "reassembled bundle is still marked as fragment")
		}
		// blocks: same set (type, flags, crc type, content)
		if len(r.CanonicalBlocks) != len(orig.CanonicalBlocks) {
			c.Failf("c10.wrong-blocks", "reassembled bundle has %d blocks, original %d", len(r.CanonicalBlocks), len(orig.CanonicalBlocks))
		}
		for i := range orig.CanonicalBlocks {
			ob := &orig.CanonicalBlocks[i]
			found := false
			for j := range r.CanonicalBlocks {
				rb := &r.CanonicalBlocks[j]
				if rb.TypeCode() != ob.TypeCode() {
					continue
				}
				od, _ := vfBlockData(ob)
				rd, _ := vfBlockData(rb)
				if rb.BlockControlFlags == ob.BlockControlFlags && rb.CRCType == ob.CRCType && bytes.Equal(od, rd) {
					found = true
				}
			}
			if !found {
				c.Failf("c10.wrong-blocks", "block of type %d is missing or changed after reassembly", ob.TypeCode())
			}
		}
	} else {
		if can {
			c.Failf("c10.incomplete-accepted", "IsBundleReassemblable is true although the fragments %sdo not cover [0,%d)", describe(), len(payload))
		}
		if rerr == nil {
			c.Failf("c10.incomplete-accepted", "ReassembleFragments returns a bundle although the fragments %sdo not cover [0,%d)", describe(), len(payload))
		}
	}
}

func genC10(t *rapid.T) c10Case {
	o := vk.GenOpts{NoFragment: true, NoNoFragment: true, NoMultiMap: true, PrimaryCRC: true, MaxExt: 3, MaxPayload: 8192}
	s := vk.GenBundle(o).Draw(t, "bundle")
	for i := range s.Blocks {
		if s.Blocks[i].Type == vk.BTAge {
			s.Blocks[i].Flags |= vk.BFReplicate
		}
	}
	p := s.PayloadSpec()
	// a bundle can only be fragmented if its payload is larger than the extra overhead of a
	// fragment (about 20..60 bytes), so tiny payloads are pointless here
	switch k := rapid.IntRange(0, 19).Draw(t, "payk"); {
	case k == 0:
		p.PayLen = rapid.IntRange(300, 2500).Draw(t, "paylen")
	case k < 10:
		p.PayLen = rapid.IntRange(40, 90).Draw(t, "paylen")
	default:
		p.PayLen = rapid.IntRange(60, 300).Draw(t, "paylen")
	}
	// payload bytes per fragment (beyond the minimal MTU): a few large pieces up to many small ones
	chunk := rapid.Custom(func(t *rapid.T) int {
		div := rapid.IntRange(2, 9).Draw(t, "div")
		c := p.PayLen/div + rapid.IntRange(-3, 3).Draw(t, "jitter")
		if c < 1 {
			c = 1
		}
		return c
	})
	return c10Case{
		Spec:   s,
		MTUs:   rapid.SliceOfN(chunk, 1, 3).Draw(t, "mtus"),
		Second: rapid.SliceOfN(rapid.IntRange(0, 50), 0, 2).Draw(t, "second"),
		SecMTU: rapid.IntRange(1, 10).Draw(t, "secmtu"),
		Pick:   rapid.SliceOfN(rapid.IntRange(0, 200), 1, 14).Draw(t, "pick"),
	}
}

func TestVerifC10Random(t *testing.T) {
	vfRegisterCustom()
	u := vk.Unit{Property: "C10", Name: "c10.random", Quick: 8000, Thorough: 1500000,
		Rule: "base bundle (payload 2..64 mostly, up to 8 KiB) fragmented up to three times with different limits, some fragments fragmented again; a multiset of 1..12 pool elements (duplicates allowed) in generated order is handed to IsBundleReassemblable and ReassembleFragments; oracle: independent interval-union coverage of [0,total): covering <=> success with original payload and blocks, not covering => error; second-level fragments must keep original-relative offsets and total; non-trivial = the multiset contains an overlap, a duplicate or a second-level fragment; distinct by case hash"}
	vk.Check(t, u, genC10, c10Body)
}

// exhaustive: small payloads, all subsets and all orders of small pools
type c10SmallCase struct {
	PayLen int   `json:"paylen"`
	MTUa   int   `json:"mtua"`
	MTUb   int   `json:"mtub"`
	Order  []int `json:"order"` // indices into the pool (subset in a specific order)
}

type c10SmallKey struct{ pay, a, b int }

type c10SmallVal struct {
	orig    Bundle
	payload []byte
	pool    []c10Frag
}

var c10SmallCache = map[c10SmallKey]c10SmallVal{}

func c10SmallPool(c *vk.Ctx, cs *c10SmallCase) (Bundle, []byte, []c10Frag) {
	key := c10SmallKey{cs.PayLen, cs.MTUa, cs.MTUb}
	if v, ok := c10SmallCache[key]; ok {
		return v.orig, v.payload, v.pool
	}
	o, p, pl := c10SmallPoolBuild(c, cs)
	c10SmallCache[key] = c10SmallVal{o, p, pl}
	return o, p, pl
}

func c10SmallPoolBuild(c *vk.Ctx, cs *c10SmallCase) (Bundle, []byte, []c10Frag) {
	s := vk.BundleSpec{Flags: 0, CRC: 2, Dst: vk.EIDSpec{Kind: "dtn", Node: "d", Demux: ""}, Src: vk.EIDSpec{Kind: "dtn", Node: "s", Demux: "a"},
		Rpt: vk.EIDSpec{Kind: "none"}, TsAgoMs: 1000, TsSeq: 3, Lifetime: 3600000,
		Blocks: []vk.BlockSpec{{Type: vk.BTHop, Num: 5, Flags: vk.BFReplicate, CRC: 1, Limit: 9, Count: 2}, {Type: 77, Num: 3, Flags: 0, CRC: 0, Data: []byte{1, 2, 3}},
			{Type: vk.BTPayload, Num: 1, CRC: 2, PayLen: cs.PayLen, PaySeed: 5}}}
	b := vfBundle(&s, vfNowDtn())
	enc, _ := vfWrite(&b)
	orig, err := vfParse(enc)
	if err != nil {
		c.Failf("c10.harness", "parse: %v", err)
	}
	payload := s.PayloadSpec().Payload()
	cc := c10Case{MTUs: []int{cs.MTUa, cs.MTUb}}
	return orig, payload, c10Pool(c, orig, payload, &cc)
}

func TestVerifC10Small(t *testing.T) {
	vfRegisterCustom()
	maxPay := 10
	if vk.Tier() == "thorough" {
		maxPay = 40
	}
	u := vk.Unit{Property: "C10", Name: "c10.small",
		Rule: "payload lengths 48..48+N (quick N=10, thorough N=40) x two fragmentations with different limits; for pools of <= 6 fragments EVERY non-empty subset in EVERY order (bounded to 7! orders) is reassembled, for larger pools every subset in 2 orders; oracle as c10.random; non-trivial = subset with an overlap; distinct by (payload, limits, order)"}
	vk.Enumerate(t, u, true, func(yield func(c10SmallCase) bool) {
		i := 0
		for pay := 48; pay <= 48+maxPay; pay++ {
			for _, mt := range [][2]int{{pay / 2, pay / 3}, {pay / 3, pay/3 + 1}, {pay/2 + 1, pay / 4}, {pay / 5, pay / 2}} {
				i++
				if !vk.ShardOwns(i) {
					continue
				}
				probe := c10SmallCase{PayLen: pay, MTUa: mt[0], MTUb: mt[1]}
				_, _, pool := c10SmallPool(&vk.Ctx{}, &probe)
				n := len(pool)
				if n == 0 || n > 12 {
					continue
				}
				for mask := 1; mask < 1<<uint(n); mask++ {
					var idx []int
					for k := 0; k < n; k++ {
						if mask&(1<<uint(k)) != 0 {
							idx = append(idx, k)
						}
					}
					var orders [][]int
					if n <= 6 && len(idx) <= 5 {
						orders = allPerms(len(idx))
					} else {
						id := make([]int, len(idx))
						rev := make([]int, len(idx))
						for k := range id {
							id[k], rev[k] = k, len(idx)-1-k
						}
						orders = [][]int{id, rev}
					}
					for _, ord := range orders {
						o := make([]int, len(idx))
						for k, j := range ord {
							o[k] = idx[j]
						}
						if !yield(c10SmallCase{PayLen: pay, MTUa: mt[0], MTUb: mt[1], Order: o}) {
							return
						}
					}
				}
			}
		}
	}, func(c *vk.Ctx, cs c10SmallCase) {
		orig, payload, pool := c10SmallPool(c, &cs)
		if len(pool) == 0 {
			return
		}
		var sel []c10Frag
		overlap := false
		for _, k := range cs.Order {
			f := pool[k%len(pool)]
			for _, g := range sel {
				if f.Off < g.Off+g.Len && g.Off < f.Off+f.Len {
					overlap = true
				}
			}
			sel = append(sel, f)
		}
		if overlap {
			c.NonTrivial()
			c.Class("overlap")
		}
		covering := c10Covers(sel, uint64(len(payload)))
		in := make([]Bundle, len(sel))
		for i := range sel {
			in[i] = sel[i].B
		}
		in2 := append([]Bundle(nil), in...)
		can := IsBundleReassemblable(in2)
		r, rerr := ReassembleFragments(in)
		desc := ""
		for _, f := range sel {
			desc += fmt.Sprintf("[%d,%d) ", f.Off, f.Off+f.Len)
		}
		if covering {
			c.Class("covering")
			if !can || rerr != nil {
				c.Failf("c10.covering-refused", "fragments %scover [0,%d) but reassembly is refused (reassemblable=%v, err=%v)", desc, len(payload), can, rerr)
			}
			rp, err := r.PayloadBlock()
			if err != nil || !bytes.Equal(rp.Value.(*PayloadBlock).Data(), payload) {
				c.Failf("c10.wrong-data", "reassembled payload differs from the original for fragments %s", desc)
			}
			re, _ := vfWrite(&r)
			oe, _ := vfWrite(&orig)
			if !bytes.Equal(re, oe) {
				c.Failf("c10.wrong-blocks", "reassembled bundle does not serialise like the original for fragments %s", desc)
			}
		} else {
			c.Class("not covering")
			if can || rerr == nil {
				c.Failf("c10.incomplete-accepted", "fragments %sdo not cover [0,%d) but reassembly succeeds", desc, len(payload))
			}
		}
	})
}
