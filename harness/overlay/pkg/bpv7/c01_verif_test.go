package bpv7

import (
	"bytes"
	"fmt"
	"io"
	"testing"

	vk "github.com/dtn7/dtn7-go/pkg/verifkit"
	"pgregory.net/rapid"
)

// C01 — bundle wire codec is lossless, deterministic and idempotent.

type c01Case struct {
	Registered bool          `json:"registered"` // custom block types registered?
	Spec       vk.BundleSpec `json:"spec"`
	// what the codec did right before, in the same process: 0 nothing; 1 a serialisation that failed inside a block
	// (a routing block holding an endpoint that cannot be encoded); 2 a serialisation into a writer that fails after
	// After/4 bytes; 3 a parse of a truncated encoding
	After int `json:"after,omitempty"`
}

// c01Before lets the codec fail once, the way it fails in a running node, before the case proper.
func c01Before(c *vk.Ctx, cs *c01Case, now uint64) {
	switch cs.After % 4 {
	case 1:
		for _, blk := range []ExtensionBlock{NewProphetBlock(map[EndpointID]float64{{}: 0.5, MustNewEndpointID("dtn://x/"): 0.25}),
			NewDTLSRBlock(DTLSRPeerData{ID: MustNewEndpointID("dtn://x/"), Timestamp: DtnTimeNow(), Peers: map[EndpointID]DtnTime{{}: 7}})} {
			bad, err := Builder().CRC(CRC32).Source("dtn://x/").Destination("dtn://y/").CreationTimestampNow().Lifetime("1h").
				HopCountBlock(9).Canonical(blk).PayloadBlock([]byte("c01")).Build()
			if err != nil {
				continue
			}
			if err := bad.WriteBundle(io.Discard); err != nil {
				c.Class("after a serialisation that failed inside a block")
			}
		}
	case 2:
		b := vfBundle(&cs.Spec, now)
		if full, err := vfWrite(&b); err == nil && len(full) > 0 {
			fw := &vfFailWriter{left: (cs.After / 4) % len(full)}
			if err := b.WriteBundle(fw); err != nil {
				c.Class("after a serialisation into a failing writer")
			}
		}
	case 3:
		b := vfBundle(&cs.Spec, now)
		if full, err := vfWrite(&b); err == nil && len(full) > 1 {
			if _, err := vfParse(full[:1+(cs.After/4)%(len(full)-1)]); err != nil {
				c.Class("after a parse that failed")
			}
		}
	}
}

// vfFailWriter accepts `left` bytes and fails then.
type vfFailWriter struct{ left int }

func (w *vfFailWriter) Write(p []byte) (int, error) {
	if len(p) > w.left {
		n := w.left
		w.left = 0
		return n, io.ErrClosedPipe
	}
	w.left -= len(p)
	return len(p), nil
}

func firstDiff(a, b []byte) int {
	n := len(a)
	if len(b) < n {
		n = len(b)
	}
	for i := 0; i < n; i++ {
		if a[i] != b[i] {
			return i
		}
	}
	return n
}

func c01Classes(c *vk.Ctx, s *vk.BundleSpec) {
	p := s.PayloadSpec()
	switch {
	case p.PayLen == 0:
		c.Class("payload=0")
	case p.PayLen < 24:
		c.Class("payload<24")
	case p.PayLen < 256:
		c.Class("payload<256")
	case p.PayLen < 65536:
		c.Class("payload<64Ki")
	case p.PayLen < 1<<20:
		c.Class("payload<1Mi")
	default:
		c.Class("payload>1Mi")
	}
	if s.IsFragment() {
		c.Class("fragment")
	}
	if s.TsZero {
		c.Class("zero-creation-time")
	}
	if s.Src.Kind == "none" {
		c.Class("src=dtn:none")
	}
	if s.Src.Kind == "ipn" || s.Dst.Kind == "ipn" {
		c.Class("ipn endpoint")
	}
	c.Classf("primary-crc=%d", s.CRC)
	c.Classf("ext-blocks=%d", len(s.Blocks)-1)
	for i := range s.Blocks {
		c.Classf("blocktype=%d", func() uint64 {
			t := s.Blocks[i].Type
			switch t {
			case 1, 6, 7, 10, 192, 193, 194, 195:
				return t
			}
			return 0 // unknown types pooled
		}())
	}
	if vfHasMultiMap(s) {
		c.Class("multi-entry map block")
	}
}

// c01ValidBody is oracle O1 for one valid bundle description.
func c01ValidBody(c *vk.Ctx, cs c01Case) {
	s := &cs.Spec
	now := vfNowDtn()
	c01Classes(c, s)
	if len(s.Blocks) > 1 || s.PayloadSpec().PayLen >= 24 {
		c.NonTrivial()
	}
	c01Before(c, &cs, now)
	b := vfBundle(s, now)
	bytes1, err := vfWrite(&b)
	if err != nil {
		c.Failf("c01.write-error", "serialising a valid bundle failed: %v", err)
	}
	// (d) independent encoder must agree byte for byte (map entry order taken from the output)
	s2, err := vfReorderMaps(s, bytes1)
	if err != nil {
		c.Failf("c01.encoder-differs", "independent reader cannot match the output: %v", err)
	}
	exp := s2.Encode(now)
	if !bytes.Equal(exp, bytes1) {
		d := firstDiff(exp, bytes1)
		c.Failf("c01.encoder-differs", "encoding differs from the independent encoder at offset %d: got …%x want …%x (len %d vs %d)",
			d, vfTrunc(bytes1[d:]), vfTrunc(exp[d:]), len(bytes1), len(exp))
	}
	// (a) parse
	b2, err := vfParse(bytes1)
	if err != nil {
		c.Failf("c01.valid-rejected", "parser rejects the serialisation of a valid bundle: %v", err)
	}
	// (a') the same bytes through readers that return short reads
	if !vfHasMultiMap(s) {
		if why := vfReaderIndependent(bytes1, true, bytes1); why != "" {
			c.Failf("c01.reader-dependent", "%s", why)
		}
	} else if why := vfReaderIndependent(bytes1, true, nil); why != "" {
		c.Failf("c01.reader-dependent", "%s", why)
	}
	// (b) field-wise equality
	if d := vfPrimaryEq(&b.PrimaryBlock, &b2.PrimaryBlock); d != "" {
		c.Failf("c01.roundtrip-field", "primary block field differs after round trip: %s", d)
	}
	if d := vfBlocksEq(&b, &b2); d != "" {
		c.Failf("c01.roundtrip-field", "canonical blocks differ after round trip: %s", d)
	}
	// (c) re-serialisation
	bytes2, err := vfWrite(&b2)
	if err != nil {
		c.Failf("c01.write-error", "re-serialising the parsed bundle failed: %v", err)
	}
	if !vfHasMultiMap(s) {
		if !bytes.Equal(bytes1, bytes2) {
			d := firstDiff(bytes1, bytes2)
			c.Failf("c01.reserialise-differs", "second serialisation differs at offset %d", d)
		}
	} else if ok, why := vfSameWire(bytes1, bytes2); !ok {
		c.Failf("c01.reserialise-differs", "second serialisation differs: %s", why)
	}
}

func TestVerifC01Valid(t *testing.T) {
	vfRegisterCustom()
	u := vk.Unit{Property: "C01", Name: "c01.valid", Quick: 4000, Thorough: 240000,
		Rule: "valid bundle descriptions drawn by the structured generator (all endpoint forms, admissible flag combinations, CRC none/16/32 per block, fragments, 0..7 extension blocks of all registered + unknown types, payload classes up to >2 MiB); oracle: independent encoder byte-equality, parse (also through readers that return short reads: one byte at a time and two cyclic patterns of 1..9 bytes, same verdict and same bundle), field equality, byte-identical re-serialisation; in half of the cases the codec has just failed in the same process (a serialisation that failed inside a routing block holding an unencodable endpoint, a serialisation into a writer that breaks after n bytes, a parse of a truncated encoding): the outcome may not depend on it; non-trivial = >=1 extension block or payload >= 24 bytes; distinct by case hash"}
	vk.Check(t, u, func(t *rapid.T) c01Case {
		cs := c01Case{Registered: true, Spec: vk.GenBundle(vk.GenOpts{MaxPayload: 3 << 20}).Draw(t, "bundle")}
		if rapid.Bool().Draw(t, "history") {
			cs.After = rapid.IntRange(1, 1<<20).Draw(t, "after")
		}
		return cs
	}, c01ValidBody)
}

// ---- accepted byte strings ----

// vfAcceptedOracle is oracle O2: x was accepted by the parser as b.
// vfNearExpiry tells whether the accepted encoding expires within 5 s: the parser reads its
// own clock, so a second parse a moment later may legitimately reject it.
func vfNearExpiry(x []byte) bool {
	w, err := vk.ReadBundle(x)
	if err != nil {
		return false
	}
	res := vk.ValidateRules(w, vfNowDtn(), 5000)
	for _, u := range res.Undecidable {
		if u == vk.RExpired {
			return true
		}
	}
	return res.Has(vk.RExpired)
}

func vfAcceptedOracle(c *vk.Ctx, x []byte, b Bundle) {
	if vfNearExpiry(x) {
		c.Class("accepted input expires within 5 s (not judged: depends on the clock)")
		return
	}
	id := b.ID().String()
	y, err := vfWrite(&b)
	if err != nil {
		c.Failf("c01.accepted-not-reserialisable", "accepted input cannot be re-serialised: %v (input %x)", err, vfTrunc(x))
	}
	b2, err := vfParse(y)
	if err != nil {
		c.Failf("c01.reserialised-rejected", "re-serialisation of an accepted input is rejected: %v", err)
	}
	if id2 := b2.ID().String(); id2 != id {
		c.Failf("c01.id-changed", "bundle ID changed from %q to %q", id, id2)
	}
	if d := vfPrimaryEq(&b.PrimaryBlock, &b2.PrimaryBlock); d != "" {
		c.Failf("c01.blocks-changed", "primary block changed: %s", d)
	}
	if d := vfBlocksEq(&b, &b2); d != "" {
		c.Failf("c01.blocks-changed", "blocks changed: %s", d)
	}
	wy, err := vk.ReadBundle(y)
	if err != nil {
		c.Failf("c01.reserialised-rejected", "re-serialisation is not decodable independently: %v", err)
	}
	if n := len(wy.Blocks); n == 0 || wy.Blocks[n-1].Type != vk.BTPayload {
		c.Failf("c01.payload-not-last", "payload block is not last in the re-serialisation")
	}
	z, err := vfWrite(&b2)
	if err != nil {
		c.Failf("c01.accepted-not-reserialisable", "second re-serialisation failed: %v", err)
	}
	if ok, why := vfSameWire(y, z); !ok {
		c.Failf("c01.not-fixed-point", "serialise(parse(y)) != y: %s", why)
	}
}

type mutCase struct {
	Spec vk.BundleSpec `json:"spec"`
	Muts []vk.Mutation `json:"muts"`
	Raw  []byte        `json:"raw,omitempty"` // set for replay independence of time
}

func genMutCase(t *rapid.T) mutCase {
	return mutCase{
		Spec: vk.GenBundle(vk.GenOpts{SmallPayload: true}).Draw(t, "bundle"),
		Muts: vk.GenMutations(4).Draw(t, "muts"),
	}
}

// mutate returns the mutated encoding of the case (nil if the mutation is not applicable).
func (m *mutCase) mutate() (seed, mutant []byte, stale bool) {
	seed = m.Spec.Encode(vfNowDtn())
	out, stale, ok := vk.ApplyMutations(seed, m.Muts)
	if !ok {
		return seed, nil, false
	}
	return seed, out, stale
}

func TestVerifC01Mutants(t *testing.T) {
	vfRegisterCustom()
	u := vk.Unit{Property: "C01", Name: "c01.mutants", Quick: 12000, Thorough: 600000,
		Rule: "valid encodings (independent encoder) with 1..4 item-level mutations (non-minimal widths, integer edits, array-length edits, swapped/duplicated/deleted items, trailing bytes inside byte strings and inside block data, stale CRCs) and CRCs re-computed; the parser's verdict must not depend on how the reader chunks the bytes; oracle O2 on every mutant the parser accepts; non-trivial = mutant accepted and different from its seed; distinct by mutant bytes"}
	vk.Check(t, u, genMutCase, func(c *vk.Ctx, m mutCase) {
		seed, mut, _ := m.mutate()
		if mut == nil {
			c.Class("mutation not applicable")
			return
		}
		b, err := vfParse(mut)
		if !vfNearExpiry(mut) {
			if why := vfReaderIndependent(mut, err == nil, nil); why != "" {
				c.Failf("c01.reader-dependent", "%s (mutant %x)", why, vfTrunc(mut))
			}
		}
		if err != nil {
			c.Class("mutant rejected")
			return
		}
		if bytes.Equal(seed, mut) {
			c.Class("mutant == seed")
		} else {
			c.Class("mutant accepted")
			c.NonTrivial(string(mut))
		}
		vfAcceptedOracle(c, mut, b)
	})
}

// FuzzVerifC01 is the coverage-guided entry (thorough tier only).
func FuzzVerifC01(f *testing.F) {
	vfRegisterCustom()
	f.Add([]byte{0x9f, 0x88, 0x07, 0x00, 0x00, 0x82, 0x01, 0x00, 0x82, 0x01, 0x00, 0x82, 0x01, 0x00, 0x82, 0x00, 0x00, 0x00, 0xff})
	for seed := int64(1); seed <= 24; seed++ {
		s := vk.GenBundle(vk.GenOpts{SmallPayload: true}).Example(int(seed))
		f.Add(s.Encode(vfNowDtn()))
	}
	for _, h := range [][]byte{
		{0x9f, 0x9b, 0xff, 0xff, 0xff, 0xff, 0xff, 0xff, 0xff, 0xff},
		{0x9f, 0x89, 0x07, 0x1b, 0xff, 0xff, 0xff, 0xff, 0xff, 0xff, 0xff, 0xff},
		{0x9f, 0x88, 0x07, 0x00, 0x00, 0x82, 0x01, 0x7b, 0x7f, 0xff, 0xff, 0xff, 0xff, 0xff, 0xff, 0xff},
	} {
		f.Add(h)
	}
	f.Fuzz(func(t *testing.T, data []byte) {
		if len(data) > 65536 {
			return
		}
		b, err := vfParse(data)
		if err != nil {
			return
		}
		if msg := vfAcceptedOraclePlain(data, b); msg != "" {
			t.Fatalf("%s", msg)
		}
	})
}

// vfAcceptedOraclePlain is O2 without a Ctx (for the native fuzz target); it returns the
// failure text ("[tag] message") or "".
func vfAcceptedOraclePlain(x []byte, b Bundle) (msg string) {
	if vfNearExpiry(x) {
		return ""
	}
	id := b.ID().String()
	y, err := vfWrite(&b)
	if err != nil {
		return fmt.Sprintf("[c01.accepted-not-reserialisable] %v", err)
	}
	b2, err := vfParse(y)
	if err != nil {
		return fmt.Sprintf("[c01.reserialised-rejected] %v", err)
	}
	if id2 := b2.ID().String(); id2 != id {
		return fmt.Sprintf("[c01.id-changed] %q -> %q", id, id2)
	}
	if d := vfPrimaryEq(&b.PrimaryBlock, &b2.PrimaryBlock); d != "" {
		return "[c01.blocks-changed] " + d
	}
	if d := vfBlocksEq(&b, &b2); d != "" {
		return "[c01.blocks-changed] " + d
	}
	wy, err := vk.ReadBundle(y)
	if err != nil {
		return fmt.Sprintf("[c01.reserialised-rejected] independent reader: %v", err)
	}
	if n := len(wy.Blocks); n == 0 || wy.Blocks[n-1].Type != vk.BTPayload {
		return "[c01.payload-not-last]"
	}
	z, err := vfWrite(&b2)
	if err != nil {
		return fmt.Sprintf("[c01.accepted-not-reserialisable] second: %v", err)
	}
	if ok, why := vfSameWire(y, z); !ok {
		return "[c01.not-fixed-point] " + why
	}
	return ""
}

// ---- endpoint IDs inside routing metadata blocks (deterministic enumeration) ----

type c01InnerEID struct {
	Where string     `json:"where"` // dtlsr-id, dtlsr-peer, prophet-key, previous-node
	EID   vk.EIDSpec `json:"eid"`
	CRC   uint64     `json:"crc"`
}

func TestVerifC01InnerEIDs(t *testing.T) {
	vfRegisterCustom()
	u := vk.Unit{Property: "C01", Name: "c01.inner-eids",
		Rule: "enumeration: every place where an endpoint ID occurs inside a block (DTLSR node id, DTLSR peer key, PRoPHET key, previous node) x valid and invalid endpoint IDs (ipn with a zero number, malformed dtn SSPs, dtn:none) x block CRC none/16/32, encoded by the independent encoder; whenever the parser accepts, oracle O2 (re-serialisable, re-accepted, same ID and blocks, fixed point) must hold; every case non-trivial; distinct by case"}
	eids := append([]vk.EIDSpec{{Kind: "none"}, {Kind: "dtn", Node: "n", Demux: "x"}, {Kind: "ipn", N: 1, S: 1}}, c02BadEIDs...)
	vk.Enumerate(t, u, true, func(yield func(c01InnerEID) bool) {
		for _, w := range []string{"dtlsr-id", "dtlsr-peer", "prophet-key", "previous-node"} {
			for _, e := range eids {
				for crc := uint64(0); crc <= 2; crc++ {
					if !yield(c01InnerEID{w, e, crc}) {
						return
					}
				}
			}
		}
	}, func(c *vk.Ctx, cs c01InnerEID) {
		c.NonTrivial()
		good := vk.EIDSpec{Kind: "dtn", Node: "good", Demux: ""}
		var blk vk.BlockSpec
		e := cs.EID
		switch cs.Where {
		case "dtlsr-id":
			blk = vk.BlockSpec{Type: vk.BTDTLSR, Num: 2, CRC: cs.CRC, EID: &e, U: 5, DPeers: []vk.DPeer{{EID: good, Ts: 1}}}
		case "dtlsr-peer":
			blk = vk.BlockSpec{Type: vk.BTDTLSR, Num: 2, CRC: cs.CRC, EID: &good, U: 5, DPeers: []vk.DPeer{{EID: e, Ts: 1}}}
		case "prophet-key":
			blk = vk.BlockSpec{Type: vk.BTProphet, Num: 2, CRC: cs.CRC, PPeers: []vk.PPeer{{EID: e, Bits: 0x3FE0000000000000}}}
		default:
			blk = vk.BlockSpec{Type: vk.BTPrev, Num: 2, CRC: cs.CRC, EID: &e}
		}
		s := vk.BundleSpec{CRC: 2, Dst: good, Src: good, Rpt: good, TsAgoMs: 5, TsSeq: 1, Lifetime: 3600000,
			Blocks: []vk.BlockSpec{blk, {Type: vk.BTPayload, Num: 1, PayLen: 5, PaySeed: 1}}}
		raw := s.Encode(vfNowDtn())
		b, err := vfParse(raw)
		if err != nil {
			c.Class("rejected")
			if e.Valid() {
				c.Failf("c01.valid-rejected", "bundle with the valid endpoint %s as %s is rejected: %v", e.String(), cs.Where, err)
			}
			return
		}
		c.Class("accepted")
		vfAcceptedOracle(c, raw, b)
	})
}

// ---- the routing-specific block types while they are NOT registered (a node running another
// routing algorithm): they must round-trip as generic blocks ----

func TestVerifC01Unregistered(t *testing.T) {
	// this unit runs in a process of its own; nothing else registers the types here
	m := GetExtensionBlockManager()
	for _, eb := range []ExtensionBlock{NewBinarySprayBlock(0), NewDTLSRBlock(DTLSRPeerData{}), NewProphetBlock(nil), &SignatureBlock{}} {
		m.Unregister(eb)
	}
	u := vk.Unit{Property: "C01", Name: "c01.unregistered", Quick: 2500, Thorough: 100000,
		Rule: "valid bundle descriptions as c01.valid (payload <= 70000) encoded by the independent encoder while the binary-spray, DTLSR, PRoPHET and signature block types are not registered with the extension block manager (a node configured for another routing algorithm); oracle: the parser accepts, the blocks come back as generic blocks, the re-serialisation is byte-identical to the input, and the accepted-input oracle (ID, blocks, payload last, fixed point) holds; non-trivial = the bundle carries at least one of the four unregistered types; distinct by case hash"}
	vk.Check(t, u, func(t *rapid.T) c01Case {
		return c01Case{Registered: false, Spec: vk.GenBundle(vk.GenOpts{MaxPayload: 70000, MaxExt: 5}).Draw(t, "bundle")}
	}, func(c *vk.Ctx, cs c01Case) {
		s := &cs.Spec
		c01Classes(c, s)
		custom := 0
		for i := range s.Blocks {
			if s.Blocks[i].Type >= 192 && s.Blocks[i].Type <= 195 {
				custom++
			}
		}
		if custom > 0 {
			c.NonTrivial()
		}
		x := s.Encode(vfNowDtn())
		b, err := vfParse(x)
		if err != nil {
			c.Failf("c01.valid-rejected", "parser rejects a valid bundle whose routing blocks are not registered: %v", err)
		}
		for i := range b.CanonicalBlocks {
			cb := &b.CanonicalBlocks[i]
			if tc := cb.TypeCode(); tc >= 192 && tc <= 195 {
				if _, ok := cb.Value.(*GenericExtensionBlock); !ok {
					c.Failf("c01.harness", "block type %d is still registered (%T)", tc, cb.Value)
				}
			}
		}
		y, err := vfWrite(&b)
		if err != nil {
			c.Failf("c01.accepted-not-reserialisable", "accepted input cannot be re-serialised: %v", err)
		}
		if !bytes.Equal(x, y) {
			d := firstDiff(x, y)
			c.Failf("c01.reserialise-differs", "re-serialisation of a canonical input with generic blocks differs at offset %d: got …%x want …%x", d, vfTrunc(y[d:]), vfTrunc(x[d:]))
		}
		vfAcceptedOracle(c, x, b)
	})
}
