package bpv7

import (
	"bytes"
	"fmt"
	"io"
	"math"
	"sort"
	"sync"
	"time"

	vk "github.com/dtn7/dtn7-go/pkg/verifkit"
)

// Shared helpers of the /verif harness inside package bpv7.

var vfRegisterOnce sync.Once

// vfRegisterCustom registers the routing-specific block types through the public
// manager, exactly as dtnd's routing algorithms do.
func vfRegisterCustom() {
	vfRegisterOnce.Do(func() {
		m := GetExtensionBlockManager()
		_ = m.Register(NewBinarySprayBlock(0))
		_ = m.Register(NewDTLSRBlock(DTLSRPeerData{}))
		_ = m.Register(NewProphetBlock(nil))
		_ = m.Register(&SignatureBlock{})
	})
}

func vfNowDtn() uint64 { return uint64(DtnTimeNow()) }

func vfEID(e vk.EIDSpec) EndpointID {
	switch e.Kind {
	case "none":
		return DtnNone()
	case "ipn":
		return EndpointID{IpnEndpoint{Node: e.N, Service: e.S}}
	default:
		return EndpointID{DtnEndpoint{NodeName: e.Node, Demux: e.Demux}}
	}
}

// vfExt builds the ExtensionBlock value for a block spec (by struct, no validation).
func vfExt(b *vk.BlockSpec) ExtensionBlock {
	switch b.Type {
	case vk.BTPayload:
		return NewPayloadBlock(b.Payload())
	case vk.BTPrev:
		return NewPreviousNodeBlock(vfEID(*b.EID))
	case vk.BTAge:
		return NewBundleAgeBlock(b.U)
	case vk.BTHop:
		return &HopCountBlock{Limit: uint8(b.Limit), Count: uint8(b.Count)}
	case vk.BTSpray:
		return NewBinarySprayBlock(b.U)
	case vk.BTDTLSR:
		peers := map[EndpointID]DtnTime{}
		for _, p := range b.DPeers {
			peers[vfEID(p.EID)] = DtnTime(p.Ts)
		}
		return NewDTLSRBlock(DTLSRPeerData{ID: vfEID(*b.EID), Timestamp: DtnTime(b.U), Peers: peers})
	case vk.BTProphet:
		m := map[EndpointID]float64{}
		for _, p := range b.PPeers {
			m[vfEID(p.EID)] = math.Float64frombits(p.Bits)
		}
		return NewProphetBlock(m)
	case vk.BTSig:
		return &SignatureBlock{PublicKey: b.Pub, Signature: b.Sig}
	default:
		d := b.Data
		if d == nil {
			d = []byte{}
		}
		return NewGenericExtensionBlock(d, b.Type)
	}
}

// vfBundle builds a Bundle struct from a spec (blocks in the spec's wire order).
func vfBundle(s *vk.BundleSpec, now uint64) Bundle {
	pb := PrimaryBlock{
		Version:            7,
		BundleControlFlags: BundleControlFlags(s.Flags),
		CRCType:            CRCType(s.CRC),
		Destination:        vfEID(s.Dst),
		SourceNode:         vfEID(s.Src),
		ReportTo:           vfEID(s.Rpt),
		CreationTimestamp:  NewCreationTimestamp(DtnTime(s.CreationTime(now)), s.TsSeq),
		Lifetime:           s.Lifetime,
		FragmentOffset:     s.FragOff,
		TotalDataLength:    s.Total,
	}
	var cbs []CanonicalBlock
	for i := range s.Blocks {
		bs := &s.Blocks[i]
		cbs = append(cbs, CanonicalBlock{
			BlockNumber:       bs.Num,
			BlockControlFlags: BlockControlFlags(bs.Flags),
			CRCType:           CRCType(bs.CRC),
			Value:             vfExt(bs),
		})
	}
	return Bundle{PrimaryBlock: pb, CanonicalBlocks: cbs}
}

func vfWrite(b *Bundle) ([]byte, error) {
	var buf bytes.Buffer
	err := b.WriteBundle(&buf)
	return buf.Bytes(), err
}

func vfParse(raw []byte) (Bundle, error) {
	return ParseBundle(bytes.NewReader(raw))
}

// vfChunkReader delivers its data in pieces: every Read returns at most the next size of a cyclic
// list (a network connection, a pipe, a decompressor and bufio all behave like this; io.Reader
// allows it). The sizes are derived deterministically from the data.
type vfChunkReader struct {
	data  []byte
	sizes []int
	i     int
}

func (r *vfChunkReader) Read(p []byte) (int, error) {
	if len(r.data) == 0 {
		return 0, io.EOF
	}
	n := r.sizes[r.i%len(r.sizes)]
	r.i++
	if n > len(p) {
		n = len(p)
	}
	if n > len(r.data) {
		n = len(r.data)
	}
	copy(p, r.data[:n])
	r.data = r.data[n:]
	return n, nil
}

// vfParseChunked parses raw through a reader that returns short reads. mode 0: one byte at a
// time; otherwise a cyclic pattern of small sizes derived from mode.
func vfParseChunked(raw []byte, mode uint64) (Bundle, error) {
	sizes := []int{1}
	if mode != 0 {
		x := mode*0x9E3779B97F4A7C15 + 1
		sizes = nil
		for k := 0; k < 7; k++ {
			x ^= x << 13
			x ^= x >> 7
			x ^= x << 17
			sizes = append(sizes, 1+int(x%9))
		}
	}
	return ParseBundle(&vfChunkReader{data: raw, sizes: sizes})
}

// vfReaderIndependent checks that the parser's verdict on raw does not depend on how the reader
// delivers the bytes; it returns a description of the disagreement or "".
func vfReaderIndependent(raw []byte, accepted bool, want []byte) string {
	if len(raw) > 20000 {
		return ""
	}
	for _, mode := range []uint64{0, uint64(len(raw)) + 1, uint64(len(raw))*31 + 7} {
		b, err := vfParseChunked(raw, mode)
		if (err == nil) != accepted {
			return fmt.Sprintf("verdict depends on the reader: accepted=%v from a bytes.Reader, error %v from a reader returning short reads (pattern %d)", accepted, err, mode)
		}
		if err == nil && want != nil {
			got, werr := vfWrite(&b)
			if werr != nil || !bytes.Equal(got, want) {
				return fmt.Sprintf("the bundle parsed from a reader returning short reads (pattern %d) re-serialises differently (err %v)", mode, werr)
			}
		}
	}
	return ""
}

// vfBlockData returns the block-type specific data as the code serialises it.
func vfBlockData(cb *CanonicalBlock) ([]byte, error) {
	var buf bytes.Buffer
	if err := GetExtensionBlockManager().WriteBlock(cb.Value, &buf); err != nil {
		return nil, err
	}
	it, err := vk.DecodeItem(buf.Bytes(), 0)
	if err != nil || it.Major != vk.MajBytes {
		return nil, fmt.Errorf("WriteBlock did not produce a byte string: %v", err)
	}
	return it.Bytes, nil
}

type vfPair struct {
	k string
	v uint64
}

// vfMapPairs reads the (key, value) items of the map inside DTLSR/PRoPHET block data with
// the independent reader, sorted; ok=false when the data is not of that shape.
func vfMapPairs(typ uint64, data []byte) (prefix []byte, pairs []vfPair, ok bool) {
	it, err := vk.DecodeItem(data, 0)
	if err != nil {
		return nil, nil, false
	}
	var m *vk.Item
	switch typ {
	case vk.BTProphet:
		m = it
	case vk.BTDTLSR:
		if it.Major != vk.MajArray || len(it.Items) != 3 {
			return nil, nil, false
		}
		m = it.Items[2]
		prefix = data[:m.Start]
	default:
		return nil, nil, false
	}
	if m.Major != vk.MajMap || len(m.Items)%2 != 0 {
		return nil, nil, false
	}
	for i := 0; i+1 < len(m.Items); i += 2 {
		k := m.Items[i]
		pairs = append(pairs, vfPair{k: string(data[k.Start:k.End]), v: m.Items[i+1].Arg})
	}
	sort.Slice(pairs, func(i, j int) bool {
		if pairs[i].k != pairs[j].k {
			return pairs[i].k < pairs[j].k
		}
		return pairs[i].v < pairs[j].v
	})
	return prefix, pairs, true
}

// vfSameData compares block data; map-valued metadata blocks are compared as multisets
// of entries (their entry order is unspecified).
func vfSameData(typ uint64, a, b []byte) bool {
	if bytes.Equal(a, b) {
		return true
	}
	if typ != vk.BTProphet && typ != vk.BTDTLSR {
		return false
	}
	pa, ma, oka := vfMapPairs(typ, a)
	pb, mb, okb := vfMapPairs(typ, b)
	if !oka || !okb || !bytes.Equal(pa, pb) || len(ma) != len(mb) {
		return false
	}
	for i := range ma {
		if ma[i] != mb[i] {
			return false
		}
	}
	return true
}

// vfSameWire compares two encodings: identical, or identical up to the entry order inside
// DTLSR/PRoPHET maps (in which case the CRCs of those blocks are verified independently
// instead of compared).
func vfSameWire(x, y []byte) (bool, string) {
	if bytes.Equal(x, y) {
		return true, ""
	}
	wx, ex := vk.ReadBundle(x)
	wy, ey := vk.ReadBundle(y)
	if ex != nil || ey != nil {
		return false, fmt.Sprintf("not decodable independently: %v / %v", ex, ey)
	}
	if !bytes.Equal(x[wx.Primary.Item.Start:wx.Primary.Item.End], y[wy.Primary.Item.Start:wy.Primary.Item.End]) {
		return false, "primary block bytes differ"
	}
	if len(wx.Blocks) != len(wy.Blocks) {
		return false, "number of blocks differs"
	}
	for i := range wx.Blocks {
		bx, by := &wx.Blocks[i], &wy.Blocks[i]
		if bytes.Equal(x[bx.Item.Start:bx.Item.End], y[by.Item.Start:by.Item.End]) {
			continue
		}
		if bx.Type != by.Type || bx.Num != by.Num || bx.Flags != by.Flags || bx.CRCType != by.CRCType || bx.ArrLen != by.ArrLen {
			return false, fmt.Sprintf("block %d header differs", i)
		}
		if !vfSameData(bx.Type, bx.Data, by.Data) {
			return false, fmt.Sprintf("block %d (type %d) data differs", i, bx.Type)
		}
	}
	if p := wx.CheckCRCs(); len(p) > 0 {
		return false, "CRC: " + p[0]
	}
	if p := wy.CheckCRCs(); len(p) > 0 {
		return false, "CRC: " + p[0]
	}
	return true, ""
}

// vfReorderMaps reorders the map entries of the spec's DTLSR/PRoPHET blocks to the order
// found in the encoding raw (produced by the code under test), so that the independent
// encoder can reproduce the bytes exactly. It fails if the entries are not a permutation.
func vfReorderMaps(s *vk.BundleSpec, raw []byte) (vk.BundleSpec, error) {
	out := *s
	out.Blocks = append([]vk.BlockSpec(nil), s.Blocks...)
	w, err := vk.ReadBundle(raw)
	if err != nil {
		return out, err
	}
	if len(w.Blocks) != len(out.Blocks) {
		return out, fmt.Errorf("block count differs: wire %d spec %d", len(w.Blocks), len(out.Blocks))
	}
	for i := range out.Blocks {
		b := &out.Blocks[i]
		if (b.Type != vk.BTDTLSR || len(b.DPeers) < 2) && (b.Type != vk.BTProphet || len(b.PPeers) < 2) {
			continue
		}
		it, err := vk.DecodeItem(w.Blocks[i].Data, 0)
		if err != nil {
			return out, err
		}
		m := it
		if b.Type == vk.BTDTLSR {
			if it.Major != vk.MajArray || len(it.Items) != 3 {
				return out, fmt.Errorf("dtlsr data is not a 3-array")
			}
			m = it.Items[2]
		}
		if m.Major != vk.MajMap {
			return out, fmt.Errorf("no map in block %d", i)
		}
		var order []string
		for j := 0; j+1 < len(m.Items); j += 2 {
			k := m.Items[j]
			order = append(order, string(w.Blocks[i].Data[k.Start:k.End]))
		}
		keyOf := func(e vk.EIDSpec) string {
			var enc vk.Enc
			e.Encode(&enc)
			return string(enc.B)
		}
		if b.Type == vk.BTDTLSR {
			byKey := map[string]vk.DPeer{}
			for _, p := range b.DPeers {
				byKey[keyOf(p.EID)] = p
			}
			if len(order) != len(b.DPeers) {
				return out, fmt.Errorf("dtlsr map has %d entries, want %d", len(order), len(b.DPeers))
			}
			var np []vk.DPeer
			for _, k := range order {
				p, ok := byKey[k]
				if !ok {
					return out, fmt.Errorf("dtlsr map has an unexpected key")
				}
				delete(byKey, k)
				np = append(np, p)
			}
			b.DPeers = np
		} else {
			byKey := map[string]vk.PPeer{}
			for _, p := range b.PPeers {
				byKey[keyOf(p.EID)] = p
			}
			if len(order) != len(b.PPeers) {
				return out, fmt.Errorf("prophet map has %d entries, want %d", len(order), len(b.PPeers))
			}
			var np []vk.PPeer
			for _, k := range order {
				p, ok := byKey[k]
				if !ok {
					return out, fmt.Errorf("prophet map has an unexpected key")
				}
				delete(byKey, k)
				np = append(np, p)
			}
			b.PPeers = np
		}
	}
	return out, nil
}

func vfHasMultiMap(s *vk.BundleSpec) bool {
	for i := range s.Blocks {
		if len(s.Blocks[i].DPeers) >= 2 || len(s.Blocks[i].PPeers) >= 2 {
			return true
		}
	}
	return false
}

// vfPrimaryEq compares all primary-block fields (not the cached CRC bytes).
func vfPrimaryEq(a, b *PrimaryBlock) string {
	switch {
	case a.Version != b.Version:
		return "version"
	case a.BundleControlFlags != b.BundleControlFlags:
		return "bundle control flags"
	case a.CRCType != b.CRCType:
		return "crc type"
	case a.Destination != b.Destination:
		return "destination"
	case a.SourceNode != b.SourceNode:
		return "source"
	case a.ReportTo != b.ReportTo:
		return "report-to"
	case a.CreationTimestamp != b.CreationTimestamp:
		return "creation timestamp"
	case a.Lifetime != b.Lifetime:
		return "lifetime"
	case a.HasFragmentation() && (a.FragmentOffset != b.FragmentOffset || a.TotalDataLength != b.TotalDataLength):
		return "fragment offset / total length"
	}
	return ""
}

// vfBlocksEq compares the canonical blocks of two bundles in order.
func vfBlocksEq(a, b *Bundle) string {
	if len(a.CanonicalBlocks) != len(b.CanonicalBlocks) {
		return fmt.Sprintf("block count %d vs %d", len(a.CanonicalBlocks), len(b.CanonicalBlocks))
	}
	for i := range a.CanonicalBlocks {
		x, y := &a.CanonicalBlocks[i], &b.CanonicalBlocks[i]
		switch {
		case x.TypeCode() != y.TypeCode():
			return fmt.Sprintf("block %d type %d vs %d", i, x.TypeCode(), y.TypeCode())
		case x.BlockNumber != y.BlockNumber:
			return fmt.Sprintf("block %d number %d vs %d", i, x.BlockNumber, y.BlockNumber)
		case x.BlockControlFlags != y.BlockControlFlags:
			return fmt.Sprintf("block %d flags", i)
		case x.CRCType != y.CRCType:
			return fmt.Sprintf("block %d crc type", i)
		}
		dx, ex := vfBlockData(x)
		dy, ey := vfBlockData(y)
		if ex != nil || ey != nil {
			return fmt.Sprintf("block %d data not serialisable: %v / %v", i, ex, ey)
		}
		if !vfSameData(x.TypeCode(), dx, dy) {
			return fmt.Sprintf("block %d (type %d) content differs: %x vs %x", i, x.TypeCode(), vfTrunc(dx), vfTrunc(dy))
		}
	}
	return ""
}

func vfTrunc(b []byte) []byte {
	if len(b) > 48 {
		return b[:48]
	}
	return b
}

var _ = time.Now
