package bpv7

import (
	"bytes"
	"encoding/json"
	"fmt"
	"testing"
	"time"

	vk "github.com/dtn7/dtn7-go/pkg/verifkit"
	"pgregory.net/rapid"
)

// C02 — only well-formed bundles are accepted; producers only produce well-formed ones.

type c02Edit struct {
	Kind    int `json:"kind"`
	Variant int `json:"variant"`
}

var c02EditNames = []string{
	"version", "no-payload", "two-payloads", "payload-number", "payload-not-last", "dup-number", "dup-type",
	"bad-dst", "bad-src", "bad-rpt", "bad-prev", "frag+nofrag", "admin+request", "admin+block-report",
	"anon+request", "anon+block-report", "anon-without-nofrag", "zero-time-no-age", "hop>limit",
	"expired-by-time", "expired-by-age",
}

var c02BadEIDs = []vk.EIDSpec{
	{Kind: "ipn", N: 0, S: 1},
	{Kind: "ipn", N: 1, S: 0},
	{Kind: "ipn", N: 0, S: 0},
	{Kind: "raw", Demux: "///x"},       // empty node name
	{Kind: "raw", Demux: "//a b/x"},    // blank in node name
	{Kind: "raw", Demux: "//nä/"}, // non-ASCII node name
	{Kind: "raw", Demux: "none"},       // textual "none"
	{Kind: "raw", Demux: "x"},          // no authority
	{Kind: "raw", Demux: "//a"},        // missing slash behind the node name
	{Kind: "raw", Demux: "/a/b"},       // one slash only
	{Kind: "raw", Demux: "//a/b\nc"},   // line break in demux
	{Kind: "raw", Demux: ""},           // empty SSP
}

func c02FreeNum(s *vk.BundleSpec) uint64 {
	used := map[uint64]bool{1: true}
	for i := range s.Blocks {
		used[s.Blocks[i].Num] = true
	}
	for n := uint64(2); ; n++ {
		if !used[n] {
			return n
		}
	}
}

func c02FreeType(s *vk.BundleSpec) uint64 {
	used := map[uint64]bool{}
	for i := range s.Blocks {
		used[s.Blocks[i].Type] = true
	}
	for _, ty := range []uint64{200, 201, 202, 203, 204, 205} {
		if !used[ty] {
			return ty
		}
	}
	return 999
}

func c02InsertBeforePayload(s *vk.BundleSpec, b vk.BlockSpec) {
	n := len(s.Blocks)
	if n == 0 {
		s.Blocks = append(s.Blocks, b)
		return
	}
	s.Blocks = append(s.Blocks[:n-1], b, s.Blocks[n-1])
}

func c02Find(s *vk.BundleSpec, ty uint64) *vk.BlockSpec {
	for i := range s.Blocks {
		if s.Blocks[i].Type == ty {
			return &s.Blocks[i]
		}
	}
	return nil
}

func c02MakeNonAnonNonAdmin(s *vk.BundleSpec) {
	if s.Src.Kind == "none" {
		s.Src = vk.EIDSpec{Kind: "dtn", Node: "src", Demux: "x"}
	}
	s.Flags &^= vk.FAdmin
}

func c02ClearReportBlocks(s *vk.BundleSpec) {
	for i := range s.Blocks {
		s.Blocks[i].Flags &^= vk.BFReport
	}
}

// c02Apply applies one rule-violating edit to the spec; it returns the rule it intends to break.
func c02Apply(s *vk.BundleSpec, e c02Edit) string {
	v := e.Variant
	if v < 0 {
		v = -v
	}
	n := len(s.Blocks)
	if n == 0 {
		// an earlier edit removed the only block; keep at least something to edit
		s.Blocks = append(s.Blocks, vk.BlockSpec{Type: c02FreeType(s), Num: 2, Data: []byte{1}})
		n = 1
	}
	switch c02EditNames[e.Kind%len(c02EditNames)] {
	case "version":
		ver := []uint64{0, 1, 6, 8, 23, 24, 255, 1 << 32}[v%8]
		s.Ver = &ver
		return vk.RVersion
	case "no-payload":
		s.Blocks = s.Blocks[:n-1]
		return vk.RPayloadCount
	case "two-payloads":
		b := vk.BlockSpec{Type: vk.BTPayload, Num: 1, PayLen: 3, PaySeed: 9}
		if v%2 == 1 {
			b.Num = c02FreeNum(s)
		}
		if v%4 >= 2 {
			s.Blocks = append(s.Blocks, b) // after the real payload
		} else {
			c02InsertBeforePayload(s, b)
		}
		return vk.RPayloadCount
	case "payload-number":
		s.Blocks[n-1].Num = []uint64{0, 2, 23, 24, 255, 256, 1 << 32}[v%7]
		for i := 0; i < n-1; i++ {
			if s.Blocks[i].Num == s.Blocks[n-1].Num {
				s.Blocks[n-1].Num = c02FreeNum(s)
			}
		}
		return vk.RPayloadNumber
	case "payload-not-last":
		if n == 1 {
			s.Blocks = append(s.Blocks, vk.BlockSpec{Type: c02FreeType(s), Num: c02FreeNum(s), Data: []byte{1, 2}})
		} else {
			i := v % (n - 1)
			p := s.Blocks[n-1]
			copy(s.Blocks[i+1:], s.Blocks[i:n-1])
			s.Blocks[i] = p
		}
		return vk.RPayloadLast
	case "dup-number":
		if n == 1 || v%3 == 0 {
			// an extension block that re-uses the payload's number 1
			c02InsertBeforePayload(s, vk.BlockSpec{Type: c02FreeType(s), Num: 1, Data: []byte{7}})
		} else if n == 2 {
			c02InsertBeforePayload(s, vk.BlockSpec{Type: c02FreeType(s), Num: s.Blocks[0].Num, Data: []byte{7}})
		} else {
			i, j := v%(n-1), (v/7)%(n-1)
			if i == j {
				j = (i + 1) % (n - 1)
			}
			s.Blocks[j].Num = s.Blocks[i].Num
		}
		return vk.RDupNumber
	case "dup-type":
		if n == 1 {
			ty := c02FreeType(s)
			c02InsertBeforePayload(s, vk.BlockSpec{Type: ty, Num: c02FreeNum(s), Data: []byte{1}})
			c02InsertBeforePayload(s, vk.BlockSpec{Type: ty, Num: c02FreeNum(s), Data: []byte{2}})
		} else {
			d := s.Blocks[v%(n-1)]
			d.Num = c02FreeNum(s)
			c02InsertBeforePayload(s, d)
		}
		return vk.RDupType
	case "bad-dst":
		s.Dst = c02BadEIDs[v%len(c02BadEIDs)]
		return vk.REIDDst
	case "bad-src":
		s.Src = c02BadEIDs[v%len(c02BadEIDs)]
		return vk.REIDSrc
	case "bad-rpt":
		s.Rpt = c02BadEIDs[v%len(c02BadEIDs)]
		return vk.REIDRpt
	case "bad-prev":
		bad := c02BadEIDs[v%len(c02BadEIDs)]
		if b := c02Find(s, vk.BTPrev); b != nil {
			b.EID = &bad
		} else {
			c02InsertBeforePayload(s, vk.BlockSpec{Type: vk.BTPrev, Num: c02FreeNum(s), EID: &bad, CRC: uint64(v % 3)})
		}
		return vk.REIDPrev
	case "frag+nofrag":
		s.Flags |= vk.FIsFragment | vk.FNoFragment
		return vk.RFragNoFrag
	case "admin+request":
		s.Flags |= vk.FAdmin
		s.Flags |= []uint64{vk.FReqRecv, vk.FReqFwd, vk.FReqDeliv, vk.FReqDel, vk.FReqAll}[v%5]
		return vk.RAdminRequests
	case "admin+block-report":
		s.Flags |= vk.FAdmin
		s.Flags &^= vk.FReqAll
		s.Blocks[v%n].Flags |= vk.BFReport
		return vk.RAdminBlockRep
	case "anon+request":
		s.Src = vk.EIDSpec{Kind: "none"}
		s.Flags |= vk.FNoFragment
		s.Flags &^= vk.FIsFragment
		s.Flags |= []uint64{vk.FReqRecv, vk.FReqFwd, vk.FReqDeliv, vk.FReqDel, vk.FReqAll}[v%5]
		return vk.RAnonRequests
	case "anon+block-report":
		s.Src = vk.EIDSpec{Kind: "none"}
		s.Flags |= vk.FNoFragment
		s.Flags &^= vk.FIsFragment | vk.FReqAll
		s.Blocks[v%n].Flags |= vk.BFReport
		return vk.RAnonBlockRep
	case "anon-without-nofrag":
		s.Src = vk.EIDSpec{Kind: "none"}
		s.Flags &^= vk.FNoFragment | vk.FReqAll
		c02ClearReportBlocks(s)
		return vk.RAnonNoFragment
	case "zero-time-no-age":
		s.TsZero = true
		var nb []vk.BlockSpec
		for i := range s.Blocks {
			if s.Blocks[i].Type != vk.BTAge {
				nb = append(nb, s.Blocks[i])
			}
		}
		s.Blocks = nb
		return vk.RZeroTimeNoAge
	case "hop>limit":
		lim := []uint64{0, 1, 23, 24, 100, 254}[v%6]
		var cnt uint64
		switch mode := (v / 6) % 8; mode {
		case 0, 1, 2:
			if cnt = lim + 1 + uint64(mode); cnt > 255 {
				cnt = 255
			}
		// counts that do not fit the implementation's 8 bit field and look harmless once truncated
		case 3:
			cnt = 256 + lim/2
		case 4:
			cnt = 256 + lim
		case 5:
			cnt = 65536 + lim/2
		case 6:
			cnt = 1<<32 + lim/2
		case 7:
			cnt = 1<<63 + lim/2
		}
		if b := c02Find(s, vk.BTHop); b != nil {
			b.Limit, b.Count = lim, cnt
		} else {
			c02InsertBeforePayload(s, vk.BlockSpec{Type: vk.BTHop, Num: c02FreeNum(s), Limit: lim, Count: cnt, CRC: uint64(v % 3)})
		}
		return vk.RHopExceeded
	case "expired-by-time":
		s.TsZero = false
		s.TsAbs = 0
		s.TsAgoMs = []uint64{20000, 60000, 3600000, 86400000 * 365}[v%4]
		s.Lifetime = []uint64{0, 1, 1000, 9000}[(v/4)%4]
		return vk.RExpired
	case "expired-by-age":
		s.TsZero = true
		s.Lifetime = []uint64{0, 1, 1000, 3600000}[v%4]
		age := s.Lifetime + 1 + uint64(v/4)%1000
		if b := c02Find(s, vk.BTAge); b != nil {
			b.U = age
		} else {
			c02InsertBeforePayload(s, vk.BlockSpec{Type: vk.BTAge, Num: c02FreeNum(s), U: age})
		}
		return vk.RExpired
	}
	return ""
}

type c02Case struct {
	Spec  vk.BundleSpec `json:"spec"`
	Edits []c02Edit     `json:"edits"`
}

func cloneSpec(s *vk.BundleSpec) vk.BundleSpec {
	var out vk.BundleSpec
	j, _ := json.Marshal(s)
	_ = json.Unmarshal(j, &out)
	return out
}

func c02Body(c *vk.Ctx, cs c02Case) {
	now := vfNowDtn()
	seed := cs.Spec.Encode(now)
	// the un-edited seed must be accepted and clean, so that a rejection is attributable to the edits
	if _, err := vfParse(seed); err != nil {
		c.Failf("c02.seed-rejected", "un-edited valid bundle is rejected: %v", err)
	}
	ws, err := vk.ReadBundle(seed)
	if err != nil {
		c.Failf("c02.harness", "independent reader fails on the seed: %v", err)
	}
	if r := vk.ValidateRules(ws, now, 5000); len(r.Broken) > 0 {
		c.Failf("c02.harness", "validator finds broken rules in the un-edited seed: %v", r.Broken)
	}
	s := cloneSpec(&cs.Spec)
	var intended []string
	for _, e := range cs.Edits {
		intended = append(intended, c02Apply(&s, e))
		c.Class("edit=" + c02EditNames[e.Kind%len(c02EditNames)])
	}
	raw := s.Encode(now)
	w, err := vk.ReadBundle(raw)
	if err != nil {
		c.Failf("c02.harness", "independent reader fails on the edited encoding: %v", err)
	}
	res := vk.ValidateRules(w, now, 5000)
	hit := false
	for _, in := range intended {
		if res.Has(in) {
			hit = true
		}
	}
	if hit {
		c.NonTrivial()
	} else {
		c.Class("intended rule masked by a later edit")
	}
	if len(res.Broken) == 0 {
		return
	}
	if b, err := vfParse(raw); err == nil {
		c.Failf("c02.accepted-rule-breaker."+res.Broken[0], "parser accepts %v although the independent validator finds: %v (edits %v)", b.ID(), res.Broken, intended)
	}
}

func TestVerifC02Singles(t *testing.T) {
	vfRegisterCustom()
	u := vk.Unit{Property: "C02", Name: "c02.singles",
		Rule: "every rule-violating edit kind x every variant (<= 48) applied alone to several generated valid bundles, encoded by the independent encoder with correct CRCs; the independent validator must name the intended rule and the parser must reject; enumerated; non-trivial = validator names the intended rule; distinct by case hash"}
	vk.Enumerate(t, u, false, func(yield func(c02Case) bool) {
		nseed := 6
		if vk.Tier() == "thorough" {
			nseed = 120
		}
		i := 0
		for k := range c02EditNames {
			for v := 0; v < 48; v++ {
				for sd := 0; sd < nseed; sd++ {
					i++
					if !vk.ShardOwns(i) {
						continue
					}
					spec := vk.GenBundle(vk.GenOpts{SmallPayload: true}).Example(int(vk.BaseSeed())*1000 + sd*7 + k)
					if !yield(c02Case{Spec: spec, Edits: []c02Edit{{Kind: k, Variant: v}}}) {
						return
					}
				}
			}
		}
	}, c02Body)
}

func TestVerifC02Combos(t *testing.T) {
	vfRegisterCustom()
	u := vk.Unit{Property: "C02", Name: "c02.combos", Quick: 3000, Thorough: 150000,
		Rule: "2..3 random rule-violating edits combined on a generated valid bundle; oracle as c02.singles (any broken rule => reject); non-trivial = validator names at least one intended rule; distinct by case hash"}
	vk.Check(t, u, func(t *rapid.T) c02Case {
		return c02Case{
			Spec: vk.GenBundle(vk.GenOpts{SmallPayload: true}).Draw(t, "bundle"),
			Edits: rapid.SliceOfN(rapid.Custom(func(t *rapid.T) c02Edit {
				return c02Edit{Kind: rapid.IntRange(0, len(c02EditNames)-1).Draw(t, "kind"), Variant: rapid.IntRange(0, 1000).Draw(t, "variant")}
			}), 2, 3).Draw(t, "edits"),
		}
	}, c02Body)
}

// every accepted mutant must be clean for the validator
func TestVerifC02AcceptedClean(t *testing.T) {
	vfRegisterCustom()
	u := vk.Unit{Property: "C02", Name: "c02.accepted-clean", Quick: 12000, Thorough: 600000,
		Rule: "item-level mutants of valid encodings (as C01); whenever the parser accepts a mutant the independent validator must find no broken rule; non-trivial = accepted mutant different from its seed; distinct by mutant bytes"}
	vk.Check(t, u, genMutCase, func(c *vk.Ctx, m mutCase) {
		seed, mut, _ := m.mutate()
		if mut == nil {
			return
		}
		b, err := vfParse(mut)
		if err != nil {
			c.Class("rejected")
			return
		}
		c.Class("accepted")
		w, err := vk.ReadBundle(mut)
		if err != nil {
			c.Class("accepted but not decodable independently: " + err.Error())
			return
		}
		if !bytes.Equal(seed, mut) {
			c.NonTrivial(string(mut))
		}
		res := vk.ValidateRules(w, vfNowDtn(), 5000)
		if len(res.Broken) > 0 {
			c.Failf("c02.accepted-rule-breaker."+res.Broken[0], "parser accepts %v (%x…) although: %v", b.ID(), vfTrunc(mut), res.Broken)
		}
	})
}

// vfProducedOracle: a bundle returned by a producer without error must serialise, be clean
// for the validator and be accepted by the parser.
func vfProducedOracle(c *vk.Ctx, what string, b *Bundle) {
	raw, err := vfWrite(b)
	if err != nil {
		c.Failf("c02.produced-not-serialisable", "%s returned a bundle that cannot be serialised: %v", what, err)
	}
	w, err := vk.ReadBundle(raw)
	if err != nil {
		c.Failf("c02.produced-undecodable", "%s: independent reader: %v", what, err)
	}
	res := vk.ValidateRules(w, vfNowDtn(), 5000)
	if len(res.Broken) > 0 {
		c.Failf("c02.produced-rule-breaker."+res.Broken[0], "%s produced %v which breaks: %v", what, b.ID(), res.Broken)
	}
	if p := w.CheckCRCs(); len(p) > 0 {
		c.Failf("c02.produced-bad-crc", "%s: %s", what, p[0])
	}
	for _, u := range res.Undecidable {
		if u == vk.RExpired {
			// produced within 5 s of its own expiry instant: whether the parser still accepts
			// depends on the clock, not on the producer
			c.Class("produced bundle expires within the guard band (acceptance not asserted)")
			return
		}
	}
	if _, err := vfParse(raw); err != nil {
		c.Failf("c02.produced-rejected", "%s produced %v which the parser rejects: %v", what, b.ID(), err)
	}
}

// ---- builder call sequences ----

type c02Call struct {
	M string `json:"m"`
	A int    `json:"a"`
}

var c02Methods = []string{"Source", "Destination", "ReportTo", "TsEpoch", "TsNow", "TsTime", "Lifetime", "Flags", "CRC",
	"Payload", "HopCount", "Age", "PrevNode", "CanonicalExt", "CanonicalBlock", "StatusReport"}

var c02EIDArgs = []interface{}{
	"dtn://src/app", "dtn://n1/", "ipn:1.2", "dtn:none", "ipn:0.1", "dtn:/x", "dtn://a b/", "foo:bar", "", "dtn://~x/y",
	17, nil,
}

func c02CallBuilder(b *BundleBuilder, call c02Call) {
	a := call.A
	if a < 0 {
		a = -a
	}
	eidArg := func() interface{} {
		x := c02EIDArgs[a%len(c02EIDArgs)]
		if s, ok := x.(string); ok && a%2 == 1 {
			if e, err := NewEndpointID(s); err == nil {
				return e
			}
		}
		return x
	}
	switch call.M {
	case "Source":
		b.Source(eidArg())
	case "Destination":
		b.Destination(eidArg())
	case "ReportTo":
		b.ReportTo(eidArg())
	case "TsEpoch":
		b.CreationTimestampEpoch()
	case "TsNow":
		b.CreationTimestampNow()
	case "TsTime":
		b.CreationTimestampTime(time.Now().Add(-time.Duration(a%5) * time.Second))
	case "Lifetime":
		args := []interface{}{"1h", "24h", uint64(3600000), 3600000, float64(7200000), time.Hour, "30m", "-1h", "x", -5, nil, int64(5)}
		b.Lifetime(args[a%len(args)])
	case "Flags":
		fl := []BundleControlFlags{0, MustNotFragmented, StatusRequestDelivery, IsFragment, IsFragment | MustNotFragmented,
			AdministrativeRecordPayload, AdministrativeRecordPayload | StatusRequestForward, StatusRequestReception | StatusRequestDeletion | RequestStatusTime}
		b.BundleCtrlFlags(fl[a%len(fl)])
	case "CRC":
		b.CRC(CRCType(a % 3))
	case "Payload":
		b.PayloadBlock(vk.PayloadBytes(a%70, uint64(a)))
	case "HopCount":
		b.HopCountBlock([]int{0, 1, 30, 255, 256}[a%5])
	case "Age":
		args := []interface{}{uint64(0), 1000, "5s", uint64(3500000), float64(12)}
		b.BundleAgeBlock(args[a%len(args)])
	case "PrevNode":
		b.PreviousNodeBlock(eidArg())
	case "CanonicalExt":
		exts := []ExtensionBlock{NewBundleAgeBlock(5), NewHopCountBlock(9), NewGenericExtensionBlock([]byte{1, 2, 3}, 77),
			NewGenericExtensionBlock([]byte{}, 78), NewPayloadBlock([]byte("second?")), NewBinarySprayBlock(4), &HopCountBlock{Limit: 1, Count: 2}}
		if a%2 == 0 {
			b.Canonical(exts[a%len(exts)])
		} else {
			b.Canonical(exts[a%len(exts)], BlockControlFlags([]uint64{0, 1, 2, 4, 0x10}[a%5]))
		}
	case "CanonicalBlock":
		cb := NewCanonicalBlock(uint64(a%5), BlockControlFlags(a%8), NewGenericExtensionBlock([]byte{9}, uint64(80+a%3)))
		cb.CRCType = CRCType(a % 4)
		b.Canonical(cb)
	case "StatusReport":
		ref, err := Builder().Source("dtn://ref/").Destination("dtn://x/").CreationTimestampNow().Lifetime("1h").PayloadBlock([]byte("r")).Build()
		if err == nil {
			b.StatusReport(ref, StatusInformationPos(a%4), StatusReportReason(a%12))
		}
	}
}

func TestVerifC02Builder(t *testing.T) {
	vfRegisterCustom()
	u := vk.Unit{Property: "C02", Name: "c02.builder", Quick: 4000, Thorough: 200000,
		Rule: "random sequences of 1..12 Builder() calls (every method, valid and invalid arguments, any order, repeats) followed by Build(); when Build returns no error the bundle must serialise, satisfy the independent validator and be accepted by the parser; non-trivial = a bundle was produced; distinct by case hash"}
	vk.Check(t, u, func(t *rapid.T) []c02Call {
		// a valid core is put in front in most cases so that many sequences produce a bundle
		var calls []c02Call
		if rapid.IntRange(0, 9).Draw(t, "core") > 0 {
			calls = append(calls, c02Call{"Source", rapid.SampledFrom([]int{0, 1, 2, 3, 5}).Draw(t, "src")}, c02Call{"Destination", rapid.IntRange(0, 3).Draw(t, "dst")},
				c02Call{rapid.SampledFrom([]string{"TsNow", "TsEpoch", "TsTime"}).Draw(t, "ts"), 1}, c02Call{"Lifetime", rapid.IntRange(0, 6).Draw(t, "lt")},
				c02Call{"Payload", rapid.IntRange(0, 100).Draw(t, "pl")})
		}
		extra := rapid.SliceOfN(rapid.Custom(func(t *rapid.T) c02Call {
			return c02Call{M: rapid.SampledFrom(c02Methods).Draw(t, "m"), A: rapid.IntRange(0, 1000).Draw(t, "a")}
		}), 0, 8).Draw(t, "calls")
		return append(calls, extra...)
	}, func(c *vk.Ctx, calls []c02Call) {
		b := Builder()
		for _, call := range calls {
			c02CallBuilder(b, call)
		}
		bndl, err := b.Build()
		if err != nil {
			c.Class("Build error")
			return
		}
		c.Class("Build ok")
		c.NonTrivial()
		vfProducedOracle(c, "Builder().Build()", &bndl)
	})
}

// ---- BuildFromMap with JSON-typed values ----

type c02MapCase struct {
	JSON string `json:"json"`
}

func TestVerifC02BuildFromMap(t *testing.T) {
	vfRegisterCustom()
	u := vk.Unit{Property: "C02", Name: "c02.buildfrommap", Quick: 4000, Thorough: 200000,
		Rule: "argument maps for BuildFromMap built from JSON text (every documented key, values of the JSON types string/number/bool/array/object, valid and invalid), decoded with encoding/json as the REST agent does; when no error is returned the bundle must be well-formed and accepted; non-trivial = a bundle was produced; distinct by JSON text"}
	vals := []string{`"dtn://a/b"`, `"dtn://dest/"`, `"ipn:5.6"`, `"dtn:none"`, `"nonsense"`, `"1h"`, `"10m"`, `"-3s"`, `3600000`, `1.5`, `-1`, `true`, `false`,
		`[1,2]`, `{"a":1}`, `"payload text"`, `""`, `30`, `255`, `300`, `0`}
	keys := []string{"destination", "source", "report_to", "creation_timestamp_epoch", "creation_timestamp_now", "lifetime",
		"bundle_age_block", "hop_count_block", "payload_block", "previous_node_block", "bundle_ctrl_flags", "canonical", "bogus", "creation_timestamp_time"}
	vk.Check(t, u, func(t *rapid.T) c02MapCase {
		m := map[string]json.RawMessage{}
		if rapid.IntRange(0, 9).Draw(t, "core") > 0 {
			m["source"] = json.RawMessage(rapid.SampledFrom(vals[:3]).Draw(t, "s"))
			m["destination"] = json.RawMessage(rapid.SampledFrom(vals[:4]).Draw(t, "d"))
			m[rapid.SampledFrom([]string{"creation_timestamp_now", "creation_timestamp_epoch"}).Draw(t, "ts")] = json.RawMessage("true")
			m["lifetime"] = json.RawMessage(rapid.SampledFrom([]string{`"1h"`, `"10m"`, `3600000`}).Draw(t, "l"))
			m["payload_block"] = json.RawMessage(rapid.SampledFrom([]string{`"payload text"`, `""`, `"x"`}).Draw(t, "p"))
		}
		n := rapid.IntRange(0, 4).Draw(t, "n")
		for i := 0; i < n; i++ {
			m[rapid.SampledFrom(keys).Draw(t, "k")] = json.RawMessage(rapid.SampledFrom(vals).Draw(t, "v"))
		}
		j, _ := json.Marshal(m)
		return c02MapCase{JSON: string(j)}
	}, func(c *vk.Ctx, cs c02MapCase) {
		var args map[string]interface{}
		if err := json.Unmarshal([]byte(cs.JSON), &args); err != nil {
			c.Failf("c02.harness", "bad JSON: %v", err)
		}
		b, err := BuildFromMap(args)
		if err != nil {
			c.Class("error")
			return
		}
		c.Class("bundle")
		c.NonTrivial(cs.JSON)
		vfProducedOracle(c, "BuildFromMap("+cs.JSON+")", &b)
	})
}

// ---- outputs of Fragment / ReassembleFragments ----

type c02FragCase struct {
	MTUKind string `json:"mtukind,omitempty"` // how MTU is derived from the encoding (see c09MTU); empty = MTU is absolute
	Spec vk.BundleSpec `json:"spec"`
	MTU  int           `json:"mtu"`
}

func TestVerifC02Fragments(t *testing.T) {
	vfRegisterCustom()
	u := vk.Unit{Property: "C02", Name: "c02.fragments", Quick: 2500, Thorough: 120000,
		Rule: "generated valid bundles x MTU: every bundle returned by Fragment, and the result of ReassembleFragments on them, must be well-formed (independent validator) and accepted by the parser; non-trivial = >= 2 fragments; distinct by case hash"}
	vk.Check(t, u, func(t *rapid.T) c02FragCase {
		o := vk.GenOpts{NoFragment: true, MaxPayload: 3000, NoMultiMap: true, PrimaryCRC: true}
		if rapid.IntRange(0, 9).Draw(t, "nonofrag") > 0 {
			o.NoNoFragment = true
		}
		s := vk.GenBundle(o).Draw(t, "bundle")
		if p := s.PayloadSpec(); p.PayLen < 40 && rapid.IntRange(0, 4).Draw(t, "grow") > 0 {
			p.PayLen += 40 + rapid.IntRange(0, 900).Draw(t, "by")
		}
		// clock-less bundles can only be fragmented if their age block is replicated
		for i := range s.Blocks {
			if s.Blocks[i].Type == vk.BTAge && rapid.IntRange(0, 3).Draw(t, "agerep") > 0 {
				s.Blocks[i].Flags |= vk.BFReplicate
			}
		}
		// the limit is drawn relative to the encoding (as in C09), so that most cases really fragment
		return c02FragCase{Spec: s, MTUKind: rapid.SampledFrom([]string{"payload/", "payload/", "overhead+", "len-", "abs", "len+"}).Draw(t, "mtukind"),
			MTU: rapid.IntRange(1, 5000).Draw(t, "mtu")}
	}, func(c *vk.Ctx, cs c02FragCase) {
		b := vfBundle(&cs.Spec, vfNowDtn())
		mtu := cs.MTU
		if cs.MTUKind != "" {
			enc, err := vfWrite(&b)
			if err != nil {
				c.Failf("c02.harness", "serialise: %v", err)
			}
			k := c09Case{MTUKind: cs.MTUKind, MTUArg: cs.MTU}
			mtu = c09MTU(&k, len(enc), cs.Spec.PayloadSpec().PayLen)
		}
		cs.MTU = mtu
		frags, err := b.Fragment(cs.MTU)
		if err != nil {
			c.Class("Fragment error")
			return
		}
		if len(frags) >= 2 {
			c.NonTrivial()
		}
		c.Classf("fragments=%d", func() int {
			if len(frags) > 5 {
				return 5
			}
			return len(frags)
		}())
		for i := range frags {
			vfProducedOracle(c, fmt.Sprintf("Fragment(%d)[%d]", cs.MTU, i), &frags[i])
		}
		if len(frags) >= 2 {
			r, err := ReassembleFragments(frags)
			if err != nil {
				c.Class("Reassemble error")
				return
			}
			vfProducedOracle(c, "ReassembleFragments", &r)
		}
	})
}
