package bpv7

import (
	"bytes"
	"encoding/json"
	"fmt"
	"strings"
	"testing"

	vk "github.com/dtn7/dtn7-go/pkg/verifkit"
)

// C04 (bpv7 part) — bundles with all extension blocks and administrative records,
// endpoint-ID strings and BuildFromMap argument maps never crash, hang or balloon.

var c04Targets = map[string]vk.Target{
	"bundle": func(in []byte) string {
		b, err := ParseBundle(bytes.NewReader(in))
		if err != nil {
			return "rejected"
		}
		// what the node does with an accepted bundle before any routing decision: log it, ask for its ID,
		// check its lifetime, render it for REST/WebSocket clients
		_ = b.String()
		_ = b.ID().String()
		_ = b.IsLifetimeExceeded()
		_, _ = b.MarshalJSON()
		if b.IsAdministrativeRecord() {
			ar, err := b.AdministrativeRecord()
			if err != nil {
				return "accepted, record rejected"
			}
			c04UseRecord(ar)
			return "accepted with record"
		}
		return "accepted"
	},
	"adminrecord": func(in []byte) string {
		ar, err := NewAdministrativeRecordFromCbor(in)
		if err != nil {
			return "rejected"
		}
		c04UseRecord(ar)
		return "accepted"
	},
	"eid": func(in []byte) string {
		if _, err := NewEndpointID(string(in)); err != nil {
			return "rejected"
		}
		return "accepted"
	},
	"buildfrommap": func(in []byte) string {
		var args map[string]interface{}
		if err := json.Unmarshal(in, &args); err != nil {
			return "not a JSON object"
		}
		if _, err := BuildFromMap(args); err != nil {
			return "rejected"
		}
		return "accepted"
	},
}

// c04UseRecord does with a decoded administrative record what routing.Core.inspectStatusReport does.
func c04UseRecord(ar AdministrativeRecord) {
	_ = fmt.Sprint(ar)
	if sr, ok := ar.(*StatusReport); ok {
		for _, sip := range sr.StatusInformations() {
			_ = sip.String()
		}
		_ = sr.RefBundle.String()
		_ = sr.ReportReason.String()
	}
}

func TestVerifChild(t *testing.T) {
	vfRegisterCustom()
	vk.ChildMain(t, c04Targets)
}

// vfStatusReportCbor builds an administrative record with the independent encoder.
func vfStatusReportCbor(fragment bool, withTime bool) []byte {
	return vfStatusReportCborN(fragment, withTime, 4)
}

// vfStatusReportCborN: the same with nItems status items (a well-formed array of another length than the
// four the specification defines: the decoder takes the count from the wire).
func vfStatusReportCborN(fragment bool, withTime bool, nItems int) []byte {
	var e vk.Enc
	n := uint64(4)
	if fragment {
		n = 6
	}
	e.Arr(2).Uint(1).Arr(n).Arr(uint64(nItems))
	for i := 0; i < nItems; i++ {
		if i == 1 {
			if withTime {
				e.Arr(2).Bool(true).Uint(700000000000)
			} else {
				e.Arr(1).Bool(true)
			}
		} else {
			e.Arr(1).Bool(false)
		}
	}
	e.Uint(5)
	vk.EIDSpec{Kind: "dtn", Node: "src", Demux: "app"}.Encode(&e)
	e.Arr(2).Uint(700000000001).Uint(3)
	if fragment {
		e.Uint(100).Uint(5000)
	}
	return e.B
}

func c04BundleSeeds() [][]byte {
	now := vfNowDtn()
	var seeds [][]byte
	for i := 0; i < 14; i++ {
		s := vk.GenBundle(vk.GenOpts{SmallPayload: true}).Example(4000 + i)
		seeds = append(seeds, s.Encode(now))
	}
	// a bundle with every registered block type at once
	dn := vk.EIDSpec{Kind: "dtn", Node: "n1", Demux: "x"}
	ip := vk.EIDSpec{Kind: "ipn", N: 7, S: 9}
	all := vk.BundleSpec{Flags: 0, CRC: 2, Dst: dn, Src: ip, Rpt: vk.EIDSpec{Kind: "none"}, TsAgoMs: 5, TsSeq: 1, Lifetime: 3600000,
		Blocks: []vk.BlockSpec{
			{Type: vk.BTPrev, Num: 2, CRC: 1, EID: &dn}, {Type: vk.BTAge, Num: 3, CRC: 2, U: 77}, {Type: vk.BTHop, Num: 4, Limit: 30, Count: 2},
			{Type: vk.BTSpray, Num: 5, U: 8}, {Type: vk.BTDTLSR, Num: 6, CRC: 2, EID: &ip, U: 5, DPeers: []vk.DPeer{{EID: dn, Ts: 4}, {EID: ip, Ts: 0}}},
			{Type: vk.BTProphet, Num: 7, PPeers: []vk.PPeer{{EID: dn, Bits: 0x3FE0000000000000}, {EID: ip, Bits: 0x3FF0000000000000}}},
			{Type: vk.BTSig, Num: 8, Pub: bytes.Repeat([]byte{1}, 32), Sig: bytes.Repeat([]byte{2}, 64)}, {Type: 99, Num: 9, Data: []byte{1, 2, 3}},
			{Type: vk.BTPayload, Num: 1, CRC: 2, PayLen: 30, PaySeed: 3}}}
	seeds = append(seeds, all.Encode(now))
	// administrative-record bundles
	for _, fr := range []bool{false, true} {
		for _, tm := range []bool{false, true} {
			ar := vk.BundleSpec{Flags: vk.FAdmin, CRC: 2, Dst: dn, Src: dn, Rpt: dn, TsAgoMs: 5, TsSeq: 1, Lifetime: 3600000,
				// no CRC on the payload block: edits inside the record must reach the record decoder
				Blocks: []vk.BlockSpec{{Type: vk.BTPayload, Num: 1, CRC: 0, Data: vfStatusReportCbor(fr, tm)}}}
			seeds = append(seeds, ar.Encode(now))
		}
	}
	return seeds
}

var c04Hostile = [][]byte{
	{}, {0x9f}, {0x9f, 0xff}, {0xff},
	{0x9f, 0x9b, 0xff, 0xff, 0xff, 0xff, 0xff, 0xff, 0xff, 0xff},
	{0x9f, 0x88, 0x07, 0x00, 0x00, 0x82, 0x01, 0x7b, 0x7f, 0xff, 0xff, 0xff, 0xff, 0xff, 0xff, 0xff},
	{0x9f, 0x88, 0x07, 0x00, 0x00, 0x82, 0x01, 0x7a, 0x7f, 0xff, 0xff, 0xff},
	bytes.Repeat([]byte{0x9f}, 5000), bytes.Repeat([]byte{0x81}, 5000), bytes.Repeat([]byte{0x82, 0x01}, 3000),
}

func TestVerifC04Bundle(t *testing.T) {
	if vk.IsChild() {
		t.Skip()
	}
	vfRegisterCustom()
	cases := vk.C04Inputs(c04BundleSeeds(), true)
	for _, h := range c04Hostile {
		cases = append(cases, vk.C04Case{Class: "hostile constant", Input: h})
	}
	// pairs: two length fields at boundary values at once (sampled deterministically)
	seeds := c04BundleSeeds()
	for si, s := range seeds {
		ms := vk.LengthMutants(s)
		for k := 0; k < 120 && k < len(ms); k++ {
			m1 := ms[(k*7919+si*31)%len(ms)]
			ms2 := vk.LengthMutants(m1)
			if len(ms2) > 0 {
				cases = append(cases, vk.C04Case{Class: "two length/count fields at boundary values", Input: ms2[(k*104729+si)%len(ms2)]})
			}
		}
	}
	vk.RunC04(t, vk.C04Spec{Target: "bundle", Unit: vk.Unit{Property: "C04", Name: "c04.bundle",
		Rule: "ParseBundle (all block types registered) + what the node does with an accepted bundle (String, ID, IsLifetimeExceeded, MarshalJSON, AdministrativeRecord() and its accessors on record bundles), run in disposable child processes (address space limited to 6 GiB) on: valid encodings of 19 bundles with EVERY CBOR head (length, count or value; outer items and items inside block data) set to each of 0,1,23,24,2^16,2^31-1,2^31,2^32-1,2^62,2^63,2^64-1, every truncation, sampled pairs of such edits, hostile constants; violation = process death, escaping panic, no return in 20 s, or TotalAlloc delta > 4 MiB + 256 x len(input); non-trivial = every distinct input; distinct by input hash"}}, cases)
}

func TestVerifC04AdminRecord(t *testing.T) {
	if vk.IsChild() {
		t.Skip()
	}
	var seeds [][]byte
	for _, fr := range []bool{false, true} {
		for _, tm := range []bool{false, true} {
			seeds = append(seeds, vfStatusReportCbor(fr, tm))
		}
	}
	// status-item arrays of every length 0..9 (well-formed; only 4 is what the specification defines)
	for n := 0; n <= 9; n++ {
		if n != 4 {
			seeds = append(seeds, vfStatusReportCborN(n%2 == 1, n%3 == 0, n))
		}
	}
	cases := vk.C04Inputs(seeds, true)
	vk.RunC04(t, vk.C04Spec{Target: "adminrecord", Unit: vk.Unit{Property: "C04", Name: "c04.adminrecord",
		Rule: "NewAdministrativeRecordFromCbor, followed by what routing.Core.inspectStatusReport does with the record (StatusInformations(), String()), on valid status reports (fragment / whole, with / without time, status-item arrays of every length 0..9) with every CBOR head at every boundary value and every truncation, in child processes; violation as c04.bundle; distinct by input hash"}}, cases)
}

func TestVerifC04EID(t *testing.T) {
	if vk.IsChild() {
		t.Skip()
	}
	var cases []vk.C04Case
	for _, s := range vfNearMisses {
		cases = append(cases, vk.C04Case{Class: "near miss", Input: []byte(s)})
	}
	long := bytes.Repeat([]byte("a"), 65000)
	for _, s := range [][]byte{append([]byte("dtn://"), long...), append(append([]byte("dtn://a/"), long...), '\n'), append([]byte("ipn:"), bytes.Repeat([]byte("9"), 65000)...),
		append([]byte("ipn:1."), bytes.Repeat([]byte("0"), 65000)...), bytes.Repeat([]byte("/"), 65000), bytes.Repeat([]byte(":"), 65000), bytes.Repeat([]byte{0xff}, 1000), append([]byte("dtn://"), bytes.Repeat([]byte("ä"), 30000)...)} {
		cases = append(cases, vk.C04Case{Class: "long string", Input: s})
	}
	vk.RunC04(t, vk.C04Spec{Target: "eid", Unit: vk.Unit{Property: "C04", Name: "c04.eid",
		Rule: "NewEndpointID on near-miss endpoint strings and 65 KB strings (long node names, demux, digit runs, separators, invalid UTF-8), in child processes; violation as c04.bundle; distinct by input hash"}}, cases)
}

func TestVerifC04BuildFromMap(t *testing.T) {
	if vk.IsChild() {
		t.Skip()
	}
	keys := []string{"destination", "source", "report_to", "creation_timestamp_epoch", "creation_timestamp_now", "creation_timestamp_time", "lifetime",
		"bundle_ctrl_flags", "canonical", "bundle_age_block", "hop_count_block", "payload_block", "previous_node_block", "unknown_key"}
	vals := []string{`null`, `true`, `false`, `0`, `-1`, `1.5`, `1e308`, `18446744073709551616`, `""`, `"dtn://a/b"`, `"1h"`, `"x"`, `[]`, `[1,2,3]`, `[null]`, `{}`, `{"a":null}`, `[[[[]]]]`, `"` + string(bytes.Repeat([]byte("a"), 60000)) + `"`}
	var cases []vk.C04Case
	base := `"source":"dtn://a/b","destination":"dtn://c/d","creation_timestamp_now":true,"lifetime":"1h","payload_block":"x"`
	for _, k := range keys {
		for _, v := range vals {
			cases = append(cases, vk.C04Case{Class: "single key", Input: []byte(`{"` + k + `":` + v + `}`)})
			cases = append(cases, vk.C04Case{Class: "valid base + key", Input: []byte(`{` + base + `,"` + k + `":` + v + `}`)})
		}
	}
	for _, v := range vals {
		cases = append(cases, vk.C04Case{Class: "not an object", Input: []byte(v)})
	}
	for _, in := range vfBuildSubsets() {
		cases = append(cases, vk.C04Case{Class: "subset of a valid request", Input: []byte(in)})
	}
	vk.RunC04(t, vk.C04Spec{Target: "buildfrommap", Unit: vk.Unit{Property: "C04", Name: "c04.buildfrommap",
		Rule: "JSON text -> encoding/json -> BuildFromMap (what a REST /build request does): every documented key x values of every JSON type (null, bool, numbers incl. overflow, strings incl. 60 KB, arrays, objects, nesting), alone and added to a valid request, and every subset of the keys of a valid request with all block kinds (incomplete requests: no payload, no lifetime, no timestamp ...); in child processes; violation as c04.bundle; distinct by input hash"}}, cases)
}

// vfBuildSubsets returns every subset of the key/value pairs of a valid, rich build request as JSON objects.
func vfBuildSubsets() []string {
	pairs := []string{`"source":"dtn://a/b"`, `"destination":"dtn://c/d"`, `"report_to":"dtn://a/r"`, `"creation_timestamp_now":true`, `"lifetime":"1h"`,
		`"payload_block":"x"`, `"hop_count_block":30`, `"bundle_age_block":0`, `"previous_node_block":"dtn://p/"`}
	var out []string
	for m := 0; m < 1<<len(pairs); m++ {
		var sel []string
		for i, p := range pairs {
			if m&(1<<i) != 0 {
				sel = append(sel, p)
			}
		}
		out = append(out, "{"+strings.Join(sel, ",")+"}")
	}
	return out
}

func FuzzVerifC04Bundle(f *testing.F) {
	vfRegisterCustom()
	seeds := c04BundleSeeds()
	seeds = append(seeds, c04Hostile[:7]...)
	vk.FuzzC04(f, "bundle", c04Targets["bundle"], 4<<20, seeds)
}

func FuzzVerifC04AdminRecord(f *testing.F) {
	vk.FuzzC04(f, "adminrecord", c04Targets["adminrecord"], 4<<20, [][]byte{vfStatusReportCbor(false, false), vfStatusReportCbor(true, true), {0x82, 0x01, 0x84, 0x9b, 0xff, 0xff, 0xff, 0xff, 0xff, 0xff, 0xff, 0xff}})
}
