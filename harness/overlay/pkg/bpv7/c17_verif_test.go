package bpv7

import (
	"bytes"
	"fmt"
	"io"
	"reflect"
	"strconv"
	"strings"
	"testing"

	vk "github.com/dtn7/dtn7-go/pkg/verifkit"
	"pgregory.net/rapid"
)

// C17 (bpv7 part) — endpoint IDs in URI and CBOR form, bundle IDs, status reports /
// administrative records and creation timestamps round-trip and stay aligned.

// ---- endpoint IDs: structure -> text -> structure, structure -> CBOR -> structure ----

func TestVerifC17EIDStruct(t *testing.T) {
	u := vk.Unit{Property: "C17", Name: "c17.eid-struct", Quick: 8000, Thorough: 400000,
		Rule: "valid endpoint structures (dtn with node names over the documented alphabet incl. lengths 23/24/255/256, demux empty/~/non-ASCII; ipn with numbers at 1, 23/24, 2^32+-1, 2^64-1; dtn:none): parse(String(e)) == e, CBOR encoding equals the independent encoder's, decode(encode(e)) == e with the reader left exactly behind the encoding; non-trivial = not dtn:none; distinct by URI"}
	vk.Check(t, u, func(t *rapid.T) vk.EIDSpec { return vk.GenEIDOrNone().Draw(t, "eid") }, func(c *vk.Ctx, s vk.EIDSpec) {
		e := vfEID(s)
		c.Class("kind=" + s.Kind)
		txt := e.String()
		if s.Kind != "none" {
			c.NonTrivial(txt)
		}
		if txt != s.String() {
			c.Failf("c17.eid-string", "String() = %q, the structure spells %q", txt, s.String())
		}
		p, err := NewEndpointID(txt)
		if err != nil {
			c.Failf("c17.eid-valid-rejected", "NewEndpointID(%q) rejects the text of a valid endpoint: %v", txt, err)
		}
		if p != e {
			c.Failf("c17.eid-roundtrip", "NewEndpointID(String(e)) = %#v, e = %#v", p.EndpointType, e.EndpointType)
		}
		var buf bytes.Buffer
		if err := e.MarshalCbor(&buf); err != nil {
			c.Failf("c17.eid-valid-rejected", "MarshalCbor of %q: %v", txt, err)
		}
		var enc vk.Enc
		s.Encode(&enc)
		if !bytes.Equal(buf.Bytes(), enc.B) {
			c.Failf("c17.eid-cbor", "CBOR of %q is %x, independent encoder gives %x", txt, buf.Bytes(), enc.B)
		}
		buf.WriteByte(0xA5)
		r := bytes.NewReader(buf.Bytes())
		var d EndpointID
		if err := d.UnmarshalCbor(r); err != nil {
			c.Failf("c17.eid-valid-rejected", "UnmarshalCbor of %q: %v", txt, err)
		}
		if d != e {
			c.Failf("c17.eid-roundtrip", "CBOR round trip of %q yields %q", txt, d.String())
		}
		if rest, _ := io.ReadAll(r); !bytes.Equal(rest, []byte{0xA5}) {
			c.Failf("c17.misaligned", "decoding %q leaves %d bytes instead of the sentinel", txt, len(rest))
		}
	})
}

// vfEIDTextValid is an independent, hand-written judge of the endpoint URI grammar.
func vfEIDTextValid(s string) (valid bool, canonical bool) {
	switch {
	case s == "dtn:none":
		return true, true
	case strings.HasPrefix(s, "dtn://"):
		rest := s[len("dtn://"):]
		i := strings.IndexByte(rest, '/')
		if i <= 0 {
			return false, false
		}
		for _, r := range rest[:i] {
			ok := (r >= 'a' && r <= 'z') || (r >= 'A' && r <= 'Z') || (r >= '0' && r <= '9') || r == '.' || r == '_' || r == '-'
			if !ok {
				return false, false
			}
		}
		if strings.ContainsRune(rest[i+1:], '\n') {
			return false, false
		}
		return true, true
	case strings.HasPrefix(s, "ipn:"):
		parts := strings.Split(s[4:], ".")
		if len(parts) != 2 {
			return false, false
		}
		canonical = true
		for _, p := range parts {
			if p == "" {
				return false, false
			}
			for _, r := range p {
				if r < '0' || r > '9' {
					return false, false
				}
			}
			n, err := strconv.ParseUint(p, 10, 64)
			if err != nil || n < 1 {
				return false, false
			}
			if p[0] == '0' {
				canonical = false
			}
		}
		return true, canonical
	}
	return false, false
}

var vfNearMisses = []string{
	"", "dtn", "dtn:", "dtn:/", "dtn://", "dtn:///", "dtn:///x", "dtn://a", "dtn:/a/b", "dtn:a/b", "dtn://a b/", "dtn://ä/", "dtn://a/b\nc", "dtn://a/\n",
	"dtn:none ", " dtn:none", "dtn:None", "DTN:none", "dtn:none/", "dtn://a/b", "dtn://a/", "dtn://a.b-c_d/x/y", "dtn://none/", "dtn://a/~b",
	"ipn:", "ipn:1", "ipn:1.", "ipn:.1", "ipn:0.1", "ipn:1.0", "ipn:0.0", "ipn:1.1", "ipn:01.1", "ipn:1.01", "ipn:1.1.1", "ipn:-1.1", "ipn:+1.1", "ipn:1,1",
	"ipn:18446744073709551615.18446744073709551615", "ipn:18446744073709551616.1", "ipn:1.18446744073709551616", "ipn:99999999999999999999999.1",
	"ipn:1.1\n", "ipn: 1.1", "ipn:١.١", "ipn://1.1", "foo:bar", "http://a/b", ":", "dtn", "ipn", "dtn:n", "x", "dtn:none\n", "dtn://a/\x00",
}

type c17TextCase struct {
	S string `json:"s"`
}

func c17TextBody(c *vk.Ctx, cs c17TextCase) {
	s := cs.S
	valid, canonical := vfEIDTextValid(s)
	e, err := NewEndpointID(s)
	switch {
	case valid && err != nil:
		c.Failf("c17.eid-valid-rejected", "NewEndpointID(%q) rejects a valid endpoint URI: %v", s, err)
	case !valid && err == nil:
		c.Failf("c17.eid-invalid-accepted", "NewEndpointID(%q) accepts an invalid endpoint URI as %q", s, e.String())
	}
	if valid {
		c.Class("valid")
	} else {
		c.Class("invalid")
		c.NonTrivial(s)
		return
	}
	c.NonTrivial(s)
	out := e.String()
	if canonical && out != s {
		c.Failf("c17.eid-string", "String(parse(%q)) = %q", s, out)
	}
	e2, err := NewEndpointID(out)
	if err != nil || e2 != e {
		c.Failf("c17.eid-roundtrip", "String(parse(%q)) = %q does not parse back to the same structure (%v)", s, out, err)
	}
	if err := e.CheckValid(); err != nil {
		c.Failf("c17.eid-roundtrip", "parse(%q) is not valid: %v", s, err)
	}
}

func TestVerifC17EIDNearMisses(t *testing.T) {
	u := vk.Unit{Property: "C17", Name: "c17.eid-nearmiss",
		Rule: "a fixed list of endpoint URIs and near-misses (missing slash, empty node name, ipn:0.1, 2^64 overflow, wrong scheme, line break, leading zeros, blanks, non-ASCII digits): accepted iff the independent hand-written grammar judge accepts; accepted text must print back (canonical forms identically) and re-parse to the same structure; enumerated; every case non-trivial"}
	vk.Enumerate(t, u, true, func(yield func(c17TextCase) bool) {
		for _, s := range vfNearMisses {
			if !yield(c17TextCase{S: s}) {
				return
			}
		}
	}, c17TextBody)
}

func TestVerifC17EIDText(t *testing.T) {
	u := vk.Unit{Property: "C17", Name: "c17.eid-text", Quick: 10000, Thorough: 500000,
		Rule: "endpoint URI texts: valid texts from the generator, and 1..2 character-level edits (delete, insert, replace, duplicate) of valid texts; oracle as c17.eid-nearmiss (reject iff invalid by the independent judge, canonical print-back, re-parse); non-trivial = every case; distinct by text"}
	vk.Check(t, u, func(t *rapid.T) c17TextCase {
		s := vk.GenEIDOrNone().Draw(t, "eid").String()
		n := rapid.IntRange(0, 2).Draw(t, "edits")
		for i := 0; i < n; i++ {
			r := []rune(s)
			pos := 0
			if len(r) > 0 {
				pos = rapid.IntRange(0, len(r)-1).Draw(t, "pos")
			}
			ch := rapid.SampledFrom([]rune{'/', ':', '.', '0', '1', 'a', ' ', '\n', '~', '-', 'ä', '9'}).Draw(t, "ch")
			switch rapid.IntRange(0, 3).Draw(t, "op") {
			case 0:
				if len(r) > 0 {
					r = append(r[:pos], r[pos+1:]...)
				}
			case 1:
				r = append(r[:pos], append([]rune{ch}, r[pos:]...)...)
			case 2:
				if len(r) > 0 {
					r[pos] = ch
				}
			case 3:
				if len(r) > 0 {
					r = append(r[:pos], append([]rune{r[pos]}, r[pos:]...)...)
				}
			}
			s = string(r)
		}
		return c17TextCase{S: s}
	}, c17TextBody)
}

// ---- status reports / administrative records / bundle IDs / creation timestamps ----

type c17ReportCase struct {
	Src      vk.EIDSpec `json:"src"`
	Time     uint64     `json:"time"`
	Seq      uint64     `json:"seq"`
	Fragment bool       `json:"fragment"`
	Off      uint64     `json:"off"`
	Total    uint64     `json:"total"`
	ReqTime  bool       `json:"reqtime"`
	Item     int        `json:"item"`
	Reason   uint64     `json:"reason"`
	RTime    uint64     `json:"rtime"`
}

func TestVerifC17Reports(t *testing.T) {
	u := vk.Unit{Property: "C17", Name: "c17.reports", Quick: 6000, Thorough: 300000,
		Rule: "status reports built with NewStatusReport for generated bundles (all endpoint forms as source, creation time/sequence/fragment offset/total length at CBOR width boundaries, time requested or not, each status position, reasons 0..11 and unknown values, report times at boundaries): administrative-record write -> read yields an equal record, the reader stops at the sentinel, the bundle ID and the creation timestamp round-trip on their own, and the record survives being carried as a bundle payload; non-trivial = fragment reference or time requested; distinct by case hash"}
	vk.Check(t, u, func(t *rapid.T) c17ReportCase {
		return c17ReportCase{
			Src: vk.GenEIDOrNone().Draw(t, "src"), Time: vk.Boundary().Draw(t, "time"), Seq: vk.Boundary().Draw(t, "seq"),
			Fragment: rapid.Bool().Draw(t, "frag"), Off: vk.Boundary().Draw(t, "off"), Total: vk.Boundary().Draw(t, "total"),
			ReqTime: rapid.Bool().Draw(t, "reqtime"), Item: rapid.IntRange(0, 3).Draw(t, "item"),
			Reason: rapid.OneOf(rapid.Uint64Range(0, 11), vk.Boundary()).Draw(t, "reason"), RTime: vk.Boundary().Draw(t, "rtime"),
		}
	}, func(c *vk.Ctx, cs c17ReportCase) {
		var flags BundleControlFlags
		if cs.Fragment {
			flags |= IsFragment
		} else {
			// a bundle that is not a fragment has no offset / total length (the parser leaves them 0)
			cs.Off, cs.Total = 0, 0
		}
		if cs.ReqTime {
			flags |= RequestStatusTime
		}
		if cs.Fragment || cs.ReqTime {
			c.NonTrivial()
		}
		ref := Bundle{PrimaryBlock: PrimaryBlock{Version: 7, BundleControlFlags: flags, SourceNode: vfEID(cs.Src), Destination: DtnNone(), ReportTo: DtnNone(),
			CreationTimestamp: NewCreationTimestamp(DtnTime(cs.Time), cs.Seq), FragmentOffset: cs.Off, TotalDataLength: cs.Total}}
		sr := NewStatusReport(ref, StatusInformationPos(cs.Item), StatusReportReason(cs.Reason), DtnTime(cs.RTime))

		// the reference must be the bundle's exact ID
		id := sr.RefBundle
		if id.SourceNode != vfEID(cs.Src) || id.Timestamp != ref.PrimaryBlock.CreationTimestamp || id.IsFragment != cs.Fragment ||
			(cs.Fragment && (id.FragmentOffset != cs.Off || id.TotalDataLength != cs.Total)) {
			c.Failf("c17.report-ref", "status report references %v, bundle is %v", id, ref.ID())
		}

		var buf bytes.Buffer
		if err := GetAdministrativeRecordManager().WriteAdministrativeRecord(sr, &buf); err != nil {
			c.Failf("c17.marshal-error", "WriteAdministrativeRecord: %v", err)
		}
		enc := append([]byte(nil), buf.Bytes()...)
		buf.WriteByte(0xA5)
		r := bytes.NewReader(buf.Bytes())
		ar, err := GetAdministrativeRecordManager().ReadAdministrativeRecord(r)
		if err != nil {
			c.Failf("c17.decode-error", "ReadAdministrativeRecord of an encoded status report: %v", err)
		}
		got, ok := ar.(*StatusReport)
		if !ok {
			c.Failf("c17.roundtrip-differs", "decoded record is a %T", ar)
		}
		if !reflect.DeepEqual(got, sr) {
			c.Failf("c17.roundtrip-differs", "status report differs after round trip: got %+v want %+v", *got, *sr)
		}
		if rest, _ := io.ReadAll(r); !bytes.Equal(rest, []byte{0xA5}) {
			c.Failf("c17.misaligned", "decoding the record leaves %d bytes instead of the sentinel", len(rest))
		}
		// independent look at the encoding: [1, [ [items], reason, src, ts, (off, total) ]]
		it, derr := vk.DecodeItem(enc, 0)
		if derr != nil || it.End != len(enc) || it.Major != vk.MajArray || len(it.Items) != 2 || it.Items[0].Arg != 1 {
			c.Failf("c17.report-shape", "administrative record is not [1, report]: %x", vfTrunc(enc))
		}
		rep := it.Items[1]
		wantLen := 4
		if cs.Fragment {
			wantLen = 6
		}
		if rep.Major != vk.MajArray || len(rep.Items) != wantLen {
			c.Failf("c17.report-shape", "status report has %d elements, want %d", len(rep.Items), wantLen)
		}
		items := rep.Items[0]
		if items.Major != vk.MajArray || len(items.Items) != 4 {
			c.Failf("c17.report-shape", "status information has %d items", len(items.Items))
		}
		for i, si := range items.Items {
			asserted, isBool := false, false
			if len(si.Items) >= 1 {
				asserted, isBool = si.Items[0].IsBool()
			}
			wantN := 1
			if i == cs.Item && cs.ReqTime {
				wantN = 2
			}
			if !isBool || asserted != (i == cs.Item) || len(si.Items) != wantN {
				c.Failf("c17.report-shape", "status item %d is encoded as %d elements / asserted=%v (reported position %d, time requested %v)", i, len(si.Items), asserted, cs.Item, cs.ReqTime)
			}
			if wantN == 2 && si.Items[1].Arg != cs.RTime {
				c.Failf("c17.report-shape", "status item %d carries time %d, want %d", i, si.Items[1].Arg, cs.RTime)
			}
		}
		if rep.Items[1].Arg != cs.Reason {
			c.Failf("c17.report-shape", "reason %d encoded as %d", cs.Reason, rep.Items[1].Arg)
		}

		// bundle ID alone
		var ib bytes.Buffer
		bid := ref.ID()
		if err := bid.MarshalCbor(&ib); err != nil {
			c.Failf("c17.marshal-error", "BundleID: %v", err)
		}
		ib.WriteByte(0xA5)
		rb := bytes.NewReader(ib.Bytes())
		bid2 := BundleID{IsFragment: bid.IsFragment}
		if err := bid2.UnmarshalCbor(rb); err != nil || bid2 != bid {
			c.Failf("c17.roundtrip-differs", "bundle ID %v decodes as %v (%v)", bid, bid2, err)
		}
		if rest, _ := io.ReadAll(rb); !bytes.Equal(rest, []byte{0xA5}) {
			c.Failf("c17.misaligned", "decoding the bundle ID leaves %d bytes instead of the sentinel", len(rest))
		}
		if bid.IsFragment != cs.Fragment || (bid.String() == bid.Scrub().String()) == cs.Fragment {
			c.Failf("c17.bundle-id", "bundle ID %v does not distinguish the fragment", bid)
		}

		// creation timestamp alone
		var tb bytes.Buffer
		ts := ref.PrimaryBlock.CreationTimestamp
		_ = ts.MarshalCbor(&tb)
		tb.WriteByte(0xA5)
		rt := bytes.NewReader(tb.Bytes())
		var ts2 CreationTimestamp
		if err := ts2.UnmarshalCbor(rt); err != nil || ts2 != ts {
			c.Failf("c17.roundtrip-differs", "creation timestamp %v decodes as %v (%v)", ts, ts2, err)
		}
		if rest, _ := io.ReadAll(rt); !bytes.Equal(rest, []byte{0xA5}) {
			c.Failf("c17.misaligned", "decoding the timestamp leaves %d bytes", len(rest))
		}

		// carried as a bundle payload
		carrier, err := Builder().Source("dtn://node/").Destination("dtn://rpt/").CreationTimestampNow().Lifetime("1h").AdministrativeRecord(sr).Build()
		if err != nil {
			c.Failf("c17.marshal-error", "building the report bundle: %v", err)
		}
		raw, err := vfWrite(&carrier)
		if err != nil {
			c.Failf("c17.marshal-error", "serialising the report bundle: %v", err)
		}
		back, err := vfParse(raw)
		if err != nil {
			c.Failf("c17.decode-error", "report bundle is rejected: %v", err)
		}
		ar2, err := back.AdministrativeRecord()
		if err != nil || !reflect.DeepEqual(ar2, AdministrativeRecord(sr)) {
			c.Failf("c17.roundtrip-differs", "record carried in a bundle decodes as %v (%v)", ar2, err)
		}
	})
}

var _ = fmt.Sprint
