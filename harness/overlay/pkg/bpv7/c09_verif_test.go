package bpv7

import (
	"bytes"
	"fmt"
	"sort"
	"testing"

	vk "github.com/dtn7/dtn7-go/pkg/verifkit"
	"pgregory.net/rapid"
)

// C09 — fragmentation respects the size limit and is exactly invertible.

type c09Case struct {
	Spec    vk.BundleSpec `json:"spec"`
	MTUKind string        `json:"mtukind"`
	MTUArg  int           `json:"mtuarg"`
	Perm    uint64        `json:"perm"`
}

var c09MTUKinds = []string{"abs", "len-", "len+", "huge", "overhead+", "payload/"}

func c09MTU(cs *c09Case, encLen, payLen int) int {
	a := cs.MTUArg
	if a < 0 {
		a = -a
	}
	var m int
	switch cs.MTUKind {
	case "abs":
		m = 1 + a%400
	case "len-":
		m = encLen - 1 - a%8
	case "len+":
		m = encLen + a%5
	case "huge":
		m = encLen + 1000 + a
	case "overhead+":
		m = encLen - payLen + []int{-3, -1, 0, 1, 2, 3, 5, 10, 24, 30, 100, 256, 300}[a%13]
	case "payload/":
		m = encLen - payLen + payLen/(2+a%7) + 8
	default:
		m = a
	}
	if m < 1 {
		m = 1
	}
	return m
}

// permute returns the k-th pseudo-random permutation of 0..n-1.
func permute(n int, k uint64) []int {
	p := make([]int, n)
	for i := range p {
		p[i] = i
	}
	x := k*0x9E3779B97F4A7C15 + 1
	for i := n - 1; i > 0; i-- {
		x ^= x << 13
		x ^= x >> 7
		x ^= x << 17
		j := int(x % uint64(i+1))
		p[i], p[j] = p[j], p[i]
	}
	return p
}

func allPerms(n int) [][]int {
	var out [][]int
	p := make([]int, n)
	for i := range p {
		p[i] = i
	}
	var rec func(k int)
	rec = func(k int) {
		if k == n {
			out = append(out, append([]int(nil), p...))
			return
		}
		for i := k; i < n; i++ {
			p[k], p[i] = p[i], p[k]
			rec(k + 1)
			p[k], p[i] = p[i], p[k]
		}
	}
	rec(0)
	return out
}

type c09Ext struct {
	Type, Num, Flags, CRC uint64
	Data                  string
}

func c09ExtBlocks(w *vk.WBundle) []c09Ext {
	var out []c09Ext
	for i := range w.Blocks {
		b := &w.Blocks[i]
		if b.Type == vk.BTPayload {
			continue
		}
		out = append(out, c09Ext{b.Type, b.Num, b.Flags, b.CRCType, string(b.Data)})
	}
	return out
}

// c09Oracle checks one (bundle, mtu) pair. perms: which orders to reassemble in.
func c09Oracle(c *vk.Ctx, b Bundle, mtu int, permSeed uint64, fullPerms bool) {
	enc, err := vfWrite(&b)
	if err != nil {
		c.Failf("c09.harness", "original does not serialise: %v", err)
	}
	worig, err := vk.ReadBundle(enc)
	if err != nil {
		c.Failf("c09.harness", "independent reader fails on the original: %v", err)
	}
	payload, _ := worig.Payload()
	fits := len(enc) <= mtu
	noFrag := b.PrimaryBlock.BundleControlFlags.Has(MustNotFragmented)

	// Fragment works on a copy parsed from the encoding, so that the original value cannot be touched
	orig, err := vfParse(enc)
	if err != nil {
		c.Failf("c09.harness", "original is rejected by the parser: %v", err)
	}
	frags, ferr := orig.Fragment(mtu)

	switch {
	case fits:
		c.Class("fits")
	case noFrag:
		c.Class("must-not-fragment, too big")
	default:
		c.Class("needs fragmentation")
	}
	if len(payload) == 0 {
		c.Class("empty payload")
	}

	if noFrag {
		if !fits {
			c.NonTrivial()
			if ferr == nil {
				c.Failf("c09.nofrag-not-refused", "must-not-fragment bundle of %d bytes was fragmented for MTU %d into %d bundles", len(enc), mtu, len(frags))
			}
			return
		}
		// fits and must-not-fragment: refusing and returning the bundle itself are both in line with the statement
		if ferr != nil {
			return
		}
	}
	if ferr != nil {
		if fits {
			c.NonTrivial()
			c.Failf("c09.fits-but-error", "bundle of %d bytes fits MTU %d but Fragment fails: %v", len(enc), mtu, ferr)
		}
		c.Class("Fragment error (allowed)")
		return
	}
	if len(frags) == 0 {
		c.NonTrivial()
		c.Failf("c09.empty-list", "Fragment(%d) of a %d-byte bundle (payload %d bytes) returned an empty list and no error", mtu, len(enc), len(payload))
	}
	if fits {
		c.NonTrivial()
		if len(frags) != 1 {
			c.Failf("c09.fits-but-fragmented", "bundle of %d bytes fits MTU %d but was split into %d fragments", len(enc), mtu, len(frags))
		}
		e2, err := vfWrite(&frags[0])
		if err != nil || !bytes.Equal(e2, enc) {
			c.Failf("c09.fits-but-fragmented", "bundle of %d bytes fits MTU %d but the returned bundle differs from it (err %v)", len(enc), mtu, err)
		}
		return
	}
	if len(frags) >= 2 {
		c.NonTrivial()
	}
	c.Classf("fragments=%s", func() string {
		switch n := len(frags); {
		case n <= 5:
			return fmt.Sprint(n)
		case n <= 20:
			return "6..20"
		default:
			return ">20"
		}
	}())

	origExt := c09ExtBlocks(worig)
	type piece struct {
		off  uint64
		data []byte
	}
	var pieces []piece
	for i := range frags {
		fe, err := vfWrite(&frags[i])
		if err != nil {
			c.Failf("c09.fragment-invalid", "fragment %d does not serialise: %v", i, err)
		}
		if len(fe) > mtu {
			c.Failf("c09.exceeds-mtu", "fragment %d serialises to %d bytes > MTU %d", i, len(fe), mtu)
		}
		if _, err := vfParse(fe); err != nil {
			c.Failf("c09.fragment-invalid", "fragment %d is rejected by the parser: %v", i, err)
		}
		wf, err := vk.ReadBundle(fe)
		if err != nil {
			c.Failf("c09.fragment-invalid", "fragment %d: independent reader: %v", i, err)
		}
		p, o := &wf.Primary, &worig.Primary
		if p.Flags != o.Flags|vk.FIsFragment {
			c.Failf("c09.fragment-identity", "fragment %d has bundle flags %#x, original %#x", i, p.Flags, o.Flags)
		}
		if p.Src != o.Src || p.Dst != o.Dst || p.Rpt != o.Rpt || p.TsTime != o.TsTime || p.TsSeq != o.TsSeq || p.Lifetime != o.Lifetime || p.CRCType != o.CRCType {
			c.Failf("c09.fragment-identity", "fragment %d differs from the original in source/destination/report-to/timestamp/lifetime", i)
		}
		if p.Total != uint64(len(payload)) {
			c.Failf("c09.total-length", "fragment %d announces total length %d, payload has %d bytes", i, p.Total, len(payload))
		}
		fp, ok := wf.Payload()
		if !ok {
			c.Failf("c09.fragment-invalid", "fragment %d has no payload block", i)
		}
		pieces = append(pieces, piece{p.FragOff, fp})
		// extension blocks
		fext := c09ExtBlocks(wf)
		has := func(list []c09Ext, x c09Ext) bool {
			for _, y := range list {
				if y.Type == x.Type && y.Data == x.Data {
					return true
				}
			}
			return false
		}
		for _, x := range fext {
			if !has(origExt, x) {
				c.Failf("c09.invented-block", "fragment %d carries a block (type %d) that the original does not have", i, x.Type)
			}
		}
		for _, x := range origExt {
			if (p.FragOff == 0 || x.Flags&vk.BFReplicate != 0) && !has(fext, x) {
				c.Failf("c09.missing-block", "fragment %d (offset %d) lacks the block of type %d (flags %#x)", i, p.FragOff, x.Type, x.Flags)
			}
		}
	}
	sort.Slice(pieces, func(i, j int) bool { return pieces[i].off < pieces[j].off })
	pos := uint64(0)
	for _, pc := range pieces {
		if pc.off != pos {
			c.Failf("c09.partition", "fragment offsets do not partition the payload: expected offset %d, found %d", pos, pc.off)
		}
		if pos+uint64(len(pc.data)) > uint64(len(payload)) || !bytes.Equal(pc.data, payload[pos:pos+uint64(len(pc.data))]) {
			c.Failf("c09.payload-content", "fragment at offset %d does not carry the original payload bytes", pc.off)
		}
		pos += uint64(len(pc.data))
	}
	if pos != uint64(len(payload)) {
		c.Failf("c09.partition", "fragments end at %d, payload has %d bytes", pos, len(payload))
	}

	// reassembly in several orders
	var orders [][]int
	if fullPerms && len(frags) <= 5 {
		orders = allPerms(len(frags))
	} else {
		id := make([]int, len(frags))
		rev := make([]int, len(frags))
		for i := range id {
			id[i] = i
			rev[i] = len(frags) - 1 - i
		}
		orders = [][]int{id, rev}
		n := 3
		if fullPerms {
			n = 20
		}
		for k := 0; k < n; k++ {
			orders = append(orders, permute(len(frags), permSeed+uint64(k)))
		}
	}
	for _, ord := range orders {
		in := make([]Bundle, len(frags))
		for i, j := range ord {
			in[i] = frags[j]
		}
		r, err := ReassembleFragments(in)
		if err != nil {
			c.Failf("c09.reassembly-error", "reassembling all %d fragments (order %v) fails: %v", len(frags), ord, err)
		}
		re, err := vfWrite(&r)
		if err != nil {
			c.Failf("c09.reassembly-error", "reassembled bundle does not serialise: %v", err)
		}
		if !bytes.Equal(re, enc) {
			d := firstDiff(re, enc)
			c.Failf("c09.reassembly-differs", "reassembled bundle differs from the original at offset %d: …%x vs …%x", d, vfTrunc(re[d:]), vfTrunc(enc[d:]))
		}
	}
}

var c09Opts = vk.GenOpts{NoFragment: true, NoMultiMap: true, PrimaryCRC: true, MaxPayload: 70000}

func genC09(t *rapid.T) c09Case {
	o := c09Opts
	if rapid.IntRange(0, 9).Draw(t, "nonofrag") > 0 {
		o.NoNoFragment = true
	}
	if rapid.IntRange(0, 9).Draw(t, "small") > 0 {
		o.MaxPayload = 1200
	}
	s := vk.GenBundle(o).Draw(t, "bundle")
	// make most extension blocks replicated so that clock-less bundles can be fragmented at all
	if s.TsZero {
		for i := range s.Blocks {
			if s.Blocks[i].Type == vk.BTAge && rapid.IntRange(0, 3).Draw(t, "agerep") > 0 {
				s.Blocks[i].Flags |= vk.BFReplicate
			}
		}
	}
	return c09Case{Spec: s, MTUKind: rapid.SampledFrom(c09MTUKinds).Draw(t, "mtukind"),
		MTUArg: rapid.IntRange(0, 5000).Draw(t, "mtuarg"), Perm: rapid.Uint64Range(0, 1<<30).Draw(t, "perm")}
}

func TestVerifC09Random(t *testing.T) {
	vfRegisterCustom()
	u := vk.Unit{Property: "C09", Name: "c09.random", Quick: 6000, Thorough: 400000,
		Rule: "generated bundles (every block mix except multi-entry maps, replicate flag on/off, arbitrary block numbers and wire order, all CRC mixes and endpoint forms, payload 0..70000) x MTU drawn around: small absolute values, encoded length -8..+4, overhead -3..+300, payload/k, huge; oracle = validity predicate over the fragment list + byte-identical reassembly in all orders (<=5 fragments) or 22 orders; non-trivial = >=2 fragments or a fits/empty/must-not-fragment boundary case; distinct by case hash"}
	vk.Check(t, u, genC09, func(c *vk.Ctx, cs c09Case) {
		b := vfBundle(&cs.Spec, vfNowDtn())
		enc, err := vfWrite(&b)
		if err != nil {
			c.Failf("c09.harness", "serialise: %v", err)
		}
		mtu := c09MTU(&cs, len(enc), cs.Spec.PayloadSpec().PayLen)
		c.Class("mtu=" + cs.MTUKind)
		c09Oracle(c, b, mtu, cs.Perm, true)
	})
}

type c09GridCase struct {
	Layout int `json:"layout"`
	PayLen int `json:"paylen"`
	MTU    int `json:"mtu"`
}

func c09Layout(i int, paylen int) vk.BundleSpec {
	o := c09Opts
	o.NoNoFragment = true
	o.SmallPayload = true
	s := vk.GenBundle(o).Example(7000 + i)
	p := s.PayloadSpec()
	p.PayLen = paylen
	p.PaySeed = uint64(i)
	for k := range s.Blocks {
		if s.Blocks[k].Type == vk.BTAge {
			s.Blocks[k].Flags |= vk.BFReplicate
		}
	}
	return s
}

func TestVerifC09Grid(t *testing.T) {
	vfRegisterCustom()
	pays := []int{0, 1, 2, 5, 23, 24, 25, 64, 200}
	layouts := 5
	if vk.Tier() == "thorough" {
		pays = nil
		for p := 0; p <= 200; p++ {
			pays = append(pays, p)
		}
		layouts = 12
	}
	u := vk.Unit{Property: "C09", Name: "c09.grid",
		Rule: "exhaustive grid: block layouts x payload lengths (quick: 9 lengths 0..200, thorough: every length 0..200) x EVERY MTU from 1 to encoded length+16; oracle as c09.random with 5 reassembly orders; non-trivial as c09.random; distinct by (layout, payload, MTU)"}
	vk.Enumerate(t, u, true, func(yield func(c09GridCase) bool) {
		i := 0
		for l := 0; l < layouts; l++ {
			for _, p := range pays {
				i++
				if !vk.ShardOwns(i) {
					continue
				}
				s := c09Layout(l, p)
				n := len(s.Encode(vfNowDtn()))
				for m := 1; m <= n+16; m++ {
					if !yield(c09GridCase{Layout: l, PayLen: p, MTU: m}) {
						return
					}
				}
			}
		}
	}, func(c *vk.Ctx, cs c09GridCase) {
		s := c09Layout(cs.Layout, cs.PayLen)
		b := vfBundle(&s, vfNowDtn())
		c09Oracle(c, b, cs.MTU, uint64(cs.MTU), false)
	})
}

// ---- second-level fragmentation: a fragment is a bundle too -------------------------------

type c09ReCase struct {
	Spec     vk.BundleSpec `json:"spec"`
	MTU1Kind string        `json:"mtu1kind"`
	MTU1Arg  int           `json:"mtu1arg"`
	Pick     int           `json:"pick"`
	MTU2Kind string        `json:"mtu2kind"`
	MTU2Arg  int           `json:"mtu2arg"`
	Perm     uint64        `json:"perm"`
}

// c09ReOracle fragments b for mtu1, fragments the pick-th resulting fragment again for mtu2 and
// judges the second-level fragments: size limit, validity, identity fields, offsets relative to
// the ORIGINAL payload partitioning exactly the parent's range, original total length, and
// byte-identical reassembly of the original when the parent is replaced by its children.
func c09ReOracle(c *vk.Ctx, b Bundle, mtu1 int, pick int, mtu2 func(parentLen, parentPay int) int, perm uint64) {
	enc, err := vfWrite(&b)
	if err != nil {
		c.Failf("c09.harness", "original does not serialise: %v", err)
	}
	worig, err := vk.ReadBundle(enc)
	if err != nil {
		c.Failf("c09.harness", "independent reader fails on the original: %v", err)
	}
	payload, _ := worig.Payload()
	orig, err := vfParse(enc)
	if err != nil {
		c.Failf("c09.harness", "original is rejected by the parser: %v", err)
	}
	first, ferr := orig.Fragment(mtu1)
	if ferr != nil || len(first) < 2 {
		c.Class("first level: not fragmented")
		return
	}
	k := pick % len(first)
	penc, err := vfWrite(&first[k])
	if err != nil {
		c.Failf("c09.fragment-invalid", "first-level fragment %d does not serialise: %v", k, err)
	}
	wpar, err := vk.ReadBundle(penc)
	if err != nil {
		c.Failf("c09.fragment-invalid", "first-level fragment %d: independent reader: %v", k, err)
	}
	ppay, _ := wpar.Payload()
	poff := wpar.Primary.FragOff
	parent, err := vfParse(penc)
	if err != nil {
		c.Failf("c09.fragment-invalid", "first-level fragment %d is rejected by the parser: %v", k, err)
	}
	m2 := mtu2(len(penc), len(ppay))
	second, serr := parent.Fragment(m2)
	if poff == 0 {
		c.Class("parent: first fragment")
	} else {
		c.Class("parent: later fragment")
	}
	if serr != nil {
		if len(penc) <= m2 {
			c.NonTrivial()
			c.Failf("c09.fits-but-error", "fragment of %d bytes fits MTU %d but Fragment fails: %v", len(penc), m2, serr)
		}
		c.Class("second level: Fragment error (allowed)")
		return
	}
	if len(second) == 0 {
		c.NonTrivial()
		c.Failf("c09.empty-list", "Fragment(%d) of a %d-byte fragment returned an empty list and no error", m2, len(penc))
	}
	if len(penc) <= m2 {
		c.NonTrivial()
		c.Class("second level: fits")
		if len(second) != 1 {
			c.Failf("c09.fits-but-fragmented", "fragment of %d bytes fits MTU %d but was split into %d fragments", len(penc), m2, len(second))
		}
		e2, err := vfWrite(&second[0])
		if err != nil || !bytes.Equal(e2, penc) {
			c.Failf("c09.fits-but-fragmented", "fragment of %d bytes fits MTU %d but the returned bundle differs from it (err %v)", len(penc), m2, err)
		}
		return
	}
	if len(second) >= 2 && poff > 0 {
		c.NonTrivial()
	}
	c.Class("second level: fragmented")
	width := func(v uint64) int {
		switch {
		case v < 24:
			return 1
		case v < 256:
			return 2
		case v < 65536:
			return 3
		}
		return 5
	}
	type piece struct {
		off  uint64
		data []byte
	}
	var pieces []piece
	for i := range second {
		fe, err := vfWrite(&second[i])
		if err != nil {
			c.Failf("c09.fragment-invalid", "second-level fragment %d does not serialise: %v", i, err)
		}
		wf, err := vk.ReadBundle(fe)
		if err != nil {
			c.Failf("c09.fragment-invalid", "second-level fragment %d: independent reader: %v", i, err)
		}
		p, o := &wf.Primary, &worig.Primary
		if width(p.FragOff) > width(p.FragOff-poff) {
			c.Class("offset wider than the local offset")
		}
		if len(fe) > m2 {
			c.Failf("c09.exceeds-mtu", "fragment (offset %d) of the fragment at offset %d serialises to %d bytes > MTU %d", p.FragOff, poff, len(fe), m2)
		}
		if _, err := vfParse(fe); err != nil {
			c.Failf("c09.fragment-invalid", "second-level fragment %d is rejected by the parser: %v", i, err)
		}
		if p.Flags != o.Flags|vk.FIsFragment {
			c.Failf("c09.fragment-identity", "second-level fragment %d has bundle flags %#x, original %#x", i, p.Flags, o.Flags)
		}
		if p.Src != o.Src || p.Dst != o.Dst || p.Rpt != o.Rpt || p.TsTime != o.TsTime || p.TsSeq != o.TsSeq || p.Lifetime != o.Lifetime || p.CRCType != o.CRCType {
			c.Failf("c09.fragment-identity", "second-level fragment %d differs from the original in source/destination/report-to/timestamp/lifetime", i)
		}
		if p.Total != uint64(len(payload)) {
			c.Failf("c09.total-length", "second-level fragment %d announces total length %d, the original payload has %d bytes", i, p.Total, len(payload))
		}
		fp, ok := wf.Payload()
		if !ok {
			c.Failf("c09.fragment-invalid", "second-level fragment %d has no payload block", i)
		}
		pieces = append(pieces, piece{p.FragOff, fp})
	}
	sort.Slice(pieces, func(i, j int) bool { return pieces[i].off < pieces[j].off })
	pos := poff
	for _, pc := range pieces {
		if pc.off != pos {
			c.Failf("c09.partition", "second-level offsets do not partition the parent's range [%d,%d): expected offset %d, found %d", poff, poff+uint64(len(ppay)), pos, pc.off)
		}
		if pos+uint64(len(pc.data)) > uint64(len(payload)) || !bytes.Equal(pc.data, payload[pos:pos+uint64(len(pc.data))]) {
			c.Failf("c09.payload-content", "second-level fragment at offset %d does not carry the original payload bytes", pc.off)
		}
		pos += uint64(len(pc.data))
	}
	if pos != poff+uint64(len(ppay)) {
		c.Failf("c09.partition", "second-level fragments end at %d, the parent ends at %d", pos, poff+uint64(len(ppay)))
	}
	// the original from: the other first-level fragments + the children
	var pool []Bundle
	for i := range first {
		if i != k {
			pool = append(pool, first[i])
		}
	}
	pool = append(pool, second...)
	id := make([]int, len(pool))
	rev := make([]int, len(pool))
	for i := range id {
		id[i] = i
		rev[i] = len(pool) - 1 - i
	}
	for _, ord := range [][]int{id, rev, permute(len(pool), perm), permute(len(pool), perm+1)} {
		in := make([]Bundle, len(pool))
		for i, j := range ord {
			in[i] = pool[j]
		}
		r, err := ReassembleFragments(in)
		if err != nil {
			c.Failf("c09.reassembly-error", "reassembling %d first- and second-level fragments (order %v) fails: %v", len(pool), ord, err)
		}
		re, err := vfWrite(&r)
		if err != nil {
			c.Failf("c09.reassembly-error", "reassembled bundle does not serialise: %v", err)
		}
		if !bytes.Equal(re, enc) {
			d := firstDiff(re, enc)
			c.Failf("c09.reassembly-differs", "bundle reassembled from first- and second-level fragments differs from the original at offset %d: …%x vs …%x", d, vfTrunc(re[d:]), vfTrunc(enc[d:]))
		}
	}
}

func TestVerifC09Refragment(t *testing.T) {
	vfRegisterCustom()
	u := vk.Unit{Property: "C09", Name: "c09.refragment", Quick: 4000, Thorough: 300000,
		Rule: "a fragment is a bundle too: generated bundles (as c09.random, payload 40..70000) are fragmented for a first limit, one of the resulting fragments (any position) is fragmented again for a second limit drawn around small values / its encoded length / its overhead / payload fractions; oracle for the second level: size limit, parser acceptance, identity fields, total length of the ORIGINAL payload, offsets relative to the original payload partitioning exactly the parent's range, 'fits => itself', and byte-identical reassembly of the original from the remaining first-level fragments plus the children in 4 orders; non-trivial = a later (offset > 0) fragment split into >= 2 pieces or a fits boundary case; distinct by case hash"}
	gen := func(t *rapid.T) c09ReCase {
		o := c09Opts
		o.NoNoFragment = true
		if rapid.IntRange(0, 9).Draw(t, "small") > 0 {
			o.MaxPayload = 1500
		}
		s := vk.GenBundle(o).Draw(t, "bundle")
		p := s.PayloadSpec()
		if p.PayLen < 40 {
			p.PayLen += 40 + rapid.IntRange(0, 600).Draw(t, "grow")
		}
		for i := range s.Blocks {
			if s.Blocks[i].Type == vk.BTAge {
				s.Blocks[i].Flags |= vk.BFReplicate
			}
		}
		return c09ReCase{Spec: s,
			MTU1Kind: rapid.SampledFrom([]string{"payload/", "payload/", "overhead+", "abs", "len-"}).Draw(t, "m1k"),
			MTU1Arg:  rapid.IntRange(0, 5000).Draw(t, "m1a"), Pick: rapid.IntRange(0, 40).Draw(t, "pick"),
			MTU2Kind: rapid.SampledFrom(c09MTUKinds).Draw(t, "m2k"), MTU2Arg: rapid.IntRange(0, 5000).Draw(t, "m2a"),
			Perm: rapid.Uint64Range(0, 1<<30).Draw(t, "perm")}
	}
	vk.Check(t, u, gen, func(c *vk.Ctx, cs c09ReCase) {
		b := vfBundle(&cs.Spec, vfNowDtn())
		enc, err := vfWrite(&b)
		if err != nil {
			c.Failf("c09.harness", "serialise: %v", err)
		}
		c1 := c09Case{MTUKind: cs.MTU1Kind, MTUArg: cs.MTU1Arg}
		mtu1 := c09MTU(&c1, len(enc), cs.Spec.PayloadSpec().PayLen)
		c09ReOracle(c, b, mtu1, cs.Pick, func(pl, pp int) int {
			c2 := c09Case{MTUKind: cs.MTU2Kind, MTUArg: cs.MTU2Arg}
			return c09MTU(&c2, pl, pp)
		}, cs.Perm)
	})
}

type c09ReGridCase struct {
	Layout int `json:"layout"`
	PayLen int `json:"paylen"`
	MTU1   int `json:"mtu1"`
	Pick   int `json:"pick"`
	MTU2   int `json:"mtu2"`
}

func TestVerifC09RefragmentGrid(t *testing.T) {
	vfRegisterCustom()
	layouts, pays, step := 3, []int{60, 300}, 7
	if vk.Tier() == "thorough" {
		layouts, pays, step = 10, []int{30, 60, 120, 300, 700}, 1
	}
	u := vk.Unit{Property: "C09", Name: "c09.refragment-grid",
		Rule: "exhaustive second-level grid: block layouts x payload lengths (offsets cross 24 and 256) x first limits (overhead + payload/2, /3, /5) x every first-level fragment x EVERY second limit from 1 to the fragment's length + 2 (quick: every 7th); oracle as c09.refragment; distinct by tuple"}
	vk.Enumerate(t, u, step == 1, func(yield func(c09ReGridCase) bool) {
		i := 0
		for l := 0; l < layouts; l++ {
			for _, p := range pays {
				s := c09Layout(l, p)
				n := len(s.Encode(vfNowDtn()))
				for _, div := range []int{2, 3, 5} {
					m1 := n - p + p/div + 8
					for pick := 0; pick <= div+1; pick++ {
						i++
						if !vk.ShardOwns(i) {
							continue
						}
						for m2 := 1 + (l+pick)%step; m2 <= m1+2; m2 += step {
							if !yield(c09ReGridCase{l, p, m1, pick, m2}) {
								return
							}
						}
					}
				}
			}
		}
	}, func(c *vk.Ctx, cs c09ReGridCase) {
		s := c09Layout(cs.Layout, cs.PayLen)
		b := vfBundle(&s, vfNowDtn())
		c09ReOracle(c, b, cs.MTU1, cs.Pick, func(int, int) int { return cs.MTU2 }, uint64(cs.MTU2))
	})
}
