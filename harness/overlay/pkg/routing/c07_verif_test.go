package routing

import (
	"bytes"
	"fmt"
	"testing"

	"github.com/dtn7/dtn7-go/pkg/bpv7"
	"github.com/dtn7/dtn7-go/pkg/storage"
	vk "github.com/dtn7/dtn7-go/pkg/verifkit"
	"pgregory.net/rapid"
)

// C07 (node level) — a bundle for a locally registered endpoint reaches every matching
// agent once, no peer, and is only released after such a hand-over.

type c07NodeCase struct {
	Algo    string  `json:"algo"`
	Agents  [][]int `json:"agents"` // endpoint indices per mock agent
	Ping    int     `json:"ping"`   // endpoint index of a ping agent, -1 none
	Peers   int     `json:"peers"`
	Bundles []struct {
		Dest  int  `json:"dest"` // 0..3 endpoints of this node (3 = nobody registered), 4 = foreign
		Local bool `json:"local"`
		Twice bool `json:"twice"` // received a second time later
	} `json:"bundles"`
}

var c07NodeEPs = []string{vfNodeName + "svc-a", vfNodeName + "svc-b", vfNodeName + "svc-c", vfNodeName + "nobody"}

func c07NodeBody(c *vk.Ctx, cs c07NodeCase) {
	s := vfNewSim(c, vfConf(cs.Algo))
	defer s.close()
	var agents []*vfAgent
	for _, eps := range cs.Agents {
		var eids []bpv7.EndpointID
		for _, e := range eps {
			eids = append(eids, bpv7.MustNewEndpointID(c07NodeEPs[e%3]))
		}
		a := vfNewAgent(eids...)
		agents = append(agents, a)
		s.core.RegisterApplicationAgent(a)
	}
	pingEP := ""
	if cs.Ping >= 0 {
		pingEP = c07NodeEPs[cs.Ping%3]
		ping := newVfPingProxy(bpv7.MustNewEndpointID(pingEP))
		s.core.RegisterApplicationAgent(ping)
		// before the node is closed the ping agent must owe nothing (dtn7's multiplexer panics with "send on
		// closed channel" if an agent hands over a bundle during shutdown; outside every listed property)
		defer s.quiescePing(ping)
	}
	for i := 0; i < cs.Peers; i++ {
		s.addPeer(fmt.Sprintf("p%d", i))
	}
	shared := false
	for i, bd := range cs.Bundles {
		dest := "dtn://elsewhere/inbox"
		if bd.Dest < 4 {
			dest = c07NodeEPs[bd.Dest]
		}
		payload := []byte(fmt.Sprintf("c07-node-payload-%d", i))
		src := fmt.Sprintf("dtn://remote%d/app", i)
		if bd.Local {
			src = vfNodeName + "app"
		}
		b, err := bpv7.Builder().CRC(bpv7.CRC32).Source(src).Destination(dest).ReportTo("dtn://p0/reports").CreationTimestampNow().Lifetime("1h").
			BundleCtrlFlags(bpv7.StatusRequestDelivery).PayloadBlock(payload).Build()
		if err != nil {
			s.failf("c07.harness", "bundle: %v", err)
		}
		b.PrimaryBlock.CreationTimestamp[1] = uint64(i)
		times := 1
		if bd.Twice && !bd.Local {
			times = 2
		}
		var idOnWire string
		for r := 0; r < times; r++ {
			before := s.nSends()
			cnt := make([]int, len(agents))
			for k, a := range agents {
				for _, g := range a.received() {
					if bytes.Equal(vfPayloadOf(&g), payload) {
						cnt[k]++
					}
				}
			}
			if bd.Local {
				s.logf("application submits bundle %d for %s", i, dest)
				s.submit(b)
				s.agentBarrier()
			} else {
				s.logf("peer delivers bundle %d for %s (reception %d)", i, dest, r+1)
				s.receive(b)
			}
			s.barrier(s.inlet)
			for _, a := range agents {
				a.flush() // the multiplexer has handed the bundle over; wait until the mock has recorded it
			}
			// which agents must have got it
			matching := 0
			for k, eps := range cs.Agents {
				match := false
				for _, e := range eps {
					if bd.Dest < 3 && c07NodeEPs[e%3] == dest {
						match = true
					}
				}
				got := 0
				for _, g := range agents[k].received() {
					if bytes.Equal(vfPayloadOf(&g), payload) {
						got++
						if !bytes.Equal(vfEncNoCRC(&g), vfEncNoCRC(&b)) && !bd.Local {
							s.failf("c07.changed-content", "agent %d received bundle %d with changed content", k, i)
						}
					}
				}
				got -= cnt[k]
				want := 0
				if match {
					want = 1
					matching++
				}
				if got != want {
					s.failf("c07.wrong-recipients", "after %s: agent %d (endpoints %v) received bundle %d for %s %d times in this step, expected %d", s.trace[len(s.trace)-1], k, eps, i, dest, got, want)
				}
			}
			if matching >= 2 {
				shared = true
			}
			local := bd.Dest < 4
			hasRecipient := matching > 0 || (pingEP != "" && dest == pingEP)
			// never transmitted to peers if it is for this node
			deliveredReport := false
			for _, x := range s.sendsSince(before) {
				w, err := vk.ReadBundle(x.Raw)
				if err != nil {
					continue
				}
				p, _ := w.Payload()
				if bytes.Equal(p, payload) {
					idOnWire = x.ID
					if local {
						s.failf("c07.sent-to-peer", "bundle %d for the local endpoint %s was transmitted to peer %s", i, dest, x.Peer)
					}
				}
				if r, isAdmin, err := c15Decode(x.Raw); isAdmin && err == nil && r.asserted == 2 {
					deliveredReport = true
				}
			}
			_ = idOnWire
			if local && deliveredReport && !hasRecipient {
				s.failf("c07.report-without-handover", "a delivery report was sent for bundle %d (%s) although no agent is registered for this endpoint", i, dest)
			}
			if local && !bd.Local {
				// the retention constraint is gone only after a hand-over
				known := s.storeHas(b.ID())
				if !hasRecipient && !known {
					s.failf("c07.released-without-handover", "bundle %d for %s (no agent registered) is no longer in the store although nobody received it", i, dest)
				}
			}
		}
	}
	if shared || len(cs.Agents) >= 2 {
		c.NonTrivial()
	}
	c.Class("algo=" + cs.Algo)
}

// vfEncNoCRC serialises a bundle (cached CRC values do not matter).
func vfEncNoCRC(b *bpv7.Bundle) []byte { return vfEnc(b) }

func TestVerifC07Node(t *testing.T) {
	u := vk.Unit{Property: "C07", Name: "c07.node", Quick: 150, Thorough: 5000,
		Rule: "a real Core with the real MuxAgent, 1..3 mock agents (each with 1..2 of three endpoints, shared and distinct), optionally the PingAgent, and 0..2 connected peers; 1..5 bundles (received, some twice, or locally submitted) for registered endpoints, for an endpoint of the node nobody registered, or for a foreign node; oracle: every agent registered for exactly the destination endpoint receives the bundle once per accepted copy with unchanged content, nobody else does, no peer log contains a bundle for a local endpoint, a delivery report and the release from the store happen only after a hand-over; non-trivial = >= 2 agents; distinct by case hash"}
	vk.Check(t, u, func(t *rapid.T) c07NodeCase {
		cs := c07NodeCase{Algo: rapid.SampledFrom([]string{"epidemic", "epidemic", "spray", "prophet", "dtlsr"}).Draw(t, "algo"),
			Ping: rapid.SampledFrom([]int{-1, -1, 0, 1}).Draw(t, "ping"), Peers: rapid.IntRange(0, 2).Draw(t, "peers")}
		na := rapid.IntRange(1, 3).Draw(t, "nagents")
		for i := 0; i < na; i++ {
			cs.Agents = append(cs.Agents, rapid.SliceOfNDistinct(rapid.IntRange(0, 2), 1, 2, func(x int) int { return x }).Draw(t, "eps"))
		}
		nb := rapid.IntRange(1, 5).Draw(t, "nbundles")
		for i := 0; i < nb; i++ {
			cs.Bundles = append(cs.Bundles, struct {
				Dest  int  `json:"dest"`
				Local bool `json:"local"`
				Twice bool `json:"twice"`
			}{Dest: rapid.SampledFrom([]int{0, 0, 1, 1, 2, 3, 4}).Draw(t, "dest"), Local: rapid.IntRange(0, 3).Draw(t, "local") == 0, Twice: rapid.IntRange(0, 3).Draw(t, "twice") == 0})
		}
		return cs
	}, c07NodeBody)
}

// ---- an agent registers after the bundle arrived; administrative records for local clients -------------

type c07Late struct {
	Algo      string `json:"algo"`
	Foreign   bool   `json:"foreign"`    // the endpoint carries another node name (else the node's own)
	Peer      bool   `json:"peer"`       // a relay is connected from the start
	Report    int    `json:"report"`     // 0: data bundle; 1..4: a status report (received/forwarded/delivered/deleted) about a bundle this node does not hold
	LatePeer  bool   `json:"late_peer"`  // another relay appears after the delivery
	AgentGone bool   `json:"agent_gone"` // the agent leaves again before that
	Early     bool   `json:"early"`      // the agent is registered BEFORE the bundle arrives (then the hand-over is owed)
}

func TestVerifC07LateRegistration(t *testing.T) {
	u := vk.Unit{Property: "C07", Name: "c07.late-registration",
		Rule: "exhaustive product: algorithm (epidemic, spray, prophet, dtlsr) x endpoint under the node's name or under another node name x relay connected or not x data bundle or a status report (4 kinds) about a bundle the node does not hold x a relay appearing afterwards x the agent leaving before that. The bundle arrives either while an agent is registered for its destination (then it must be handed over exactly once, status reports included) or while NOBODY is registered and waits; in the latter case an agent registers for exactly that endpoint afterwards and retry ticks run. Oracle: the agent receives the bundle at most once (not again on later ticks); once handed over, the bundle is neither pending nor transmitted to a relay that appears later; a bundle for a registered endpoint (status reports included) is handed over, not dropped; every case non-trivial; distinct by tuple"}
	vk.Enumerate(t, u, true, func(yield func(c07Late) bool) {
		i := 0
		bools := []bool{false, true}
		for _, algo := range []string{"epidemic", "spray", "prophet", "dtlsr"} {
			for _, foreign := range bools {
				for _, peer := range bools {
					for rep := 0; rep <= 4; rep++ {
						for _, lp := range bools {
							for _, ag := range bools {
								for _, early := range bools {
									i++
									if !vk.ShardOwns(i) {
										continue
									}
									if !yield(c07Late{algo, foreign, peer, rep, lp, ag, early}) {
										return
									}
								}
							}
						}
					}
				}
			}
		}
	}, func(c *vk.Ctx, cs c07Late) {
		c.NonTrivial()
		s := vfNewSim(c, vfConf(cs.Algo))
		defer s.close()
		ep := vfNodeName + "late"
		if cs.Foreign {
			ep = "dtn://service/inbox"
		}
		if cs.Peer {
			s.addPeer("p0")
		}
		payload := []byte("c07 late registration")
		var b bpv7.Bundle
		var err error
		if cs.Report == 0 {
			b, err = bpv7.Builder().CRC(bpv7.CRC32).Source("dtn://remote/app").Destination(ep).CreationTimestampNow().Lifetime("1h").
				BundleCtrlFlags(0).PayloadBlock(payload).Build()
		} else {
			ref, e2 := bpv7.Builder().CRC(bpv7.CRC32).Source(ep).Destination("dtn://faraway/inbox").ReportTo(ep).CreationTimestampNow().Lifetime("1h").
				BundleCtrlFlags(bpv7.StatusRequestDelivery).PayloadBlock([]byte("referenced, not held by this node")).Build()
			if e2 != nil {
				s.failf("c07.harness", "bundle: %v", e2)
			}
			ref.PrimaryBlock.CreationTimestamp[1] = 4242
			sr := bpv7.NewStatusReport(ref, bpv7.StatusInformationPos(cs.Report-1), bpv7.NoInformation, bpv7.DtnTimeNow())
			ar, e3 := bpv7.AdministrativeRecordToCbor(sr)
			if e3 != nil {
				s.failf("c07.harness", "record: %v", e3)
			}
			b, err = bpv7.Builder().CRC(bpv7.CRC32).BundleCtrlFlags(bpv7.AdministrativeRecordPayload).Source("dtn://faraway/").Destination(ep).
				CreationTimestampNow().Lifetime("1h").Canonical(ar).Build()
			payload = vfPayloadOf(&b)
		}
		if err != nil {
			s.failf("c07.harness", "bundle: %v", err)
		}
		var ag *vfAgent
		if cs.Early {
			ag = vfNewAgent(bpv7.MustNewEndpointID(ep))
			s.logf("an agent registers for %s", ep)
			s.core.RegisterApplicationAgent(ag)
		}
		s.logf("bundle for %s arrives (report kind %d), agent registered: %v", ep, cs.Report, cs.Early)
		s.receive(b)
		s.tickPending()
		if !cs.Early && !s.storeHas(b.ID()) {
			if cs.Peer && cs.Foreign {
				// a bundle for an endpoint of another node name is in transit as long as nobody registered it: the
				// algorithm may have handed it to the relay and let go of it
				c.Class("in transit, handed to the relay before anybody registered")
				return
			}
			s.failf("c07.released-without-handover", "the bundle for %s (no agent registered) is no longer in the store although nobody received it", ep)
		}
		if !cs.Early {
			ag = vfNewAgent(bpv7.MustNewEndpointID(ep))
			s.logf("an agent registers for %s", ep)
			s.core.RegisterApplicationAgent(ag)
		}
		gone := false
		count := func() int {
			if !gone {
				ag.flush()
			}
			n := 0
			for _, g := range ag.received() {
				if bytes.Equal(vfPayloadOf(&g), payload) {
					n++
				}
			}
			return n
		}
		for k := 0; k < 3; k++ {
			s.logf("retry tick")
			s.tickPending()
			s.barrier(s.inlet)
			if n := count(); k >= 0 && n > 1 {
				s.failf("c07.duplicate-delivery", "after retry tick %d the agent registered for %s has received the bundle %d times (one accepted copy)", k+1, ep, n)
			}
		}
		n := count()
		if cs.Early && n != 1 {
			s.failf("c07.not-delivered", "an agent is registered for %s, but it received the bundle addressed to this endpoint %d times (report kind %d)", ep, n, cs.Report)
		}
		// (whether a bundle that arrived before anybody registered is delivered later is not promised by the
		// statement: only that it is delivered at most once, and is done with afterwards)
		c.Classf("registered before arrival: %v, delivered: %v", cs.Early, n == 1)
		if n == 0 {
			return
		}
		for _, bi := range mustPendingSim(s) {
			if bi.BId.String() == b.ID().Scrub().String() {
				s.failf("c07.still-pending", "the bundle was handed to the agent registered for %s but is still marked for retry in the store", ep)
			}
		}
		before := s.nSends()
		if cs.AgentGone {
			s.logf("the agent leaves")
			gone = true
			close(ag.sender)
			sleepMs(2)
		}
		if cs.LatePeer {
			s.logf("relay p1 appears")
			s.addPeer("p1")
			s.tickPending()
			for _, x := range s.sendsSince(before) {
				if x.ID == b.ID().String() {
					s.failf("c07.sent-to-peer", "the bundle had been handed to the agent registered for %s; afterwards it was transmitted to peer %s", ep, x.Peer)
				}
			}
		}
		if n := count(); !cs.AgentGone && n != 1 {
			s.failf("c07.duplicate-delivery", "at the end the agent has received the bundle %d times", n)
		}
	})
}

func mustPendingSim(s *vfSim) []storage.BundleItem {
	bis, err := s.core.store.QueryPending()
	if err != nil {
		s.failf("sim.harness", "QueryPending: %v", err)
	}
	return bis
}
