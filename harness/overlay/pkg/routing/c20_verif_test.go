package routing

import (
	"bytes"
	"fmt"
	"math"
	"sort"
	"testing"

	"github.com/dtn7/dtn7-go/pkg/bpv7"
	vk "github.com/dtn7/dtn7-go/pkg/verifkit"
	"pgregory.net/rapid"
)

// C20 — DTLSR forwards along a least-cost path of the known link-state graph.

type c20Link struct {
	To   int    `json:"to"`   // node index (0 = this node, 1.. = n1..)
	Lost uint64 `json:"lost"` // 0 = live, else: lost that many ms ago
}

type c20Update struct {
	Origin int       `json:"origin"` // node index >= 1
	Age    uint64    `json:"age"`    // the update's timestamp is "reference time - Age"
	Links  []c20Link `json:"links"`
}

type c20Case struct {
	Nodes     int         `json:"nodes"`     // other nodes n1..nNodes
	Neighbors []int       `json:"neighbors"` // own neighbours (node indices)
	LostOwn   []int       `json:"lost_own"`  // own neighbours that disappear again (subset of Neighbors)
	WaitMs    int         `json:"wait_ms"`   // time between the disappearance and the recomputation
	Broadcast int         `json:"broadcast"` // 0 never, 1 = the node broadcasts its own link state before its neighbours disappear, 2 = after
	Updates   []c20Update `json:"updates"`   // in arrival order
	Dest      int         `json:"dest"`      // destination of the unicast data bundle (node index >= 1)
	Demux     bool        `json:"demux"`     // address an application endpoint on the destination node instead of the node ID
	TwoLinks  []int       `json:"two_links,omitempty"` // own neighbours that are connected over two convergence layers
}

func c20Name(i int) string {
	if i == 0 {
		return vfNodeName
	}
	return fmt.Sprintf("dtn://n%d/", i)
}

func c20Peer(i int) string { return fmt.Sprintf("n%d", i) }

func c20Body(c *vk.Ctx, cs c20Case) {
	s := vfNewSim(c, vfConf("dtlsr"))
	defer s.close()
	d := s.core.routing.(*DTLSR)
	ref := dtnNow()
	for _, n := range cs.Neighbors {
		s.addPeer(c20Peer(n))
	}
	for _, n := range cs.TwoLinks {
		s.logf("neighbour n%d is connected over a second convergence layer as well", n)
		s.addSecondLink(c20Peer(n))
	}
	// "broadcast link-state bundles go once to every peer"
	broadcast := func() {
		before := s.nSends()
		s.logf("the node broadcasts its link state")
		d.broadcast()
		got := map[string]int{}
		for _, x := range s.sendsSince(before) {
			if w, err := vk.ReadBundle(x.Raw); err == nil && w.Primary.Dst.String() == dtlsrBroadcastAddress && w.Primary.Src.String() == vfNodeName {
				got[x.Peer]++
			}
		}
		for _, n := range cs.Neighbors {
			pn := c20Peer(n)
			if !s.connected(pn) {
				continue
			}
			if got[pn] != 1 {
				s.failf("c20.broadcast-not-once", "the node's link-state broadcast was handed %d times to the connected neighbour %s (two convergence layers: %v), expected once", got[pn], pn, s.connected(pn+"#2"))
			}
		}
		if len(cs.TwoLinks) > 0 {
			c.Class("broadcast with a neighbour connected over two convergence layers")
		}
	}
	if cs.Broadcast == 1 {
		broadcast()
	}
	for _, n := range cs.LostOwn {
		s.logf("neighbour n%d disappears", n)
		s.dropPeer(c20Peer(n))
	}
	if cs.Broadcast == 2 {
		broadcast()
	}
	// link-state updates from other nodes, in this order
	type upd struct {
		ts    uint64
		peers map[string]uint64
	}
	expect := map[int]*upd{}
	for k, u := range cs.Updates {
		ts := ref - u.Age
		peers := map[bpv7.EndpointID]bpv7.DtnTime{}
		pm := map[string]uint64{}
		for _, l := range u.Links {
			if l.To == u.Origin {
				continue
			}
			var t uint64
			if l.Lost > 0 {
				t = ref - l.Lost
			}
			peers[bpv7.MustNewEndpointID(c20Name(l.To))] = bpv7.DtnTime(t)
			pm[c20Name(l.To)] = t
		}
		src := bpv7.MustNewEndpointID(c20Name(u.Origin))
		data := bpv7.DTLSRPeerData{ID: src, Timestamp: bpv7.DtnTime(ts), Peers: peers}
		b, err := bpv7.Builder().CRC(bpv7.CRC32).Source(src).Destination(dtlsrBroadcastAddress).CreationTimestampNow().Lifetime("1m").
			BundleCtrlFlags(bpv7.MustNotFragmented).Canonical(bpv7.NewDTLSRBlock(data)).PayloadBlock(byte(1)).Build()
		if err != nil {
			s.failf("c20.harness", "link-state bundle: %v", err)
		}
		b.PrimaryBlock.CreationTimestamp[1] = uint64(k)
		s.logf("link state of n%d arrives (timestamp ref-%d, %d links)", u.Origin, u.Age, len(pm))
		s.receive(b)
		// replaced only by data from that node with a newer timestamp
		if e, ok := expect[u.Origin]; !ok || ts > e.ts {
			expect[u.Origin] = &upd{ts, pm}
		}
	}
	if cs.WaitMs > 0 {
		sleepMs(cs.WaitMs)
	}
	t0 := dtnNow()
	d.recomputeCron()
	t1 := dtnNow()

	// the node's knowledge, as observed
	d.dataMutex.RLock()
	own := map[string]uint64{}
	for k, v := range d.peers.Peers {
		own[k.String()] = uint64(v)
	}
	recv := map[string]map[string]uint64{}
	recvTs := map[string]uint64{}
	for id, data := range d.receivedData {
		m := map[string]uint64{}
		for k, v := range data.Peers {
			m[k.String()] = uint64(v)
		}
		recv[id.String()] = m
		recvTs[id.String()] = uint64(data.Timestamp)
	}
	table := map[string]string{}
	for k, v := range d.routingTable {
		table[k.String()] = v.String()
	}
	d.dataMutex.RUnlock()

	// O-updates
	for o, e := range expect {
		id := c20Name(o)
		got, ok := recv[id]
		if !ok {
			s.failf("c20.update-lost", "no link state is retained for n%d although updates arrived", o)
		}
		if recvTs[id] != e.ts || fmt.Sprint(sortedKV(got)) != fmt.Sprint(sortedKV(e.peers)) {
			s.failf("c20.wrong-update-retained", "for n%d the node retains the link state with timestamp %d %v; of the arrived updates the one with the greatest timestamp (first arrival among equals) is %d %v", o, recvTs[id], sortedKV(got), e.ts, sortedKV(e.peers))
		}
	}

	// O-table: independent all-pairs shortest paths over the known graph
	names := map[string]bool{vfNodeName: true}
	for k := range own {
		names[k] = true
	}
	for id, m := range recv {
		if id == vfNodeName {
			continue // the node's own state is what it holds itself, not an old copy of its broadcast
		}
		names[id] = true
		for k := range m {
			names[k] = true
		}
	}
	var nodes []string
	for k := range names {
		nodes = append(nodes, k)
	}
	sort.Strings(nodes)
	idx := map[string]int{}
	for i, n := range nodes {
		idx[n] = i
	}
	N := len(nodes)
	const inf = math.MaxInt64 / 4
	var lastWhy string
	okSome := false
	lost, multi := false, false
	for now := t0; now <= t1 && !okSome; now++ {
		dist := make([][]int64, N)
		for i := range dist {
			dist[i] = make([]int64, N)
			for j := range dist[i] {
				if i != j {
					dist[i][j] = inf
				}
			}
		}
		cost := func(ts uint64) int64 {
			if ts == 0 {
				return 0
			}
			lost = true
			return int64(now - ts)
		}
		direct := map[string]int64{}
		for k, ts := range own {
			cst := cost(ts)
			direct[k] = cst
			if cst < dist[idx[vfNodeName]][idx[k]] {
				dist[idx[vfNodeName]][idx[k]] = cst
			}
		}
		for id, m := range recv {
			if id == vfNodeName {
				continue
			}
			for k, ts := range m {
				if cst := cost(ts); cst < dist[idx[id]][idx[k]] {
					dist[idx[id]][idx[k]] = cst
				}
			}
		}
		for k := 0; k < N; k++ {
			for i := 0; i < N; i++ {
				for j := 0; j < N; j++ {
					if dist[i][k] < inf && dist[k][j] < inf && dist[i][k]+dist[k][j] < dist[i][j] {
						dist[i][j] = dist[i][k] + dist[k][j]
					}
				}
			}
		}
		me := idx[vfNodeName]
		why := ""
		for _, n := range nodes {
			if n == vfNodeName {
				continue
			}
			nh, has := table[n]
			reach := dist[me][idx[n]] < inf
			switch {
			case reach && !has:
				why = fmt.Sprintf("%s is reachable (cost %d) but has no routing table entry", n, dist[me][idx[n]])
			case !reach && has:
				why = fmt.Sprintf("%s is not reachable but the routing table names %s as next hop", n, nh)
			case reach:
				dc, isNb := direct[nh]
				if !isNb {
					why = fmt.Sprintf("next hop %s for %s is none of the node's own (current or lost) neighbours", nh, n)
				} else if dc+dist[idx[nh]][idx[n]] != dist[me][idx[n]] {
					why = fmt.Sprintf("next hop %s for %s: cost to it %d + its distance %d = %d, but the least cost is %d", nh, n, dc, dist[idx[nh]][idx[n]], dc+dist[idx[nh]][idx[n]], dist[me][idx[n]])
				}
				// more than one route of distinct cost?
				for k, c2 := range direct {
					if k != nh && dist[idx[k]][idx[n]] < inf && c2+dist[idx[k]][idx[n]] != dist[me][idx[n]] {
						multi = true
					}
				}
			}
			if why != "" {
				break
			}
		}
		for k := range table {
			if !names[k] {
				why = fmt.Sprintf("routing table has an entry for the unknown node %s", k)
			}
		}
		if why == "" {
			okSome = true
		}
		lastWhy = why
	}
	if !okSome {
		s.failf("c20.routing-table", "the routing table %v is not a least-cost table of the known graph (own links %v, received %v) for any instant in [%d,%d]: %s", table, own, recv, t0, t1, lastWhy)
	}
	if lost && multi {
		c.NonTrivial()
	}
	c.Classf("nodes=%d", N)

	// O-forwarding: a unicast bundle is handed only to the table's next hop (and then released)
	destNode := c20Name(1 + (cs.Dest-1)%cs.Nodes)
	dest := destNode
	if cs.Demux {
		dest += "inbox"
	}
	if _, isPeer := own[destNode]; isPeer && s.connected(c20Peer(1+(cs.Dest-1)%cs.Nodes)) {
		c.Class("destination is a connected neighbour (direct delivery, not asserted here)")
		return
	}
	payload := []byte("c20 unicast bundle")
	b, err := bpv7.Builder().CRC(bpv7.CRC32).Source("dtn://remote/app").Destination(dest).CreationTimestampNow().Lifetime("1h").BundleCtrlFlags(0).PayloadBlock(payload).Build()
	if err != nil {
		s.failf("c20.harness", "bundle: %v", err)
	}
	before := s.nSends()
	s.receive(b)
	var to []string
	for _, x := range s.sendsSince(before) {
		if w, err := vk.ReadBundle(x.Raw); err == nil {
			if p, _ := w.Payload(); bytes.Equal(p, payload) {
				dup := false
				for _, y := range to {
					if y == x.Peer {
						dup = true // the same neighbour over its second convergence layer
					}
				}
				if !dup {
					to = append(to, x.Peer)
				}
			}
		}
	}
	nh, has := table[dest]
	switch {
	case len(to) > 1:
		s.failf("c20.unicast-to-many", "the unicast bundle for %s was handed to %v", dest, to)
	case len(to) == 1 && (!has || "dtn://"+to[0]+"/" != nh):
		s.failf("c20.unicast-wrong-hop", "the unicast bundle for %s was handed to %s, the routing table's next hop is %q (entry present: %v)", dest, to[0], nh, has)
	case len(to) == 1:
		c.Class("unicast forwarded to the next hop")
		if s.storeHas(b.ID()) {
			s.failf("c20.not-released", "the unicast bundle was handed to its next hop successfully but is still in the store")
		}
	default:
		c.Class("unicast not forwarded (no entry / next hop not connected)")
		if has && s.connected(peerOfNode(nh)) {
			s.failf("c20.unicast-not-forwarded", "the routing table names the connected neighbour %s as next hop for %s, but the bundle was not handed to it", nh, dest)
		}
	}
}

func peerOfNode(eid string) string {
	// "dtn://n3/" -> "n3"
	if len(eid) > 7 {
		return eid[6 : len(eid)-1]
	}
	return ""
}

func sortedKV(m map[string]uint64) []string {
	var out []string
	for k, v := range m {
		out = append(out, fmt.Sprintf("%s=%d", k, v))
	}
	sort.Strings(out)
	return out
}

func genC20(t *rapid.T) c20Case {
	n := rapid.IntRange(1, 7).Draw(t, "nodes")
	cs := c20Case{Nodes: n, Dest: rapid.IntRange(1, n).Draw(t, "dest"), Demux: rapid.IntRange(0, 3).Draw(t, "demux") == 0,
		WaitMs: rapid.SampledFrom([]int{0, 0, 2, 20}).Draw(t, "wait"), Broadcast: rapid.SampledFrom([]int{0, 0, 1, 2}).Draw(t, "bc")}
	all := make([]int, n)
	for i := range all {
		all[i] = i + 1
	}
	perm := rapid.Permutation(all).Draw(t, "perm")
	k := rapid.IntRange(0, len(perm)).Draw(t, "nneigh")
	if k > 4 {
		k = 4
	}
	cs.Neighbors = perm[:k]
	for _, nb := range cs.Neighbors {
		if rapid.IntRange(0, 2).Draw(t, "lostown") == 0 {
			cs.LostOwn = append(cs.LostOwn, nb)
		}
	}
	for _, nb := range cs.Neighbors {
		if rapid.IntRange(0, 5).Draw(t, "twolinks") == 0 {
			cs.TwoLinks = append(cs.TwoLinks, nb)
		}
	}
	// most of the time the data bundle is for a node that is no direct neighbour, and the neighbours tell about routes
	if k < n && rapid.IntRange(0, 4).Draw(t, "fardest") > 0 {
		cs.Dest = perm[k+rapid.IntRange(0, n-k-1).Draw(t, "destidx")]
		cs.Demux = false
	}
	nu := rapid.IntRange(0, 8).Draw(t, "nupdates")
	ages := []uint64{1, 2, 5, 50, 1000, 60000, 3600000}
	for i := 0; i < nu; i++ {
		u := c20Update{Origin: rapid.IntRange(1, n).Draw(t, "origin"), Age: rapid.SampledFrom(ages).Draw(t, "age")}
		if k > 0 && rapid.Bool().Draw(t, "fromneighbour") {
			u.Origin = cs.Neighbors[rapid.IntRange(0, k-1).Draw(t, "nbidx")]
		}
		nl := rapid.IntRange(0, 4).Draw(t, "nlinks")
		for j := 0; j < nl; j++ {
			l := c20Link{To: rapid.IntRange(0, n).Draw(t, "to")}
			if rapid.Bool().Draw(t, "lost") {
				l.Lost = rapid.SampledFrom([]uint64{1, 3, 10, 500, 1000, 90000, 7200000}).Draw(t, "lostago")
			}
			u.Links = append(u.Links, l)
		}
		cs.Updates = append(cs.Updates, u)
	}
	// in two thirds of the cases some neighbours announce a route towards the destination (directly or
	// through one more node), so that the positive side of the forwarding clause is exercised
	if k > 0 && rapid.IntRange(0, 2).Draw(t, "routes") > 0 {
		nr := rapid.IntRange(1, 2).Draw(t, "nroutes")
		for r := 0; r < nr; r++ {
			nb := cs.Neighbors[rapid.IntRange(0, k-1).Draw(t, "routenb")]
			lost := func() uint64 {
				if rapid.IntRange(0, 2).Draw(t, "routelost") == 0 {
					return rapid.SampledFrom([]uint64{1, 3, 10, 500, 1000, 90000}).Draw(t, "routelostago")
				}
				return 0
			}
			var ups []c20Update
			if n >= 3 && rapid.Bool().Draw(t, "viamid") {
				mid := rapid.IntRange(1, n).Draw(t, "mid")
				ups = append(ups, c20Update{Origin: nb, Age: 1, Links: []c20Link{{To: mid, Lost: lost()}}})
				ups = append(ups, c20Update{Origin: mid, Age: 2, Links: []c20Link{{To: cs.Dest, Lost: lost()}}})
			} else {
				ups = append(ups, c20Update{Origin: nb, Age: 1, Links: []c20Link{{To: cs.Dest, Lost: lost()}}})
			}
			for _, up := range ups {
				pos := rapid.IntRange(0, len(cs.Updates)).Draw(t, "routepos")
				cs.Updates = append(cs.Updates[:pos], append([]c20Update{up}, cs.Updates[pos:]...)...)
			}
		}
	}
	return cs
}

func TestVerifC20Graphs(t *testing.T) {
	u := vk.Unit{Property: "C20", Name: "c20.graphs", Quick: 900, Thorough: 30000,
		Rule: "directed link-state graphs on up to 8 nodes: the node's own neighbours appear (and some disappear again 0/2/20 ms before the recomputation), other nodes' link state arrives as DTLSR-block bundles (0..8 updates, several per origin with distinct and equal timestamps, links live or lost 1 ms .. 2 h ago) in generated order; then the recompute job runs; oracle: (a) per origin the retained link state is the update with the greatest timestamp (first arrival among equals); (b) an independent Floyd-Warshall over the graph the node holds (observed state), evaluated for every millisecond in the bracket around the recomputation: the table has an entry exactly for the reachable nodes and every next hop is an own neighbour on a least-cost path; (c) a unicast bundle is handed only to the table's next hop and then released; (d) the node's own link-state broadcast is handed exactly once to every connected neighbour, also to one connected over two convergence layers; non-trivial = graph with >= 1 lost link and >= 2 routes of distinct cost to some node; distinct by case hash"}
	vk.Check(t, u, genC20, c20Body)
}
