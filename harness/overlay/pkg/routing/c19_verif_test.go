package routing

import (
	"bytes"
	"fmt"
	"math"
	"sort"
	"sync"
	"testing"
	"time"

	"github.com/dtn7/dtn7-go/pkg/bpv7"
	"github.com/dtn7/dtn7-go/pkg/cla"
	vk "github.com/dtn7/dtn7-go/pkg/verifkit"
	"pgregory.net/rapid"
)

// C19 — PRoPHET predictabilities stay probabilities and gate forwarding.

var c19Special = []uint64{
	0,                  // 0
	0x3FF0000000000000, // 1
	0x0000000000000001, // smallest denormal
	0x3FEFFFFFFFFFFFFF, // 1 - 2^-53
	0x3FE0000000000000, // 0.5
	0x0010000000000000, // smallest normal
	0x3FB999999999999A, // 0.1
	0x3FEFAE147AE147AE, // 0.99
}

func genProb() *rapid.Generator[uint64] {
	return rapid.OneOf(rapid.SampledFrom(c19Special), rapid.Custom(func(t *rapid.T) uint64 {
		return math.Float64bits(rapid.Float64Range(0, 1).Draw(t, "p"))
	}))
}

type c19Step struct {
	Op   string   `json:"op"` // encounter, age, vector
	Peer int      `json:"peer"`
	Vec  []uint64 `json:"vec,omitempty"` // bit patterns of the advertised predictabilities for nodes 0..len-1
}

type c19MathCase struct {
	PInit uint64    `json:"pinit"`
	Beta  uint64    `json:"beta"`
	Gamma uint64    `json:"gamma"`
	Nodes int       `json:"nodes"`
	Steps []c19Step `json:"steps"`
	Reps  int       `json:"reps"` // the step list is repeated this often (long sequences)
}

func c19Node(i int) bpv7.EndpointID { return bpv7.MustNewEndpointID(fmt.Sprintf("dtn://n%d/", i)) }

func c19MathBody(c *vk.Ctx, cs c19MathCase) {
	p := &Prophet{
		predictabilities:     map[bpv7.EndpointID]float64{},
		peerPredictabilities: map[bpv7.EndpointID]map[bpv7.EndpointID]float64{},
		config:               ProphetConfig{PInit: math.Float64frombits(cs.PInit), Beta: math.Float64frombits(cs.Beta), Gamma: math.Float64frombits(cs.Gamma)},
	}
	snapshot := func() map[bpv7.EndpointID]float64 {
		m := make(map[bpv7.EndpointID]float64, len(p.predictabilities))
		for k, v := range p.predictabilities {
			m[k] = v
		}
		return m
	}
	kinds := map[string]bool{}
	total := 0
	for r := 0; r < cs.Reps; r++ {
		for k, st := range cs.Steps {
			total++
			peer := c19Node(st.Peer % cs.Nodes)
			before := snapshot()
			switch st.Op {
			case "encounter":
				p.dataMutex.Lock()
				p.encounter(peer)
				p.dataMutex.Unlock()
			case "age":
				p.ageCron()
			case "vector":
				vec := map[bpv7.EndpointID]float64{}
				for i, bits := range st.Vec {
					vec[c19Node(i%cs.Nodes)] = math.Float64frombits(bits)
				}
				p.dataMutex.Lock()
				p.peerPredictabilities[peer] = vec
				p.transitivity(peer)
				p.dataMutex.Unlock()
			}
			kinds[st.Op] = true
			after := snapshot()
			where := fmt.Sprintf("repetition %d, step %d (%s, peer n%d), constants PInit=%v Beta=%v Gamma=%v", r, k, st.Op, st.Peer%cs.Nodes, p.config.PInit, p.config.Beta, p.config.Gamma)
			for id, v := range after {
				if math.IsNaN(v) || v < 0 || v > 1 {
					c.Failf("c19.out-of-range", "%s: predictability for %s is %v", where, id, v)
				}
				old := before[id]
				switch st.Op {
				case "encounter":
					if id == peer && v < old {
						c.Failf("c19.encounter-lowers", "%s: an encounter lowered the predictability for %s from %v to %v", where, id, old, v)
					}
					if id != peer && v != old {
						c.Failf("c19.encounter-touches-others", "%s: an encounter with %s changed the predictability for %s", where, peer, id)
					}
				case "age":
					if v > old {
						c.Failf("c19.ageing-raises", "%s: ageing raised the predictability for %s from %v to %v", where, id, old, v)
					}
				case "vector":
					if v < old {
						c.Failf("c19.transitivity-lowers", "%s: the transitive update lowered the predictability for %s from %v to %v", where, id, old, v)
					}
				}
			}
		}
	}
	if len(kinds) == 3 {
		c.NonTrivial()
	}
	switch {
	case total >= 1000:
		c.Class("steps>=1000")
	case total >= 100:
		c.Class("steps>=100")
	default:
		c.Class("steps<100")
	}
}

func TestVerifC19Math(t *testing.T) {
	u := vk.Unit{Property: "C19", Name: "c19.math", Quick: 3000, Thorough: 200000,
		Rule: "sequences of {encounter peer, ageing tick, summary vector received from peer} (5..60 steps, repeated 1..100 times, up to 5000 steps) on the real Prophet's update functions; PInit, Beta, Gamma and every advertised value drawn from {0, 1, smallest denormal, smallest normal, 1-2^-53, 0.1, 0.5, 0.99, uniform [0,1]}; after every step the node's own vector (snapshot) is checked: all values in [0,1] and not NaN, an encounter never lowers the peer's value (and touches no other), ageing never raises a value, the transitive update never lowers one; non-trivial = sequence with all three step kinds; distinct by case hash"}
	vk.Check(t, u, func(t *rapid.T) c19MathCase {
		nodes := rapid.IntRange(1, 5).Draw(t, "nodes")
		return c19MathCase{PInit: genProb().Draw(t, "pinit"), Beta: genProb().Draw(t, "beta"), Gamma: genProb().Draw(t, "gamma"), Nodes: nodes,
			Reps: rapid.SampledFrom([]int{1, 1, 1, 3, 20, 100}).Draw(t, "reps"),
			Steps: rapid.SliceOfN(rapid.Custom(func(t *rapid.T) c19Step {
				st := c19Step{Op: rapid.SampledFrom([]string{"encounter", "encounter", "age", "vector", "vector"}).Draw(t, "op"), Peer: rapid.IntRange(0, nodes-1).Draw(t, "peer")}
				if st.Op == "vector" {
					st.Vec = rapid.SliceOfN(genProb(), 0, nodes).Draw(t, "vec")
				}
				return st
			}), 5, 60).Draw(t, "steps")}
	}, c19MathBody)
}

// ---- the forwarding rule ----

type c19FwdCase struct {
	Own   int   `json:"own"`   // index into c19Levels for the node's own predictability for the destination (-1: unknown)
	Peers []int `json:"peers"` // per peer: index into c19Levels of its advertised value (-1: the peer advertised nothing, -2: advertised a vector without the destination)
	// Earlier[i] lists the vectors peer i had sent BEFORE the one described by Peers[i] (same coding,
	// -1 entries are skipped): a peer's latest vector is what it advertises
	Earlier [][]int `json:"earlier,omitempty"`
	Local   bool    `json:"local"`
}

var c19Levels = []float64{0, math.SmallestNonzeroFloat64, 0.25, 0.5, 0.5000000000000001, 0.75, 1 - 1.0/(1<<53), 1}

func c19FwdBody(c *vk.Ctx, cs c19FwdCase) {
	s := vfNewSim(c, vfConf("prophet"))
	defer s.close()
	p := s.core.routing.(*Prophet)
	dest := bpv7.MustNewEndpointID("dtn://faraway/inbox")
	var names []string
	var model []int // per peer: level index of the value it advertises for the destination (-1 / -2: none)
	for i, lv := range cs.Peers {
		n := fmt.Sprintf("p%d", i)
		names = append(names, n)
		s.addPeer(n)
		seq := uint64(100 + 10*i)
		send := func(lv int) {
			seq++
			switch {
			case lv >= 0:
				s.receive(vfProphetMetadata("dtn://"+n+"/", vfNodeName, map[string]float64{"dtn://faraway/inbox": c19Levels[lv], "dtn://other/": 0.3}, seq))
			case lv == -2:
				s.receive(vfProphetMetadata("dtn://"+n+"/", vfNodeName, map[string]float64{"dtn://other/": 0.3}, seq))
			}
		}
		if i < len(cs.Earlier) {
			for _, e := range cs.Earlier[i] {
				send(e)
			}
			if len(cs.Earlier[i]) > 0 && lv != -1 {
				c.Class("a peer sent several vectors")
			}
		}
		send(lv)
		// what the peer advertises now: its latest vector (an earlier one stays in force only if none followed)
		last := lv
		if lv == -1 && i < len(cs.Earlier) {
			for _, e := range cs.Earlier[i] {
				if e != -1 {
					last = e
				}
			}
		}
		model = append(model, last)
	}
	// the node's own value for the destination is set last (receiving vectors has moved it)
	p.dataMutex.Lock()
	if cs.Own >= 0 {
		p.predictabilities[dest] = c19Levels[cs.Own]
	} else {
		delete(p.predictabilities, dest)
	}
	p.dataMutex.Unlock()
	// the node's own value as observed (never a recomputation); the peers' values as they advertised them
	p.dataMutex.RLock()
	own := p.predictabilities[dest]
	p.dataMutex.RUnlock()
	adv := map[string]float64{}
	known := map[string]bool{}
	for i, n := range names {
		if model[i] >= 0 {
			adv[n], known[n] = c19Levels[model[i]], true
		}
	}
	src := "dtn://remote/app"
	if cs.Local {
		src = vfNodeName + "app"
	}
	b, err := bpv7.Builder().CRC(bpv7.CRC32).Source(src).Destination(dest).CreationTimestampNow().Lifetime("1h").BundleCtrlFlags(0).PayloadBlock([]byte("c19 data bundle")).Build()
	if err != nil {
		s.failf("c19.harness", "bundle: %v", err)
	}
	before := s.nSends()
	if cs.Local {
		s.submit(b)
	} else {
		s.receive(b)
	}
	got := map[string]bool{}
	for _, x := range s.sendsSince(before) {
		if w, err := vk.ReadBundle(x.Raw); err == nil {
			if pay, _ := w.Payload(); bytes.Equal(pay, []byte("c19 data bundle")) {
				got[x.Peer] = true
			}
		}
	}
	tie := false
	for i, n := range names {
		want := known[n] && adv[n] > own
		if known[n] && adv[n] == own {
			tie = true
		}
		if got[n] != want {
			s.failf("c19.forwarding-rule", "own predictability for the destination: %v (known: %v); peer %s advertised %v (known: %v, level index %d): bundle offered to the peer = %v, the rule 'strictly greater' says %v", own, cs.Own >= 0, n, adv[n], known[n], cs.Peers[i], got[n], want)
		}
	}
	if tie {
		c.NonTrivial()
		c.Class("tie")
	}
	c.Classf("peers=%d", len(names))
}

func TestVerifC19Forwarding(t *testing.T) {
	u := vk.Unit{Property: "C19", Name: "c19.forwarding", Quick: 250, Thorough: 8000,
		Rule: "1..4 connected peers, each having advertised (through a real metadata bundle) a predictability for the bundle's destination from {0, denormal, 0.25, 0.5, 0.5+ulp, 0.75, 1-2^-53, 1}, or no vector, or a vector without the destination, optionally preceded by 1..2 earlier vectors of the same peer (the latest vector is what a peer advertises); the node's own value from the same set or unknown; a data bundle (received or locally submitted) for a destination that is not connected; oracle: a peer's log contains the bundle iff advertised(peer, destination) > own(destination), using the node's own value observed at that moment and the peers' values as they advertised them; non-trivial = some peer ties with the node; distinct by case hash"}
	vk.Check(t, u, func(t *rapid.T) c19FwdCase {
		own := rapid.IntRange(-1, len(c19Levels)-1).Draw(t, "own")
		n := rapid.IntRange(1, 4).Draw(t, "n")
		cs := c19FwdCase{Own: own, Local: rapid.Bool().Draw(t, "local")}
		for i := 0; i < n; i++ {
			lv := rapid.IntRange(-2, len(c19Levels)-1).Draw(t, "lv")
			if own >= 0 && rapid.IntRange(0, 3).Draw(t, "tie") == 0 {
				lv = own
			}
			cs.Peers = append(cs.Peers, lv)
			var earlier []int
			if rapid.IntRange(0, 2).Draw(t, "multi") == 0 {
				earlier = rapid.SliceOfN(rapid.IntRange(-2, len(c19Levels)-1), 1, 2).Draw(t, "earlier")
			}
			cs.Earlier = append(cs.Earlier, earlier)
		}
		return cs
	}, c19FwdBody)
}

// ---- a metadata bundle handed to a convergence layer is not modified afterwards ----

type vfKeepPeer struct {
	*vfPeer
	mu   sync.Mutex
	kept []bpv7.Bundle
	raw  [][]byte
}

func (k *vfKeepPeer) Send(b bpv7.Bundle) error {
	var buf bytes.Buffer
	_ = b.WriteBundle(&buf)
	k.mu.Lock()
	k.kept = append(k.kept, b)
	k.raw = append(k.raw, append([]byte(nil), buf.Bytes()...))
	k.mu.Unlock()
	return k.vfPeer.Send(b)
}

func c19ProphetPairs(raw []byte) []string {
	w, err := vk.ReadBundle(raw)
	if err != nil {
		return nil
	}
	var out []string
	for _, b := range w.Blocks {
		if b.Type == vk.BTProphet {
			it, err := vk.DecodeItem(b.Data, 0)
			if err != nil {
				return nil
			}
			for i := 0; i+1 < len(it.Items); i += 2 {
				out = append(out, fmt.Sprintf("%x=%x", b.Data[it.Items[i].Start:it.Items[i].End], it.Items[i+1].Arg))
			}
		}
	}
	sort.Strings(out)
	return out
}

type c19AliasCase struct {
	Later []string `json:"later"` // events after the metadata bundle was handed over: encounter, age, vector
}

func c19AliasBody(c *vk.Ctx, cs c19AliasCase) {
	s := vfNewSim(c, vfConf("prophet"))
	defer s.close()
	// a peer whose convergence layer keeps the bundle it was given (like a CLA with a send queue)
	base := &vfPeer{sim: s, name: "keeper", eid: bpv7.MustNewEndpointID("dtn://keeper/"), addr: "vf://keeper", ch: make(chan cla.ConvergenceStatus)}
	kp := &vfKeepPeer{vfPeer: base}
	s.peers["keeper"] = base
	s.order = append(s.order, "keeper")
	s.core.RegisterConvergable(kp)
	s.waitRegistered(base.addr)
	base.ch <- cla.NewConvergencePeerAppeared(kp, base.eid)
	s.barrier(base)
	kp.mu.Lock()
	n := len(kp.kept)
	kp.mu.Unlock()
	if n == 0 {
		s.failf("c19.harness", "no metadata bundle was sent to the appearing peer")
	}
	p := s.core.routing.(*Prophet)
	for i, ev := range cs.Later {
		switch ev {
		case "encounter":
			s.addPeer(fmt.Sprintf("q%d", i))
		case "age":
			p.ageCron()
		case "vector":
			s.receive(vfProphetMetadata("dtn://keeper/", vfNodeName, map[string]float64{fmt.Sprintf("dtn://x%d/", i): 0.7}, uint64(500+i)))
		}
	}
	c.NonTrivial()
	kp.mu.Lock()
	defer kp.mu.Unlock()
	for i := range kp.kept {
		if !kp.kept[i].HasExtensionBlock(bpv7.ExtBlockTypeProphetBlock) {
			continue
		}
		var buf bytes.Buffer
		if err := kp.kept[i].WriteBundle(&buf); err != nil {
			s.failf("c19.metadata-aliased", "the metadata bundle handed to the convergence layer cannot be serialised any more: %v", err)
		}
		a, b := c19ProphetPairs(kp.raw[i]), c19ProphetPairs(buf.Bytes())
		if fmt.Sprint(a) != fmt.Sprint(b) {
			s.failf("c19.metadata-aliased", "the metadata bundle handed to the convergence layer changed after further events %v: its vector had %d entries when it was handed over and %d now - the block shares the node's live map, so a convergence layer serialising it races with the updates", cs.Later, len(a), len(b))
		}
	}
}

func TestVerifC19Aliasing(t *testing.T) {
	u := vk.Unit{Property: "C19", Name: "c19.aliasing", Quick: 40, Thorough: 1500,
		Rule: "a peer appears and gets the node's summary vector; its convergence layer keeps the bundle object; then 1..5 further events (encounter of another peer, ageing tick, vector received) happen; the kept bundle is serialised again and its vector must be what it was at hand-over (a bundle that is still mutated is exactly the situation in which a convergence layer's serialisation races with the updates); every case non-trivial; distinct by case hash"}
	vk.Check(t, u, func(t *rapid.T) c19AliasCase {
		return c19AliasCase{Later: rapid.SliceOfN(rapid.SampledFrom([]string{"encounter", "age", "vector"}), 1, 5).Draw(t, "later")}
	}, c19AliasBody)
}

// ---- concurrent peer-appeared / metadata-received / ageing / forwarding ----

func TestVerifC19Stress(t *testing.T) {
	dur := 3 * time.Second
	if vk.Tier() == "thorough" {
		dur = 20 * time.Second
	}
	u := vk.Unit{Property: "C19", Name: "c19.stress",
		Rule: "stress: for 3 s (thorough 20 s) goroutines concurrently make peers appear (summary vectors are sent and serialised inside the scripted convergence layers' own goroutines), deliver peers' vectors, run the ageing job and forward data bundles on a real Core that knows 3000 other nodes; the process must survive (a 'concurrent map' fatal error kills the test binary, which the driver reports as a violation with this case); non-trivial = the run completed with >= 100 events; distinct by round"}
	rounds := 2
	vk.Enumerate(t, u, false, func(yield func(int) bool) {
		for r := 0; r < rounds; r++ {
			if !yield(r) {
				return
			}
		}
	}, func(c *vk.Ctx, round int) {
		s := vfNewSim(c, vfConf("prophet"))
		defer s.close()
		p := s.core.routing.(*Prophet)
		stop := make(chan struct{})
		var wg sync.WaitGroup
		var events int64
		var mu sync.Mutex
		count := func() { mu.Lock(); events++; mu.Unlock() }
		for i := 0; i < 4; i++ {
			s.addPeer(fmt.Sprintf("p%d", i))
		}
		// a node that knows many others: its table takes a while to age and to copy into a summary vector
		big := map[string]float64{}
		for k := 0; k < 3000; k++ {
			big[fmt.Sprintf("dtn://known%d/", k)] = 0.5
		}
		s.receive(vfProphetMetadata("dtn://p0/", vfNodeName, big, 9999))
		// vectors arriving
		wg.Add(1)
		go func() {
			defer wg.Done()
			for k := 0; ; k++ {
				select {
				case <-stop:
					return
				default:
				}
				s.inlet.ch <- cla.NewConvergenceReceivedBundle(vfInlet{s.inlet}, s.nodeID, func() *bpv7.Bundle {
					b := vfProphetMetadata(fmt.Sprintf("dtn://p%d/", k%4), vfNodeName, map[string]float64{fmt.Sprintf("dtn://d%d/", k%50): 0.5, "dtn://faraway/inbox": 0.9}, uint64(10000+k))
					return &b
				}())
				count()
			}
		}()
		// peers appearing again and again (the node answers with its vector)
		wg.Add(1)
		go func() {
			defer wg.Done()
			for k := 0; ; k++ {
				select {
				case <-stop:
					return
				default:
				}
				pp := s.peers[fmt.Sprintf("p%d", k%4)]
				p.ReportPeerAppeared(pp)
				count()
			}
		}()
		// ageing
		wg.Add(1)
		go func() {
			defer wg.Done()
			for {
				select {
				case <-stop:
					return
				default:
				}
				p.ageCron()
				count()
				time.Sleep(200 * time.Microsecond)
			}
		}()
		// data bundles being forwarded
		wg.Add(1)
		go func() {
			defer wg.Done()
			for k := 0; ; k++ {
				select {
				case <-stop:
					return
				default:
				}
				b, _ := bpv7.Builder().CRC(bpv7.CRC32).Source(vfNodeName + "app").Destination("dtn://faraway/inbox").CreationTimestampNow().Lifetime("1h").BundleCtrlFlags(0).PayloadBlock([]byte("stress")).Build()
				s.submit(b)
				count()
				time.Sleep(2 * time.Millisecond) // keeps the number of stored bundles moderate
			}
		}()
		time.Sleep(dur / time.Duration(rounds))
		close(stop)
		// unblock the producer of received bundles if the handler is busy
		done := make(chan struct{})
		go func() { wg.Wait(); close(done) }()
		select {
		case <-done:
		case <-time.After(30 * time.Second):
			s.failf("c19.stuck", "the node did not come to rest within 30 s after the stress")
		}
		s.barrier(s.inlet) // everything queued has been processed before the node is closed
		mu.Lock()
		n := events
		mu.Unlock()
		if n >= 100 {
			c.NonTrivial(fmt.Sprintf("round-%d", round))
		}
		c.Classf("events>=%d", (n/1000)*1000)
	})
}
