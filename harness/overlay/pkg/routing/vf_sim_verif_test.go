package routing

import (
	"bytes"
	"fmt"
	"io"
	"os"
	"sync"
	"strings"
	"sync/atomic"
	"time"

	log "github.com/sirupsen/logrus"

	"github.com/dtn7/dtn7-go/pkg/agent"
	"github.com/dtn7/dtn7-go/pkg/bpv7"
	"github.com/dtn7/dtn7-go/pkg/cla"
	vk "github.com/dtn7/dtn7-go/pkg/verifkit"
)

// The node simulator of the /verif harness: a real Core on a scratch store with scripted
// convergence layers and application agents. Every run is a pure function of the history
// that the harness plays: the Core's own cron jobs are unregistered and the functions they
// would call are invoked by the harness as explicit events.

func init() {
	log.SetOutput(io.Discard)
	log.SetLevel(log.PanicLevel)
	if os.Getenv("VERIF_DEBUG_LOG") != "" {
		// for triage only: the nodes' own log on stderr
		log.SetOutput(os.Stderr)
		log.SetLevel(log.InfoLevel)
	}
}

var vfRegOnce sync.Once

// vfRegisterBlocks registers the routing algorithms' block types once per process, so that
// the behaviour of a case does not depend on which algorithm ran before it.
func vfRegisterBlocks() {
	if os.Getenv("VERIF_FRESH_NODE") != "" {
		// the child of the fresh-process units: only what dtn7 registers itself is registered
		return
	}
	vfRegOnce.Do(func() {
		m := bpv7.GetExtensionBlockManager()
		_ = m.Register(bpv7.NewBinarySprayBlock(0))
		_ = m.Register(bpv7.NewDTLSRBlock(bpv7.DTLSRPeerData{}))
		_ = m.Register(bpv7.NewProphetBlock(nil))
	})
}

// vfSend is one observed call of a convergence sender's Send.
type vfSend struct {
	Peer  string // peer name
	Raw   []byte // the bundle as serialised inside Send
	ID    string // bundle ID on the wire
	OK    bool   // outcome reported to the node
	Seq   int    // global order
	Gen   int    // incarnation of the node (incremented by a restart)
	At    time.Time
	Panic string
}

// vfPeer is a scripted convergence sender (and the channel through which the harness
// injects events that a real CLA would report).
type vfPeer struct {
	sim     *vfSim
	name    string
	eid     bpv7.EndpointID
	addr    string
	ch      chan cla.ConvergenceStatus
	mu      sync.Mutex
	script  []bool // outcomes of the next sends (true = success); empty = success
	idScript map[string][]bool // outcomes of the next sends of one bundle (by wire ID)
	failAll bool
	gone    int32
	closed  int32
	hold    chan struct{} // if non-nil every Send waits here before it returns
	gate    func()        // if non-nil every Send calls it right before it returns (rendezvous of simultaneous sends)
}

func (p *vfPeer) Start() (error, bool) {
	if atomic.LoadInt32(&p.gone) != 0 {
		return fmt.Errorf("peer is gone"), false
	}
	return nil, false
}
func (p *vfPeer) Close() error {
	atomic.StoreInt32(&p.closed, 1)
	return nil
}
func (p *vfPeer) Channel() chan cla.ConvergenceStatus { return p.ch }
func (p *vfPeer) Address() string                     { return p.addr }
func (p *vfPeer) IsPermanent() bool                   { return false }
func (p *vfPeer) GetPeerEndpointID() bpv7.EndpointID  { return p.eid }
func (p *vfPeer) String() string                      { return "vfPeer(" + p.name + ")" }

func (p *vfPeer) Send(b bpv7.Bundle) (err error) {
	// a real convergence layer serialises the bundle inside Send
	var buf bytes.Buffer
	werr := b.WriteBundle(&buf)
	s := vfSend{Peer: p.name, Raw: append([]byte(nil), buf.Bytes()...)}
	if werr == nil {
		if w, e := vk.ReadBundle(s.Raw); e == nil {
			s.ID = w.ID()
		}
	} else {
		s.Panic = "WriteBundle: " + werr.Error()
	}
	p.mu.Lock()
	ok := true
	if p.failAll {
		ok = false
	} else if sc, has := p.idScript[s.ID]; has && len(sc) > 0 {
		// outcomes scripted for one particular bundle
		ok, p.idScript[s.ID] = sc[0], sc[1:]
	} else if len(p.script) > 0 {
		ok, p.script = p.script[0], p.script[1:]
	}
	hold := p.hold
	gate := p.gate
	p.mu.Unlock()
	if werr != nil {
		ok = false
	}
	s.OK = ok
	p.sim.record(s)
	if hold != nil {
		<-hold
	}
	if gate != nil {
		gate()
	}
	if !ok {
		return fmt.Errorf("scripted send failure")
	}
	return nil
}

// vfAgent is a mock application agent.
type vfAgent struct {
	eids     []bpv7.EndpointID
	receiver chan agent.Message
	sender   chan agent.Message
	mu       sync.Mutex
	got      []bpv7.Bundle
	notify   chan struct{}
}

func vfNewAgent(eids ...bpv7.EndpointID) *vfAgent {
	a := &vfAgent{eids: eids, receiver: make(chan agent.Message), sender: make(chan agent.Message), notify: make(chan struct{}, 1024)}
	go func() {
		for m := range a.receiver {
			if bm, ok := m.(agent.BundleMessage); ok {
				a.mu.Lock()
				a.got = append(a.got, bm.Bundle)
				a.mu.Unlock()
				select {
				case a.notify <- struct{}{}:
				default:
				}
			}
			if f, ok := m.(vfFlushMsg); ok {
				close(f.done)
			}
			if _, ok := m.(agent.ShutdownMessage); ok {
				return
			}
		}
	}()
	return a
}

// vfFlushMsg is sent by the harness straight into a mock agent's channel: the agent works through its
// messages one after the other, so once it has answered, everything handed to it before is recorded.
type vfFlushMsg struct{ done chan struct{} }

func (vfFlushMsg) Recipients() []bpv7.EndpointID { return nil }

// flush waits until the agent has recorded everything that was handed to it so far.
func (a *vfAgent) flush() {
	f := vfFlushMsg{done: make(chan struct{})}
	select {
	case a.receiver <- f:
		select {
		case <-f.done:
		case <-time.After(20 * time.Second):
		}
	case <-time.After(20 * time.Second):
	}
}
func (a *vfAgent) Endpoints() []bpv7.EndpointID       { return a.eids }
func (a *vfAgent) MessageReceiver() chan agent.Message { return a.receiver }
func (a *vfAgent) MessageSender() chan agent.Message   { return a.sender }

func (a *vfAgent) received() []bpv7.Bundle {
	a.mu.Lock()
	defer a.mu.Unlock()
	return append([]bpv7.Bundle(nil), a.got...)
}

type vfSim struct {
	c       *vk.Ctx
	dir     string
	nodeID  bpv7.EndpointID
	conf    RoutingConf
	core    *Core
	mu      sync.Mutex
	sends   []vfSend
	peers   map[string]*vfPeer
	order   []string // peer names in registration order
	inlet   *vfPeer  // a convergence adapter that only injects received bundles
	marker  *vfAgent
	app     *vfAgent
	apps    []*vfAgent
	markerN uint64
	gen     int
	trace   []string

	scriptNext map[string]map[string][]bool // peer -> bundle ID -> outcomes, for a peer that is about to be added

	inspectAll bool // the node inspects all administrative records, not only those addressed to it
	name       string // the node's name, "dtn://node/" unless the case runs two nodes
	slow       int    // multiplier of the barrier's time limits (two real nodes: a broken TCPCLv4 session holds a Send for 10 s and a Start for 15 s)
}

func (s *vfSim) limit(d time.Duration) time.Duration {
	if s.slow > 1 {
		return d * time.Duration(s.slow)
	}
	return d
}

const vfNodeName = "dtn://node/"

func vfScratch() string {
	base := os.Getenv("VERIF_SCRATCH")
	if base == "" {
		base = os.TempDir()
	}
	d, err := os.MkdirTemp(base, "vfsim-")
	if err != nil {
		panic(err)
	}
	return d
}

// vfNewSim creates a node with the given routing configuration.
func vfNewSim(c *vk.Ctx, conf RoutingConf) *vfSim {
	return vfNewSimInspect(c, conf, false)
}

// vfNewSimInspect: as vfNewSim, with the node's "inspect all bundles" option.
func vfNewSimInspect(c *vk.Ctx, conf RoutingConf, inspectAll bool) *vfSim {
	vfRegisterBlocks()
	return vfNewSimNamed(c, conf, inspectAll, vfNodeName)
}

// vfNewSimNamed: a node with another name than "dtn://node/" (cases with two real nodes).
func vfNewSimNamed(c *vk.Ctx, conf RoutingConf, inspectAll bool, name string) *vfSim {
	vfRegisterBlocks()
	s := &vfSim{c: c, dir: vfScratch(), nodeID: bpv7.MustNewEndpointID(name), conf: conf, peers: map[string]*vfPeer{}, inspectAll: inspectAll, name: name}
	s.boot()
	return s
}

var vfCronJobs = []string{"pending_bundles", "clean_store", "spray_and_wait_gc", "binary_spray_gc", "dtlsr_purge", "dtlsr_recompute", "dtlsr_broadcast"}

func (s *vfSim) boot() {
	core, err := NewCore(s.dir, s.nodeID, s.inspectAll, s.conf, nil)
	if err != nil {
		s.failf("sim.harness", "NewCore: %v", err)
	}
	for _, j := range vfCronJobs {
		core.cron.Unregister(j)
	}
	s.core = core
	s.gen++
	s.marker = vfNewAgent(bpv7.MustNewEndpointID(s.name + "vfmarker"))
	core.RegisterApplicationAgent(s.marker)
	s.app = vfNewAgent(bpv7.MustNewEndpointID(s.name+"app"), bpv7.MustNewEndpointID(s.name+"app2"))
	core.RegisterApplicationAgent(s.app)
	s.inlet = &vfPeer{sim: s, name: "inlet", eid: bpv7.MustNewEndpointID("dtn://vfinlet/"), addr: fmt.Sprintf("vf://inlet/%d", s.gen), ch: make(chan cla.ConvergenceStatus)}
	// the inlet is registered as a receiver-like adapter: it must not be chosen as a sender
	core.RegisterConvergable(vfInlet{s.inlet})
	s.waitRegistered(s.inlet.addr)
}

// vfInlet hides Send so that the adapter is no ConvergenceSender.
type vfInlet struct{ p *vfPeer }

func (i vfInlet) Start() (error, bool)                  { return nil, false }
func (i vfInlet) Close() error                          { return nil }
func (i vfInlet) Channel() chan cla.ConvergenceStatus   { return i.p.ch }
func (i vfInlet) Address() string                       { return i.p.addr }
func (i vfInlet) IsPermanent() bool                     { return false }
func (i vfInlet) GetEndpointID() bpv7.EndpointID        { return bpv7.MustNewEndpointID("dtn://vfinlet/") }
func (i vfInlet) String() string                        { return "vfInlet" }

func (s *vfSim) isListed(addr string) bool {
	for _, x := range s.core.claManager.Sender() {
		if x.Address() == addr {
			return true
		}
	}
	for _, x := range s.core.claManager.Receiver() {
		if x.Address() == addr {
			return true
		}
	}
	return false
}

func (s *vfSim) waitRegistered(addr string) {
	for i := 0; i < 20000; i++ {
		if s.isListed(addr) {
			return
		}
		time.Sleep(50 * time.Microsecond)
	}
	s.failf("sim.harness", "adapter %s was not registered", addr)
}

func (s *vfSim) failf(tag, format string, a ...interface{}) {
	if tag == "sim.stuck" && s.slow > 1 {
		// a node of the two-node engine: a real TCPCLv4 session that is being torn down can hold a manager or a Core for
		// minutes (start-up limit 15 s, acknowledgement limit 10 s, one after the other); how long a node takes to
		// come to rest is the subject of no listed property, so the case ends without a verdict
		s.c.Excluded("a node did not come to rest within the time limit (no verdict): " + fmt.Sprintf(format, a...))
		panic(tnNoVerdict{})
	}
	s.c.Failf(tag, "%s\nhistory: %v", fmt.Sprintf(format, a...), s.trace)
}

func (s *vfSim) logf(format string, a ...interface{}) {
	s.trace = append(s.trace, fmt.Sprintf(format, a...))
}

func (s *vfSim) record(x vfSend) {
	s.mu.Lock()
	x.Seq = len(s.sends)
	x.Gen = s.gen
	x.At = time.Now()
	s.sends = append(s.sends, x)
	s.mu.Unlock()
}

// sendsSince returns the sends recorded from index n on.
func (s *vfSim) sendsSince(n int) []vfSend {
	s.mu.Lock()
	defer s.mu.Unlock()
	if n > len(s.sends) {
		n = len(s.sends)
	}
	return append([]vfSend(nil), s.sends[n:]...)
}

func (s *vfSim) nSends() int {
	s.mu.Lock()
	defer s.mu.Unlock()
	return len(s.sends)
}

// barrier waits until the Core's handler has processed everything that was injected through
// the adapter before: a marker bundle follows on the same channel and is awaited at the
// marker agent. Returns false if the marker does not arrive (the node is stuck).
func (s *vfSim) barrier(via *vfPeer) {
	s.markerN++
	n := s.markerN
	mb, err := bpv7.Builder().CRC(bpv7.CRC32).Source("dtn://vfharness/m").Destination(s.name + "vfmarker").
		CreationTimestampNow().Lifetime("1h").BundleCtrlFlags(bpv7.MustNotFragmented).PayloadBlock([]byte(fmt.Sprintf("marker-%d", n))).Build()
	if err != nil {
		s.failf("sim.harness", "marker: %v", err)
	}
	mb.PrimaryBlock.CreationTimestamp[1] = n
	select {
	case via.ch <- cla.NewConvergenceReceivedBundle(vfInlet{via}, s.nodeID, &mb):
	case <-time.After(s.limit(20 * time.Second)):
		s.failf("sim.stuck", "the node does not take events from its convergence layers any more (%v)", s.limit(20*time.Second))
	}
	want := fmt.Sprintf("marker-%d", n)
	deadline := time.After(s.limit(30 * time.Second))
	for {
		for _, b := range s.marker.received() {
			if pb, err := b.PayloadBlock(); err == nil && string(pb.Value.(*bpv7.PayloadBlock).Data()) == want {
				// everything handed to the application agent before the marker is recorded once it answers
				s.app.flush()
				return
			}
		}
		select {
		case <-s.marker.notify:
		case <-time.After(2 * time.Millisecond):
		case <-deadline:
			s.failf("sim.stuck", "the node did not process an injected event within %v", s.limit(30*time.Second))
		}
	}
}

// addPeer connects a scripted peer; the node learns about it as from a real CLA.
func (s *vfSim) addPeer(name string) *vfPeer {
	if p, ok := s.peers[name]; ok && atomic.LoadInt32(&p.gone) == 0 {
		return p
	}
	var old *vfPeer
	if p, ok := s.peers[name]; ok {
		old = p
	}
	p := &vfPeer{sim: s, name: name, eid: bpv7.MustNewEndpointID("dtn://" + name + "/"), addr: fmt.Sprintf("vf://%s/%d/%d", name, s.gen, len(s.trace)), ch: make(chan cla.ConvergenceStatus)}
	if old != nil {
		old.mu.Lock()
		p.script, p.failAll = old.script, old.failAll
		old.mu.Unlock()
	} else {
		s.order = append(s.order, name)
	}
	if sc, ok := s.scriptNext[name]; ok {
		p.idScript = sc
		delete(s.scriptNext, name)
	}
	s.peers[name] = p
	s.core.RegisterConvergable(p)
	s.waitRegistered(p.addr)
	// a real CLA announces its peer after it was started
	select {
	case p.ch <- cla.NewConvergencePeerAppeared(p, p.eid):
	case <-time.After(20 * time.Second):
		s.failf("sim.stuck", "the node does not take the PeerAppeared status (20 s)")
	}
	s.barrier(p)
	return p
}

// addSecondLink connects a second convergence layer to a peer that is already connected (a neighbour
// discovered with both its MTCP and its TCPCLv4 listener): another sender with the same peer endpoint ID
// and another address. Its transmissions are logged under the peer's name; it shares the first link's
// scripted outcomes and disappears together with it.
func (s *vfSim) addSecondLink(name string) *vfPeer {
	first, ok := s.peers[name]
	if !ok || atomic.LoadInt32(&first.gone) != 0 {
		return nil
	}
	if p, ok := s.peers[name+"#2"]; ok && atomic.LoadInt32(&p.gone) == 0 {
		return p
	}
	p := &vfPeer{sim: s, name: name, eid: first.eid, addr: fmt.Sprintf("vf://%s-link2/%d/%d", name, s.gen, len(s.trace)), ch: make(chan cla.ConvergenceStatus)}
	first.mu.Lock()
	p.failAll = first.failAll
	first.mu.Unlock()
	s.peers[name+"#2"] = p
	s.core.RegisterConvergable(p)
	s.waitRegistered(p.addr)
	select {
	case p.ch <- cla.NewConvergencePeerAppeared(p, p.eid):
	case <-time.After(20 * time.Second):
		s.failf("sim.stuck", "the node does not take the PeerAppeared status (20 s)")
	}
	s.barrier(p)
	return p
}

// dropPeer lets a peer disappear the way a real CLA reports it.
func (s *vfSim) dropPeer(name string) {
	if !strings.HasSuffix(name, "#2") {
		s.dropPeer(name + "#2")
	}
	p, ok := s.peers[name]
	if !ok || atomic.LoadInt32(&p.gone) != 0 {
		return
	}
	atomic.StoreInt32(&p.gone, 1)
	select {
	case p.ch <- cla.NewConvergencePeerDisappeared(p, p.eid):
	case <-time.After(20 * time.Second):
		s.failf("sim.stuck", "the node does not take the PeerDisappeared status (20 s)")
	}
	// the manager stops the adapter and does not start it again; then the Core is told
	for i := 0; i < 40000; i++ {
		if !s.isListed(p.addr) {
			break
		}
		time.Sleep(50 * time.Microsecond)
	}
	s.barrier(s.inlet)
}

func (s *vfSim) connected(name string) bool {
	p, ok := s.peers[name]
	return ok && atomic.LoadInt32(&p.gone) == 0
}

// receive hands a bundle to the node as received from a peer.
func (s *vfSim) receive(b bpv7.Bundle) {
	select {
	case s.inlet.ch <- cla.NewConvergenceReceivedBundle(vfInlet{s.inlet}, s.nodeID, &b):
	case <-time.After(20 * time.Second):
		s.failf("sim.stuck", "the node does not take received bundles (20 s)")
	}
	s.barrier(s.inlet)
}

// receiveRaw parses an encoding (as a CLA does) and hands it to the node.
func (s *vfSim) receiveRaw(raw []byte) error {
	b, err := bpv7.ParseBundle(bytes.NewReader(raw))
	if err != nil {
		return err
	}
	s.receive(b)
	return nil
}

// submit sends a bundle on behalf of a local application (synchronously).
func (s *vfSim) submit(b bpv7.Bundle) {
	s.core.SendBundle(&b)
}

func (s *vfSim) tickPending() { s.core.checkPendingBundles() }
func (s *vfSim) tickClean()   { s.core.store.DeleteExpired() }

// restart closes the node in an orderly way and opens a new one on the same directory; the
// peers that are connected are registered again.
func (s *vfSim) restart() {
	var names []string
	for _, n := range s.order {
		if s.connected(n) {
			names = append(names, n)
		}
	}
	s.shutdown()
	old := s.peers
	s.peers = map[string]*vfPeer{}
	s.boot()
	for n, p := range old {
		if atomic.LoadInt32(&p.gone) != 0 {
			s.peers[n] = p
		}
	}
	for _, n := range names {
		op := old[n]
		np := s.addPeerRaw(n, op)
		_ = np
	}
}

func (s *vfSim) addPeerRaw(name string, old *vfPeer) *vfPeer {
	p := &vfPeer{sim: s, name: name, eid: bpv7.MustNewEndpointID("dtn://" + name + "/"), addr: fmt.Sprintf("vf://%s/%d/r%d", name, s.gen, len(s.trace)), ch: make(chan cla.ConvergenceStatus)}
	if old != nil {
		old.mu.Lock()
		p.script, p.failAll = old.script, old.failAll
		old.mu.Unlock()
	}
	s.peers[name] = p
	s.core.RegisterConvergable(p)
	s.waitRegistered(p.addr)
	select {
	case p.ch <- cla.NewConvergencePeerAppeared(p, p.eid):
	case <-time.After(20 * time.Second):
		s.failf("sim.stuck", "the node does not take the PeerAppeared status (20 s)")
	}
	s.barrier(p)
	return p
}

func (s *vfSim) shutdown() {
	done := make(chan struct{})
	go func() {
		_ = s.core.agentManager.Close()
		s.core.Close()
		close(done)
	}()
	select {
	case <-done:
	case <-time.After(s.limit(30 * time.Second)):
		s.failf("sim.stuck", "closing the node does not return (%v)", s.limit(30*time.Second))
	}
}

// close shuts the node down and removes the scratch directory.
func (s *vfSim) close() {
	defer os.RemoveAll(s.dir)
	done := make(chan struct{})
	go func() {
		defer func() { _ = recover(); close(done) }()
		_ = s.core.agentManager.Close()
		s.core.Close()
	}()
	select {
	case <-done:
	case <-time.After(30 * time.Second):
	}
}

// --- helpers for bundles ---

func vfPayloadOf(b *bpv7.Bundle) []byte {
	pb, err := b.PayloadBlock()
	if err != nil {
		return nil
	}
	return pb.Value.(*bpv7.PayloadBlock).Data()
}

func vfEnc(b *bpv7.Bundle) []byte {
	var buf bytes.Buffer
	if err := b.WriteBundle(&buf); err != nil {
		return nil
	}
	return buf.Bytes()
}

// storeHas tells whether the store knows the ID and returns the item.
func (s *vfSim) storeHas(id bpv7.BundleID) bool {
	return s.core.store.KnowsBundle(id)
}

func (s *vfSim) setScript(name string, outcomes ...bool) {
	if p, ok := s.peers[name]; ok {
		p.mu.Lock()
		p.script = append([]bool(nil), outcomes...)
		p.mu.Unlock()
	}
}

func (s *vfSim) setFailAll(name string, v bool) {
	for _, n := range []string{name, name + "#2"} {
		if p, ok := s.peers[n]; ok {
			p.mu.Lock()
			p.failAll = v
			p.mu.Unlock()
		}
	}
}

// vfProphetMetadata builds the metadata bundle a PRoPHET peer sends: its summary vector.
func vfProphetMetadata(src, dst string, preds map[string]float64, seq uint64) bpv7.Bundle {
	m := map[bpv7.EndpointID]float64{}
	for k, v := range preds {
		m[bpv7.MustNewEndpointID(k)] = v
	}
	b, err := bpv7.Builder().CRC(bpv7.CRC32).Source(src).Destination(dst).CreationTimestampNow().Lifetime("1m").
		BundleCtrlFlags(bpv7.MustNotFragmented).Canonical(bpv7.NewProphetBlock(m)).PayloadBlock(byte(1)).Build()
	if err != nil {
		panic(err)
	}
	b.PrimaryBlock.CreationTimestamp[1] = seq
	return b
}

func sleepMs(n int) { time.Sleep(time.Duration(n) * time.Millisecond) }


// vfPingProxy wraps the real PingAgent and counts what goes in and what has been handed back, so
// that the harness can tell when the agent owes nothing any more.
type vfPingProxy struct {
	inner    *agent.PingAgent
	receiver chan agent.Message
	sender   chan agent.Message
	in, out  int32
	seen     int // pongs of an earlier generation of the node (not used: a proxy lives in one generation)
}

func newVfPingProxy(eid bpv7.EndpointID) *vfPingProxy {
	p := &vfPingProxy{inner: agent.NewPing(eid), receiver: make(chan agent.Message), sender: make(chan agent.Message)}
	go func() {
		for m := range p.receiver {
			if _, ok := m.(agent.BundleMessage); ok {
				atomic.AddInt32(&p.in, 1)
			}
			p.inner.MessageReceiver() <- m
			if _, ok := m.(agent.ShutdownMessage); ok {
				return
			}
		}
	}()
	go func() {
		defer close(p.sender)
		for m := range p.inner.MessageSender() {
			p.sender <- m
			if _, ok := m.(agent.BundleMessage); ok {
				atomic.AddInt32(&p.out, 1)
			}
		}
	}()
	return p
}
func (p *vfPingProxy) Endpoints() []bpv7.EndpointID         { return p.inner.Endpoints() }
func (p *vfPingProxy) MessageReceiver() chan agent.Message { return p.receiver }
func (p *vfPingProxy) MessageSender() chan agent.Message   { return p.sender }


// quiescePing waits until every pong the ping agent owes has been taken over by the node: handed back by
// the agent and visible in the store or in a peer's log.
func (s *vfSim) quiescePing(ping *vfPingProxy) {
	if ping == nil {
		return
	}
	prefix := ping.inner.Endpoints()[0].String() + "-"
	deadline := time.Now().Add(5 * time.Second)
	for atomic.LoadInt32(&ping.out) < atomic.LoadInt32(&ping.in) && time.Now().Before(deadline) {
		time.Sleep(100 * time.Microsecond)
	}
	want := int(atomic.LoadInt32(&ping.out)) - ping.seen
	for time.Now().Before(deadline) {
		ids := map[string]bool{}
		for _, x := range s.sendsSince(0) {
			if x.Gen == s.gen && strings.HasPrefix(x.ID, prefix) {
				ids[x.ID] = true
			}
		}
		if bis, err := s.core.store.QueryPending(); err == nil {
			for _, bi := range bis {
				if strings.HasPrefix(bi.BId.String(), prefix) {
					ids[bi.BId.String()] = true
				}
			}
		}
		if len(ids) >= want {
			return
		}
		time.Sleep(200 * time.Microsecond)
	}
}
