package routing

import (
	"bytes"
	"fmt"
	"sync"
	"testing"
	"time"

	"github.com/dtn7/dtn7-go/pkg/agent"
	"github.com/dtn7/dtn7-go/pkg/bpv7"
	vk "github.com/dtn7/dtn7-go/pkg/verifkit"
)

// C07 with an application that is slow to take its bundles: several deliveries are under way at once - one from
// the node's handler (a bundle received from a peer), the others from applications on the same node submitting
// bundles for the slow application - while the agent needs BusyMs for each bundle.

type c07SlowCase struct {
	Algo   string `json:"algo"`
	BusyMs int    `json:"busy_ms"`
	N      int    `json:"n"` // concurrent deliveries
}

// vfSlowAgent takes a message, then is busy for a while.
type vfSlowAgent struct {
	eid      bpv7.EndpointID
	receiver chan agent.Message
	sender   chan agent.Message
	mu       sync.Mutex
	got      []bpv7.Bundle
}

func newVfSlowAgent(eid bpv7.EndpointID, busy time.Duration) *vfSlowAgent {
	a := &vfSlowAgent{eid: eid, receiver: make(chan agent.Message), sender: make(chan agent.Message)}
	go func() {
		for m := range a.receiver {
			if bm, ok := m.(agent.BundleMessage); ok {
				a.mu.Lock()
				a.got = append(a.got, bm.Bundle)
				a.mu.Unlock()
				time.Sleep(busy)
			}
			if _, ok := m.(agent.ShutdownMessage); ok {
				return
			}
		}
	}()
	return a
}
func (a *vfSlowAgent) Endpoints() []bpv7.EndpointID         { return []bpv7.EndpointID{a.eid} }
func (a *vfSlowAgent) MessageReceiver() chan agent.Message { return a.receiver }
func (a *vfSlowAgent) MessageSender() chan agent.Message   { return a.sender }
func (a *vfSlowAgent) received() []bpv7.Bundle {
	a.mu.Lock()
	defer a.mu.Unlock()
	return append([]bpv7.Bundle(nil), a.got...)
}

func TestVerifC07SlowAgent(t *testing.T) {
	u := vk.Unit{Property: "C07", Name: "c07.slow-agent",
		Rule: "a real Core; an application agent that is busy for 300 / 1300 / 2500 ms after every bundle; 2..4 bundles for its endpoint are delivered at the same moment: one received from a peer (node's handler), the others submitted by local applications (their own goroutines), all requesting a delivery report; a relay is connected. Oracle: within 20 s the agent has every bundle exactly once; a bundle that has not been handed over yet is still in the store and no delivery report about it has left the node; none is transmitted to the relay. Every case non-trivial; exhaustive over the listed parameters"}
	var cases []c07SlowCase
	for _, algo := range []string{"epidemic", "spray"} {
		for _, busy := range []int{300, 1300, 2500} {
			for _, n := range []int{2, 4} {
				cases = append(cases, c07SlowCase{algo, busy, n})
			}
		}
	}
	vk.Enumerate(t, u, true, func(yield func(c07SlowCase) bool) {
		for i, cs := range cases {
			if !vk.ShardOwns(i + 1) {
				continue
			}
			if !yield(cs) {
				return
			}
		}
	}, func(c *vk.Ctx, cs c07SlowCase) {
		c.NonTrivial()
		s := vfNewSim(c, vfConf(cs.Algo))
		defer s.close()
		s.addPeer("p0")
		ep := vfNodeName + "slow"
		ag := newVfSlowAgent(bpv7.MustNewEndpointID(ep), time.Duration(cs.BusyMs)*time.Millisecond)
		s.core.RegisterApplicationAgent(ag)
		var bs []bpv7.Bundle
		for i := 0; i < cs.N; i++ {
			src := vfNodeName + fmt.Sprintf("app%d", i)
			if i == 0 {
				src = "dtn://remote/app"
			}
			b, err := bpv7.Builder().CRC(bpv7.CRC32).Source(src).Destination(ep).ReportTo("dtn://p0/reports").CreationTimestampNow().Lifetime("1h").
				BundleCtrlFlags(bpv7.StatusRequestDelivery).PayloadBlock([]byte(fmt.Sprintf("c07 slow %d", i))).Build()
			if err != nil {
				s.failf("c07.harness", "bundle: %v", err)
			}
			b.PrimaryBlock.CreationTimestamp[1] = uint64(i)
			bs = append(bs, b)
		}
		s.logf("%d bundles for the slow agent (busy %d ms per bundle) at once: one from a peer, the others from local applications", cs.N, cs.BusyMs)
		start := make(chan struct{})
		var wg sync.WaitGroup
		for i := range bs {
			wg.Add(1)
			go func(i int) {
				defer wg.Done()
				<-start
				if i == 0 {
					s.receive(bs[0])
				} else {
					b := bs[i]
					s.core.SendBundle(&b)
				}
			}(i)
		}
		t0 := time.Now()
		close(start)
		count := func() []int {
			n := make([]int, len(bs))
			for _, g := range ag.received() {
				for i := range bs {
					if bytes.Equal(vfPayloadOf(&g), vfPayloadOf(&bs[i])) {
						n[i]++
					}
				}
			}
			return n
		}
		judge := func(final bool) {
			n := count()
			reported := map[string]bool{}
			for _, x := range s.sendsSince(0) {
				if r, isAdmin, err := c15Decode(x.Raw); isAdmin && err == nil && r.asserted == 2 {
					reported[r.ref] = true
				}
				if w, err := vk.ReadBundle(x.Raw); err == nil {
					if p, ok := w.Payload(); ok {
						for i := range bs {
							if bytes.Equal(p, vfPayloadOf(&bs[i])) {
								s.failf("c07.sent-to-peer", "bundle %d for the local endpoint %s was transmitted to peer %s", i, ep, x.Peer)
							}
						}
					}
				}
			}
			for i := range bs {
				if n[i] > 1 {
					s.failf("c07.duplicate-delivery", "the slow agent received bundle %d %d times", i, n[i])
				}
			}
			// the count is read again after the reports: a hand-over may have happened in between, never the reverse
			n = count()
			for i := range bs {
				id := tnIDOf(&bs[i])
				if n[i] == 0 && reported[id] {
					s.failf("c07.report-without-handover", "a delivery report about bundle %d left the node %v after the deliveries began, but the (busy) agent has not been handed this bundle", i, time.Since(t0).Round(time.Millisecond))
				}
				if final && n[i] == 0 {
					s.failf("c07.not-delivered", "20 s after %d simultaneous deliveries to an agent that is busy for %d ms per bundle, bundle %d has not been handed over (still in the store: %v)", cs.N, cs.BusyMs, i, s.storeHas(bs[i].ID()))
				}
			}
		}
		done := make(chan struct{})
		go func() { wg.Wait(); close(done) }()
		deadline := time.Now().Add(20 * time.Second)
		for time.Now().Before(deadline) {
			judge(false)
			all := true
			for _, k := range count() {
				if k == 0 {
					all = false
				}
			}
			if all {
				break
			}
			time.Sleep(50 * time.Millisecond)
		}
		select {
		case <-done:
		case <-time.After(30 * time.Second):
			s.failf("sim.stuck", "the simultaneous deliveries did not return within 50 s")
		}
		s.barrier(s.inlet)
		judge(true)
	})
}
