package routing

import (
	"encoding/binary"
	"fmt"
	"io"
	"net"
	"testing"
	"time"

	"github.com/dtn7/dtn7-go/pkg/bpv7"
	"github.com/dtn7/dtn7-go/pkg/cla/tcpclv4"
	vk "github.com/dtn7/dtn7-go/pkg/verifkit"
)

// C18 / C05 with a REAL convergence layer: the copy of a failed transmission comes back (and the failed peer
// becomes eligible again) also when the transmission fails the way real transmissions fail - the TCPCLv4
// session to the peer breaks in the middle of the transfer. The routing algorithms identify the peer by what
// the sender object says when the failure is reported.

type c18RealCase struct {
	Algo string `json:"algo"`
	L    int    `json:"l"`
	// the passive peer goes away: 0 = after the session is established and the first segment was read,
	// without acknowledging it; 1 = the same, but it resets the connection
	How int `json:"how"`
}

// vfFakeTcpclPeer accepts one TCPCLv4 session as the passive node "dtn://flaky/", reads the first XFER_SEGMENT
// and goes away without acknowledging it.
func vfFakeTcpclPeer(ln net.Listener, how int, done chan<- string) {
	defer ln.Close()
	fail := func(f string, a ...interface{}) { done <- fmt.Sprintf(f, a...) }
	conn, err := ln.Accept()
	if err != nil {
		fail("accept: %v", err)
		return
	}
	_ = conn.SetDeadline(time.Now().Add(40 * time.Second))
	ch := make([]byte, 6)
	if _, err := io.ReadFull(conn, ch); err != nil {
		fail("contact header: %v", err)
		return
	}
	if _, err := conn.Write([]byte{'d', 't', 'n', '!', 4, 0}); err != nil {
		fail("contact header: %v", err)
		return
	}
	hdr := make([]byte, 1+2+8+8+2) // SESS_INIT: type, keepalive, segment MRU, transfer MRU, node id length
	if _, err := io.ReadFull(conn, hdr); err != nil {
		fail("sess_init: %v", err)
		return
	}
	rest := make([]byte, int(binary.BigEndian.Uint16(hdr[19:]))+4)
	if _, err := io.ReadFull(conn, rest); err != nil {
		fail("sess_init: %v", err)
		return
	}
	const nodeID = "dtn://flaky/"
	si := []byte{0x07, 0x00, 0x1e}
	si = append(si, 0, 0, 0, 0, 0, 0x10, 0, 0) // segment MRU 1 MiB
	si = append(si, 0, 0, 0, 0, 0x40, 0, 0, 0) // transfer MRU 1 GiB
	si = append(si, 0x00, byte(len(nodeID)))
	si = append(si, []byte(nodeID)...)
	si = append(si, 0, 0, 0, 0)
	if _, err := conn.Write(si); err != nil {
		fail("sess_init: %v", err)
		return
	}
	seg := make([]byte, 1+1+8+4+8) // XFER_SEGMENT head
	if _, err := io.ReadFull(conn, seg); err != nil {
		fail("xfer_segment: %v", err)
		return
	}
	if seg[0] != 0x01 {
		fail("expected XFER_SEGMENT, got %#x", seg[0])
		return
	}
	if _, err := io.CopyN(io.Discard, conn, int64(binary.BigEndian.Uint64(seg[14:]))); err != nil {
		fail("segment data: %v", err)
		return
	}
	if how == 1 {
		_ = conn.(*net.TCPConn).SetLinger(0)
	}
	_ = conn.Close()
	done <- ""
}

func TestVerifC18RealTCPCL(t *testing.T) {
	u := vk.Unit{Property: "C18", Name: "c18.real-tcpcl",
		Rule: "the node's only peer 'flaky' is connected through a real tcpclv4 client (dialed session to a scripted passive peer speaking the wire protocol); a bundle is submitted under spray (L=2,3), binary spray (L=4) or epidemic routing; the peer reads the first segment and goes away (orderly close or reset) without acknowledging, so the transmission fails as real transmissions fail; then scripted relays appear and a retry tick runs. Oracle: spray: the copy taken for 'flaky' is back - L-1 relays get the bundle; binary spray: the next relay is announced half of ALL copies; epidemic: a peer named 'flaky' that appears again is offered the bundle; every case non-trivial; distinct by tuple"}
	var cases []c18RealCase
	for _, how := range []int{0, 1} {
		cases = append(cases, c18RealCase{"spray", 3, how}, c18RealCase{"spray", 2, how}, c18RealCase{"binary_spray", 4, how}, c18RealCase{"epidemic", 0, how})
	}
	if vk.Tier() != "thorough" {
		cases = cases[:4]
	}
	vk.Enumerate(t, u, true, func(yield func(c18RealCase) bool) {
		for i, cs := range cases {
			if !vk.ShardOwns(i + 1) {
				continue
			}
			if !yield(cs) {
				return
			}
		}
	}, func(c *vk.Ctx, cs c18RealCase) {
		c.NonTrivial()
		conf := vfConf(cs.Algo)
		if cs.L > 0 {
			conf.SprayConf.Multiplicity = uint64(cs.L)
		}
		s := vfNewSim(c, conf)
		defer s.close()
		ln, err := net.Listen("tcp", "127.0.0.1:0")
		if err != nil {
			s.failf("c18.harness", "listen: %v", err)
		}
		done := make(chan string, 1)
		go vfFakeTcpclPeer(ln, cs.How, done)
		client := tcpclv4.DialTCP(ln.Addr().String(), s.nodeID, false)
		s.core.RegisterConvergable(client)
		s.waitRegistered(client.Address())
		s.barrier(s.inlet)
		b, err := bpv7.Builder().CRC(bpv7.CRC32).Source(vfNodeName + "app").Destination("dtn://faraway/inbox").CreationTimestampNow().Lifetime("1h").
			BundleCtrlFlags(0).PayloadBlock([]byte("c18 real tcpcl")).Build()
		if err != nil {
			s.failf("c18.harness", "bundle: %v", err)
		}
		s.logf("bundle submitted; the TCPCLv4 peer 'flaky' reads the first segment and goes away (how=%d)", cs.How)
		t0 := time.Now()
		s.submit(b)
		select {
		case msg := <-done:
			if msg != "" {
				s.failf("c18.harness", "scripted TCPCLv4 peer: %s", msg)
			}
		case <-time.After(40 * time.Second):
			s.failf("c18.harness", "the scripted TCPCLv4 peer never saw a segment")
		}
		c.Classf("failed transmission took %d s", int(time.Since(t0).Seconds()))
		s.barrier(s.inlet)
		id := ""
		for _, bi := range mustPendingSim(s) {
			if pb, err := bi.Parts[0].Load(); err == nil && string(vfPayloadOf(&pb)) == "c18 real tcpcl" {
				id = pb.ID().String()
			}
		}
		if id == "" {
			s.failf("c05.lost", "the transmission over the broken TCPCLv4 session failed, but the bundle is not among the store's pending items")
		}
		// let the manager finish with the dead client
		for i := 0; i < 200 && s.isListed(client.Address()); i++ {
			time.Sleep(5 * time.Millisecond)
		}
		count := func(peer string) int {
			n := 0
			for _, x := range s.sendsSince(0) {
				if x.ID == id && x.Peer == peer && x.OK {
					n++
				}
			}
			return n
		}
		switch cs.Algo {
		case "spray":
			for i := 0; i < cs.L; i++ {
				s.logf("relay r%d appears", i)
				s.addPeer(fmt.Sprintf("r%d", i))
			}
			s.tickPending()
			got := 0
			for i := 0; i < cs.L; i++ {
				got += count(fmt.Sprintf("r%d", i))
			}
			if got != cs.L-1 {
				s.failf("c18.copy-leaked", "spray-and-wait, L=%d: the only transmission so far failed (its TCPCLv4 session broke); afterwards %d relays are connected, but %d instead of %d got the bundle: the copy taken for the failed peer did not come back", cs.L, cs.L, got, cs.L-1)
			}
		case "binary_spray":
			s.logf("relay r0 appears")
			s.addPeer("r0")
			s.tickPending()
			announced := -1
			for _, x := range s.sendsSince(0) {
				if x.ID == id && x.Peer == "r0" {
					if v, ok := sprayCopies(x.Raw); ok {
						announced = int(v)
					}
				}
			}
			if announced != cs.L/2 {
				s.failf("c18.wrong-split", "binary spray, L=%d: the only transmission so far failed (its TCPCLv4 session broke); the next relay is announced %d copies instead of %d", cs.L, announced, cs.L/2)
			}
		case "epidemic":
			s.logf("the peer 'flaky' appears again")
			s.addPeer("flaky")
			s.tickPending()
			if count("flaky") != 1 {
				s.failf("c05.failed-peer-not-retried", "epidemic: the transmission to 'flaky' failed when its TCPCLv4 session broke; 'flaky' is connected again but was not offered the bundle (%d transmissions)", count("flaky"))
			}
		}
	})
}
