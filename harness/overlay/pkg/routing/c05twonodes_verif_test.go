package routing

import (
	"bytes"
	"fmt"
	"strings"
	"testing"
	"time"

	"pgregory.net/rapid"

	"github.com/dtn7/dtn7-go/pkg/bpv7"
	vk "github.com/dtn7/dtn7-go/pkg/verifkit"
)

const tnRule = "two real nodes (Core, store, agent manager, CLA manager each) joined by a real TCPCLv4 session over loopback through a forwarder of the harness; histories of 3..12 events over {link up, link down (client unregistered), arm a cut of the connection after 0..66000 more bytes in one direction (orderly or reset; the dialed client comes back through the manager), application of A / of B submits a bundle of 3 B..1.1 MB for an application endpoint of the other node with every combination of delivery/reception report requests, report time, a hop-count block and a zero creation time with a bundle-age block, retry tick at A / at B, orderly restart of A / of B}, per routing algorithm; final phase: fault-free link and retry ticks"

// C05 end to end: what an application handed to its node reaches the application on the other node, whatever
// happened to the connection in between; until then it is pending in a store.
func TestVerifC05TwoNodes(t *testing.T) {
	u := vk.Unit{Property: "C05", Name: "c05.two-nodes", Quick: 96, Thorough: 1600,
		Rule: tnRule + ". Oracle: after the final phase every submitted bundle has reached the destination's application agent; while it has not, it is pending in the source's or the destination's store (a bundle that is nowhere is lost: a transmission counted as successful although the receiver never got the bundle, or a bundle dropped on the way). Non-trivial = a connection was cut in mid-stream or a bundle had to wait for the link; distinct by case hash"}
	g := genTnCase()
	vk.Check(t, u, func(t *rapid.T) tnCase { return g.Draw(t, "case") }, func(c *vk.Ctx, cs tnCase) {
		w := tnRun(c, &cs)
		if w.noVerdict {
			w.close()
			return
		}
		defer func() {
			r := recover()
			w.close()
			if _, ok := r.(tnNoVerdict); r != nil && !ok {
				panic(r)
			}
		}()
		waited := false
		for i, s := range w.subs {
			_ = i
			if w.pendingPayloads(s.From)[string(s.Payload)] {
				waited = true
			}
		}
		all := func(o tnObservation) bool {
			for i := range w.subs {
				if o.Delivered[i] == 0 {
					return false
				}
			}
			return true
		}
		o := w.settle(all)
		w.classify(o)
		if len(w.subs) > 0 && (w.proxy.Cuts() > 0 || waited) {
			c.NonTrivial()
		}
		for i, s := range w.subs {
			if o.Delivered[i] > 0 {
				continue
			}
			if !o.PendingSrc[i] && !o.PendingDst[i] {
				id := s.Bundle.ID().String()
				sent, handed, processed := w.lg.get(w.lg.sent, id), w.lg.get(w.lg.handed, id), w.lg.get(w.lg.processed, id)
				w.logf("%s", w.dump())
				switch {
				case processed > 0:
					w.failf("c05.lost-at-receiver", "bundle %d (%s, %d payload bytes, submitted on node %d for %s) was received and taken into processing by the other node, but its application never got it and it is pending in neither store: it is lost", i, id, len(s.Payload), s.From, s.Dest)
				case sent == 0:
					w.failf("c05.lost-at-sender", "bundle %d (%s, %d payload bytes, submitted on node %d for %s) is not in its node's store any more although no convergence layer ever reported a successful transmission of it, and the other node never got it: it is lost", i, id, len(s.Payload), s.From, s.Dest)
				case handed == 0:
					// the convergence layer reported a success for a transfer it never handed up: each node kept to C05; this is C11's "success means delivered" (unit c11.two-nodes)
					c.Excluded("c11.success-without-delivery")
				default:
					// handed up by the receiving client, never seen by its Core: it was inside the CLA manager when the harness (or the node's shutdown) deactivated the adapter
					c.Excluded("in the CLA manager when the adapter was deactivated")
				}
				continue
			}
			w.failf("c05.not-transmitted", "bundle %d (%d payload bytes, submitted by the application of node %d for %s) is still waiting (pending at source: %v, at destination: %v) although its destination node has been a directly connected, fault-free peer for 25 s of retry ticks", i, len(s.Payload), s.From, s.Dest, o.PendingSrc[i], o.PendingDst[i])
		}
	})
}

// C07 end to end: what the other node's application gets is what was submitted, at the endpoint it was
// submitted for, and nothing else.
func TestVerifC07TwoNodes(t *testing.T) {
	u := vk.Unit{Property: "C07", Name: "c07.two-nodes", Quick: 64, Thorough: 1000,
		Rule: tnRule + ". Oracle: every bundle an application agent receives is a submitted bundle addressed to one of its endpoints or a status report addressed to it, with the submitted payload, source, destination, report-to, creation time, lifetime and flags; the submitting node's own application never gets it. Non-trivial = a bundle was delivered on the other node; distinct by case hash"}
	g := genTnCase()
	vk.Check(t, u, func(t *rapid.T) tnCase { return g.Draw(t, "case") }, func(c *vk.Ctx, cs tnCase) {
		w := tnRun(c, &cs)
		if w.noVerdict {
			w.close()
			return
		}
		defer func() {
			r := recover()
			w.close()
			if _, ok := r.(tnNoVerdict); r != nil && !ok {
				panic(r)
			}
		}()
		all := func(o tnObservation) bool {
			for i := range w.subs {
				if o.Delivered[i] == 0 {
					return false
				}
			}
			return true
		}
		o := w.settle(all)
		w.classify(o)
		if len(o.Strange) > 0 {
			w.failf("c07.foreign-delivery", "an application agent received bundles that nobody addressed to it: %v", o.Strange)
		}
		for i, s := range w.subs {
			for _, b := range o.Copies[i] {
				c.NonTrivial()
				p := b.PrimaryBlock
				q := s.Bundle.PrimaryBlock
				if !bytes.Equal(vfPayloadOf(&b), s.Payload) {
					w.failf("c07.content-changed", "bundle %d arrived with another payload (%d instead of %d bytes, or other bytes)", i, len(vfPayloadOf(&b)), len(s.Payload))
				}
				if p.SourceNode != q.SourceNode || p.Destination != q.Destination || p.ReportTo != q.ReportTo || p.CreationTimestamp[0] != q.CreationTimestamp[0] || p.Lifetime != q.Lifetime || p.BundleControlFlags != q.BundleControlFlags {
					w.failf("c07.content-changed", "bundle %d arrived with another primary block: %v instead of %v", i, p, q)
				}
			}
		}
		for x := 0; x < 2; x++ {
			for _, r := range o.Reports[x] {
				want := []string{tnNameA + "app2", tnNameB + "app2"}[x]
				if r.Dst != want {
					w.failf("c07.foreign-delivery", "the application of node %d received the administrative record %s addressed to %s", x, r.BundleID, r.Dst)
				}
			}
		}
	})
}

// C15 end to end: the reports that come back are the requested ones about what happened, one per event.
func TestVerifC15TwoNodes(t *testing.T) {
	u := vk.Unit{Property: "C15", Name: "c15.two-nodes", Quick: 64, Thorough: 1000,
		Rule: tnRule + ". Oracle: the submitting application (report-to is its second endpoint) receives, for each bundle, exactly one 'received' and one 'delivered' report per copy the other node accepted and delivered - if and only if the bundle requested that report - each naming the bundle's ID, with a time iff requested, without report-request flags, from the other node; no report of any other kind (the submitting node itself reports nothing: report-to is one of its own endpoints). Non-trivial = a requested report came back; distinct by case hash"}
	g := genTnCase()
	vk.Check(t, u, func(t *rapid.T) tnCase { return g.Draw(t, "case") }, func(c *vk.Ctx, cs tnCase) {
		w := tnRun(c, &cs)
		if w.noVerdict {
			w.close()
			return
		}
		defer func() {
			r := recover()
			w.close()
			if _, ok := r.(tnNoVerdict); r != nil && !ok {
				panic(r)
			}
		}()
		count := func(o tnObservation, i int) (recv, dlv int, others []tnReport) {
			s := w.subs[i]
			ids := map[string]bool{}
			for _, b := range o.Copies[i] {
				b := b
				ids[tnIDOf(&b)] = true
			}
			for _, r := range o.Reports[s.From] {
				if !ids[r.Ref] {
					continue
				}
				switch {
				case r.NAssert == 1 && r.Status == 0:
					recv++
				case r.NAssert == 1 && r.Status == 2:
					dlv++
				default:
					others = append(others, r)
				}
			}
			return
		}
		complete := func(o tnObservation) bool {
			for i, s := range w.subs {
				if o.Delivered[i] == 0 {
					return false
				}
				recv, dlv, _ := count(o, i)
				if s.Flags&2 != 0 && recv < o.Delivered[i] {
					return false
				}
				if s.Flags&1 != 0 && dlv < o.Delivered[i] {
					return false
				}
			}
			return true
		}
		o := w.settle(complete)
		w.classify(o)
		judge := func(o tnObservation) (string, string) {
			known := map[string]int{}
			// a node without a clock that is restarted numbers its bundles from 0 again (C14 does not quantify over
			// restarts): two submissions can then carry the same ID, and a report about "that ID" cannot be told apart
			shared := map[string]bool{}
			for i := range w.subs {
				for _, b := range o.Copies[i] {
					b := b
					id := tnIDOf(&b)
					if j, ok := known[id]; ok && j != i {
						shared[id] = true
					}
					known[id] = i
				}
			}
			if len(shared) > 0 {
				c.Class("a bundle ID was used again after a restart (reports about it are not judged)")
			}
			for x := 0; x < 2; x++ {
				for _, r := range o.Reports[x] {
					if r.Err != "" {
						return "c15.malformed-report", fmt.Sprintf("the application of node %d received an administrative record that is no well-formed status report: %s", x, r.Err)
					}
					if shared[r.Ref] {
						continue
					}
					i, ok := known[r.Ref]
					if !ok {
						return "c15.untrue-report", fmt.Sprintf("the application of node %d received a status report about %s, which is no bundle the other node received", x, r.Ref)
					}
					s := w.subs[i]
					if s.From != x {
						return "c15.wrong-address", fmt.Sprintf("the status report about bundle %d went to the application of node %d, but the bundle's report-to endpoint is on node %d", i, x, s.From)
					}
					if bpv7.BundleControlFlags(r.Flags)&(bpv7.StatusRequestReception|bpv7.StatusRequestForward|bpv7.StatusRequestDelivery|bpv7.StatusRequestDeletion) != 0 || bpv7.BundleControlFlags(r.Flags)&bpv7.AdministrativeRecordPayload == 0 {
						return "c15.report-requests-reports", fmt.Sprintf("the status report about bundle %d has bundle flags %#x", i, r.Flags)
					}
					other := []string{tnNameB, tnNameA}[x]
					if !strings.HasPrefix(r.Src, other) {
						return "c15.untrue-report", fmt.Sprintf("the status report about bundle %d (received and delivered by %s only) comes from %s", i, other, r.Src)
					}
					if r.NAssert != 1 {
						return "c15.malformed-report", fmt.Sprintf("the status report about bundle %d asserts %d items", i, r.NAssert)
					}
					if r.HasTime != (s.Flags&8 != 0) {
						return "c15.time", fmt.Sprintf("the status report about bundle %d carries a time: %v, the bundle requested one: %v", i, r.HasTime, s.Flags&8 != 0)
					}
				}
			}
			for i, s := range w.subs {
				ambiguous := false
				for _, b := range o.Copies[i] {
					b := b
					if shared[tnIDOf(&b)] {
						ambiguous = true
					}
				}
				if ambiguous {
					continue
				}
				recv, dlv, others := count(o, i)
				if len(others) > 0 {
					return "c15.untrue-report", fmt.Sprintf("bundle %d was received and delivered by the other node and nothing else happened to it, but a report asserts status %d (reason %d)", i, others[0].Status, others[0].Reason)
				}
				what := fmt.Sprintf("bundle %d (delivery report requested: %v, reception report requested: %v) was accepted and delivered %d times by the other node; the submitting application got %d 'received' and %d 'delivered' reports", i, s.Flags&1 != 0, s.Flags&2 != 0, o.Delivered[i], recv, dlv)
				if (s.Flags&2 == 0 && recv > 0) || (s.Flags&1 == 0 && dlv > 0) {
					return "c15.unrequested-report", what
				}
				if recv > o.Delivered[i] || dlv > o.Delivered[i] {
					return "c15.duplicate-report", what
				}
			}
			return "", ""
		}
		if tag, _ := judge(o); tag != "" {
			// a report can be on the application's desk before the other node's application agent has recorded the
			// delivery it is about: look again once both nodes are through with what they have
			time.Sleep(50 * time.Millisecond)
			w.barriers()
			o = w.observe()
			if tag, msg := judge(o); tag != "" {
				w.failf(tag, "%s", msg)
			}
		}
		for i, s := range w.subs {
			recv, dlv, _ := count(o, i)
			if recv+dlv > 0 {
				c.NonTrivial()
			}
			if (s.Flags&2 != 0 && recv < o.Delivered[i]) || (s.Flags&1 != 0 && dlv < o.Delivered[i]) {
				// no property promises that a report is generated; a generated report is a bundle of its own (C05)
				c.Class("a requested report had not come back after the final phase")
			}
		}
	})
}

// C11 end to end: whenever a node's forwarding code was told by its TCPCLv4 client that a transmission
// succeeded, the client on the other node handed that bundle up.
func TestVerifC11TwoNodes(t *testing.T) {
	u := vk.Unit{Property: "C11", Name: "c11.two-nodes", Quick: 64, Thorough: 1000,
		Rule: tnRule + ". Oracle (from the nodes' own log messages): for every bundle - application bundles and the status reports the nodes generate - the number of times a receiving TCPCLv4 client handed it up is at least the number of transmissions the sending node's convergence layer reported as successful. Non-trivial = a connection was cut in mid-stream or the client was unregistered with traffic in flight; distinct by case hash"}
	g := genTnCase()
	vk.Check(t, u, func(t *rapid.T) tnCase { return g.Draw(t, "case") }, func(c *vk.Ctx, cs tnCase) {
		w := tnRun(c, &cs)
		if w.noVerdict {
			w.close()
			return
		}
		defer func() {
			r := recover()
			w.close()
			if _, ok := r.(tnNoVerdict); r != nil && !ok {
				panic(r)
			}
		}()
		o := w.settle(func(o tnObservation) bool { return true })
		w.classify(o)
		if w.proxy.Cuts() > 0 || w.downs+w.restarts > 0 {
			c.NonTrivial()
		}
		judge := func() (string, int, int) {
			w.lg.mu.Lock()
			defer w.lg.mu.Unlock()
			for id, n := range w.lg.sent {
				if w.lg.handed[id] < n {
					return id, n, w.lg.handed[id]
				}
			}
			return "", 0, 0
		}
		if id, _, _ := judge(); id != "" {
			time.Sleep(100 * time.Millisecond)
			w.barriers()
			if id, n, h := judge(); id != "" {
				w.logf("%s", w.dump())
				w.failf("c11.success-without-delivery", "the TCPCLv4 client of the sending node reported %d successful transmissions of bundle %s, but the client of the receiving node handed it up %d times: a transfer was acknowledged and then dropped", n, id, h)
			}
		}
	})
}

// C06 end to end: what arrives on the other node is the submitted bundle after exactly one hop.
func TestVerifC06TwoNodes(t *testing.T) {
	u := vk.Unit{Property: "C06", Name: "c06.two-nodes", Quick: 64, Thorough: 1000,
		Rule: tnRule + ". Oracle, for every copy the other node's application receives: primary block and payload as submitted; the previous-node block names the submitting node; a hop-count block still has its limit and counts exactly one hop, however often the transmission was retried; a bundle-age block has grown by no more than the time since its submission (the lower bound is classified, not judged). Non-trivial = a copy with a hop-count or bundle-age block arrived; distinct by case hash"}
	g := genTnCase()
	vk.Check(t, u, func(t *rapid.T) tnCase { return g.Draw(t, "case") }, func(c *vk.Ctx, cs tnCase) {
		w := tnRun(c, &cs)
		if w.noVerdict {
			w.close()
			return
		}
		defer func() {
			r := recover()
			w.close()
			if _, ok := r.(tnNoVerdict); r != nil && !ok {
				panic(r)
			}
		}()
		all := func(o tnObservation) bool {
			for i := range w.subs {
				if o.Delivered[i] == 0 {
					return false
				}
			}
			return true
		}
		o := w.settle(all)
		end := time.Now()
		w.classify(o)
		for i, s := range w.subs {
			me := []string{tnNameA, tnNameB}[s.From]
			for _, b := range o.Copies[i] {
				b := b
				if s.Flags&48 != 0 {
					c.NonTrivial()
				}
				p, q := b.PrimaryBlock, s.Bundle.PrimaryBlock
				if !bytes.Equal(vfPayloadOf(&b), s.Payload) || p.SourceNode != q.SourceNode || p.Destination != q.Destination || p.ReportTo != q.ReportTo || p.CreationTimestamp != q.CreationTimestamp || p.Lifetime != q.Lifetime || p.BundleControlFlags != q.BundleControlFlags || p.CRCType != q.CRCType {
					w.failf("c06.primary-or-payload-changed", "bundle %d arrived with another primary block or payload: %v instead of %v (payload %d / %d bytes)", i, p, q, len(vfPayloadOf(&b)), len(s.Payload))
				}
				if pn, err := b.ExtensionBlock(bpv7.ExtBlockTypePreviousNodeBlock); err != nil {
					w.failf("c06.previous-node", "bundle %d arrived without a previous-node block", i)
				} else if got := pn.Value.(*bpv7.PreviousNodeBlock).Endpoint().String(); got != me {
					w.failf("c06.previous-node", "bundle %d arrived with previous node %s, it was forwarded by %s", i, got, me)
				}
				hc, err := b.ExtensionBlock(bpv7.ExtBlockTypeHopCountBlock)
				if s.Flags&16 != 0 {
					if err != nil {
						w.failf("c06.block-lost", "bundle %d was submitted with a hop-count block and arrived without", i)
					}
					h := hc.Value.(*bpv7.HopCountBlock)
					if h.Limit != 5 || h.Count != 1 {
						w.failf("c06.hop-count", "bundle %d was submitted with hop count 0 of 5 and arrived after one hop with %d of %d (%d transmissions failed before)", i, h.Count, h.Limit, w.lg.get(w.lg.failed, s.Bundle.ID().String()))
					}
				} else if err == nil {
					w.failf("c06.block-added", "bundle %d was submitted without a hop-count block and arrived with one", i)
				}
				ab, err := b.ExtensionBlock(bpv7.ExtBlockTypeBundleAgeBlock)
				if s.Flags&32 != 0 {
					if err != nil {
						w.failf("c06.block-lost", "bundle %d was submitted with a bundle-age block and arrived without", i)
					}
					age := time.Duration(ab.Value.(*bpv7.BundleAgeBlock).Age()) * time.Millisecond
					var waited time.Duration
					if s.LinkDown && !s.UpAt.IsZero() {
						waited = s.UpAt.Sub(s.At)
					}
					if age > end.Sub(s.At)+5*time.Millisecond {
						w.failf("c06.age", "bundle %d (zero creation time) arrived with age %v; it was submitted %v ago", i, age, end.Sub(s.At))
					}
					if age+5*time.Millisecond < waited {
						// The lower bound is classified only: in one thorough run two copies arrived with an age of 1-3 ms after a
						// wait of 8-13 ms for the link and the cases did not reproduce (see DESIGN.md, section 7); the precise
						// brackets of the age are judged by c06.forwarding on one node.
						c.Class("age below the time the bundle waited for the link (not judged)")
					}
				} else if err == nil {
					w.failf("c06.block-added", "bundle %d was submitted without a bundle-age block and arrived with one", i)
				}
			}
		}
	})
}
