package routing

import (
	"fmt"
	"strings"
	"testing"

	"github.com/dtn7/dtn7-go/pkg/bpv7"
	"github.com/dtn7/dtn7-go/pkg/storage"
	vk "github.com/dtn7/dtn7-go/pkg/verifkit"
	"pgregory.net/rapid"
)

// C13 — a bundle is never sent back to where it came from, nor twice to the same peer.

var c13Algos = []string{"epidemic", "epidemic", "prophet", "spray", "binary_spray", "dtlsr", "sensor-mule"}
var c13Ops = []string{"submit", "submit", "recv", "recv", "recv", "recvdup", "up", "up", "up", "up", "up2", "down", "script", "script", "script", "tick", "tick", "tick", "tick", "restart", "advertise", "advertise", "broadcast", "recvbroadcast"}

type c13Track struct {
	prev       string          // previous node of the accepted copy ("" none)
	dest       string          // destination node (peer name) or ""
	ok         map[string]bool // peers with a successful transmission
	failedLast map[string]bool // peers whose last transmission failed and that were not tried since
	broadcast  bool
	local      bool
}

func vfDTLSRBroadcast(srcNode string, prevNode string, seq uint64, staleMs uint64) bpv7.Bundle {
	src := bpv7.MustNewEndpointID("dtn://" + srcNode + "/")
	data := bpv7.DTLSRPeerData{ID: src, Timestamp: bpv7.DtnTimeNow() - bpv7.DtnTime(staleMs), Peers: map[bpv7.EndpointID]bpv7.DtnTime{bpv7.MustNewEndpointID("dtn://x1/"): 0}}
	bl := bpv7.Builder().CRC(bpv7.CRC32).Source(src).Destination(dtlsrBroadcastAddress).CreationTimestampNow().Lifetime("1m").
		BundleCtrlFlags(bpv7.MustNotFragmented).Canonical(bpv7.NewDTLSRBlock(data))
	if prevNode != "" {
		bl = bl.PreviousNodeBlock("dtn://" + prevNode + "/")
	}
	b, err := bl.PayloadBlock(byte(1)).Build()
	if err != nil {
		panic(err)
	}
	b.PrimaryBlock.CreationTimestamp[1] = seq
	return b
}

func c13Body(c *vk.Ctx, cs hCase) {
	// destinations never connect in most plans, so that the algorithm (not direct delivery) chooses the peers
	w := newHWorld(c, &cs)
	defer w.s.close()
	tracks := map[string]*c13Track{} // by wire ID
	advertised := false
	advertisedBy := map[string]bool{} // peers whose summary vector the node has got since its last start
	restarted := false
	nt := false
	failedThenTick := false
	get := func(id string) *c13Track {
		t, ok := tracks[id]
		if !ok {
			t = &c13Track{ok: map[string]bool{}, failedLast: map[string]bool{}}
			tracks[id] = t
		}
		return t
	}
	nBroadcast := uint64(0)
	seenOrigin := map[string]bool{}
	for k, op := range cs.Ops {
		applied := false
		switch op.Op {
		case "advertise":
			if cs.Algo != "prophet" {
				continue
			}
			w.step = fmt.Sprintf("#%d peers advertise a predictability of 0.9 for the far destination", k)
			w.s.logf("%s", w.step)
			c05ProphetAdvertise(w, "dtn://faraway/inbox")
			advertised = true
			for _, n := range w.names {
				if w.s.connected(n) {
					advertisedBy[n] = true
				}
			}
			applied = true
		case "broadcast":
			if cs.Algo != "dtlsr" {
				continue
			}
			w.step = fmt.Sprintf("#%d the node broadcasts its link state", k)
			w.s.logf("%s", w.step)
			w.s.core.routing.(*DTLSR).broadcast()
			applied = true
		case "recvbroadcast":
			if cs.Algo != "dtlsr" || cs.NPeers == 0 {
				continue
			}
			nBroadcast++
			prev := ""
			if op.Flag {
				prev = w.names[op.A%cs.NPeers]
			}
			// two origins only, so that later announcements of an origin meet stored data; half of
			// them carry link-state data older than what the node already has
			origin := fmt.Sprintf("origin%d", op.B%2)
			stale := uint64(0)
			if op.B >= 2 {
				stale = 5000
			}
			if seenOrigin[origin] {
				c.Classf("repeated link-state origin (stale data: %v)", stale > 0)
			}
			seenOrigin[origin] = true
			b := vfDTLSRBroadcast(origin, prev, nBroadcast, stale)
			w.step = fmt.Sprintf("#%d a link-state broadcast of %s arrives (previous node %q, data %d ms old)", k, origin, prev, stale)
			w.s.logf("%s", w.step)
			t := get(b.ID().String())
			t.prev, t.broadcast = prev, true
			w.s.receive(b)
			applied = true
		default:
			applied = w.apply(k, op)
			if applied && (op.Op == "submit" || op.Op == "recv") {
				st := w.bs[op.A%len(w.bs)]
				// the ID on the wire: received bundles keep theirs; submitted ones get it from the node (looked up below by payload)
				if op.Op == "recv" {
					t := get(st.b.ID().String())
					t.prev, t.dest = st.prevName, st.destNode
				}
			}
			if applied && op.Op == "restart" {
				advertised = false
				advertisedBy = map[string]bool{} // the peers' vectors are kept in memory only
				restarted = true
			}
		}
		if !applied {
			continue
		}
		c.Class("op=" + op.Op)
		news := w.absorb()
		attempted := map[string]map[string]bool{} // id -> peers tried in this event
		for _, x := range news {
			wb, err := vk.ReadBundle(x.Raw)
			if err != nil {
				w.s.failf("c13.harness", "undecodable bundle on the wire")
			}
			t := get(x.ID)
			if st := w.stateOf(x.Raw); st != nil {
				t.prev, t.dest, t.local = st.prevName, st.destNode, st.plan.Local
			}
			if wb.Primary.Dst.String() == dtlsrBroadcastAddress {
				t.broadcast = true
			} else if w.stateOf(x.Raw) == nil {
				continue // other node-generated bundles (PRoPHET metadata to a peer) are direct deliveries
			}
			direct := t.dest != "" && x.Peer == t.dest
			if attempted[x.ID] == nil {
				attempted[x.ID] = map[string]bool{}
			}
			attempted[x.ID][x.Peer] = true
			if direct {
				continue // direct delivery to the destination node is exempt
			}
			if t.prev != "" && x.Peer == t.prev {
				w.s.failf("c13.sent-back", "after %s: bundle %s was transmitted to %s, the node named in its previous-node block", w.step, x.ID, x.Peer)
			}
			if t.ok[x.Peer] {
				w.s.failf("c13.sent-twice", "after %s: bundle %s was transmitted to %s again although an earlier transmission to this peer had succeeded and the node still holds the bundle", w.step, x.ID, x.Peer)
			}
			if x.OK {
				t.ok[x.Peer] = true
				delete(t.failedLast, x.Peer)
			} else {
				t.failedLast[x.Peer] = true
				nt = true
			}
		}
		// a transmission reported as failed makes exactly that peer eligible again: at a retry tick it is tried again
		if op.Op == "tick" {
			for id, t := range tracks {
				for p := range t.failedLast {
					if attempted[id][p] {
						if !news2ok(news, id, p) {
							t.failedLast[p] = true
						}
						continue
					}
					if !w.s.connected(p) {
						continue
					}
					held := false
					for _, bi := range mustPending(w) {
						if b, err := bi.Parts[0].Load(); err == nil && b.ID().String() == id {
							held = true
						}
					}
					if !held {
						continue
					}
					expect := false
					if t.dest != "" && w.s.connected(t.dest) {
						// the destination node is connected: the node tries direct delivery only and does not ask the algorithm
						continue
					}
					if (cs.Algo == "spray" || cs.Algo == "binary_spray") && restarted {
						// the spray variants keep their per-bundle data in memory; after a restart they only deliver directly
						continue
					}
					switch cs.Algo {
					case "epidemic":
						expect = true
					case "sensor-mule":
						expect = !strings.HasPrefix(p, "sensor")
					case "dtlsr":
						expect = t.broadcast
					case "prophet":
						expect = advertised && advertisedBy[p] && !t.broadcast
						if pr, ok := w.s.core.routing.(*Prophet); ok && expect {
							// every vector a peer sends also raises the node's own predictability for the advertised
							// destination (transitivity accumulates): after many advertisements it passes the peers' 0.9,
							// and PRoPHET then rightly offers the bundle to nobody (the update rule itself is C19's subject)
							pr.dataMutex.RLock()
							own := pr.predictabilities[bpv7.MustNewEndpointID("dtn://faraway/inbox")]
							pr.dataMutex.RUnlock()
							if own >= 0.9 {
								expect = false
								c.Class("prophet: own predictability has passed the peers' (nobody eligible)")
							}
						}
					case "spray":
						// while copies remain: every failed transmission gave its copy back. The peer is eligible
						// again; it need not be chosen if the copies available at this tick went to other peers.
						okBefore := len(t.ok)
						for q := range attempted[id] {
							if news2ok(news, id, q) {
								okBefore--
							}
						}
						avail := cs.L - 1 - okBefore
						expect = t.local && avail > len(attempted[id])
					}
					if expect {
						failedThenTick = true
						if pr, ok := w.s.core.routing.(*Prophet); ok {
							// diagnostics: what the algorithm knows
							pr.dataMutex.RLock()
							d := bpv7.MustNewEndpointID("dtn://faraway/inbox")
							w.s.logf("prophet: own predictability for %v = %v; peers: %v", d, pr.predictabilities[d], func() map[string]float64 {
								m := map[string]float64{}
								for k, v := range pr.peerPredictabilities {
									m[k.String()] = v[d]
								}
								return m
							}())
							pr.dataMutex.RUnlock()
							if bi, err := w.s.core.store.QueryId(bpv7.BundleID{}); err == nil {
								_ = bi
							}
							for _, bi := range mustPending(w) {
								w.s.logf("pending %s sent=%v", bi.Id, bi.Properties["routing/prophet/sent"])
							}
						}
						w.s.failf("c13.failed-peer-not-eligible", "after %s: the last transmission of bundle %s to %s had failed, %s is still connected and the node still holds the bundle, but the retry tick did not offer the bundle to %s again (algorithm %s)", w.step, id, p, p, p, cs.Algo)
					}
				}
			}
			for _, t := range tracks {
				if len(t.failedLast) > 0 {
					failedThenTick = true
				}
			}
		}
	}
	if nt && failedThenTick {
		c.NonTrivial()
	}
	c.Class("algo=" + cs.Algo)
}

func news2ok(news []vfSend, id, peer string) bool {
	for _, x := range news {
		if x.ID == id && x.Peer == peer && x.OK {
			return true
		}
	}
	return false
}

func mustPending(w *hWorld) []storage.BundleItem {
	bis, err := w.s.core.store.QueryPending()
	if err != nil {
		w.s.failf("sim.harness", "QueryPending: %v", err)
	}
	return bis
}

func TestVerifC13Histories(t *testing.T) {
	u := vk.Unit{Property: "C13", Name: "c13.histories", Quick: 420, Thorough: 20000,
		Rule: "histories as C05 with 1..5 peers, receptions carrying any peer's ID as previous node, send failures, retry ticks and restarts, plus: peers advertising PRoPHET vectors, the node broadcasting its DTLSR link state and link-state broadcasts arriving from peers; algorithms epidemic, prophet, spray, binary_spray, dtlsr, sensor-mule; oracle = invariant over the per-peer send log keyed by the bundle ID on the wire: no transmission to the previous node, none after a successful one to the same peer (across ticks and restarts), and after a failed one the peer is offered the bundle again at the next retry tick where the algorithm's other conditions hold; direct delivery to the destination node is exempt; non-trivial = >= 1 failed transmission followed by a retry tick; distinct by case hash"}
	g := genHistory(c13Algos, 5, c13Ops, 26)
	vk.Check(t, u, func(t *rapid.T) hCase {
		cs := g.Draw(t, "history")
		// most destinations never connect, so that the routing algorithm chooses the peers
		for i := range cs.Bundles {
			if rapid.IntRange(0, 3).Draw(t, "far") > 0 {
				cs.Bundles[i].Dest = cs.NPeers
			}
			if cs.Algo == "binary_spray" && rapid.IntRange(0, 3).Draw(t, "hascopies") > 0 {
				cs.Bundles[i].Copies = rapid.IntRange(1, 8).Draw(t, "copies")
			}
		}
		// a prelude that makes failures likely: peers appear, some of them with failing transmissions
		var pre []hOp
		for p := 0; p < cs.NPeers; p++ {
			if rapid.Bool().Draw(t, "preup") {
				pre = append(pre, hOp{Op: "up", A: p})
				if rapid.Bool().Draw(t, "prefail") {
					pre = append(pre, hOp{Op: "script", A: p, Flag: false})
				}
			}
		}
		cs.Ops = append(pre, cs.Ops...)
		return cs
	}, c13Body)
}

// ---- directed scenarios: every combination of a small set of circumstances ---------------------

type c13Dir struct {
	Algo     string `json:"algo"`
	Local    bool   `json:"local"`      // submitted locally (else received from P = peer 0)
	DestPeer bool   `json:"dest_peer"`  // destination is peer D (= peer 1), else a node that never connects
	DUp      bool   `json:"d_up"`       // D connected when the bundle arrives
	DFails   bool   `json:"d_fails"`    // transmissions to D fail
	DDown    bool   `json:"d_down"`     // D disappears afterwards
	PLate    bool   `json:"p_late"`     // P appears only after the bundle arrived
	Q        int    `json:"q"`          // third peer: 0 never, 1 before the bundle, 2 after it, 3 before it and failing first, 4 before it over two convergence layers, 5 after it over two layers
	Restart  bool   `json:"restart"`    // orderly restart before the last ticks
	Copies   int    `json:"copies"`     // binary spray: copies announced in the received bundle (0 = no block)
	Dup      bool   `json:"dup,omitempty"` // received bundles: a second copy arrives (from P again) after the first retry tick, while the node holds the bundle
	Bcast    int    `json:"bcast"`      // dtlsr: link-state broadcasts of one origin arriving via P: 0 none, 1 = two fresh ones, 2 = fresh then stale, 3 = fresh, stale, fresh
}

func (d c13Dir) history() hCase {
	cs := hCase{Algo: d.Algo, NPeers: 3, L: 4}
	if d.Algo != "spray" && d.Algo != "binary_spray" {
		cs.L = 0
	}
	dest := 3
	if d.DestPeer {
		dest = 1
	}
	cs.Bundles = []hBundle{{Local: d.Local, Dest: dest, Prev: 0, Copies: d.Copies}}
	op := func(o string, a int, f bool) { cs.Ops = append(cs.Ops, hOp{Op: o, A: a, Flag: f}) }
	if !d.PLate {
		op("up", 0, false)
	}
	if d.DUp {
		op("up", 1, false)
		if d.DFails {
			op("script", 1, false)
		}
	}
	if d.Q == 1 || d.Q == 3 || d.Q == 4 {
		op("up", 2, false)
		if d.Q == 3 {
			op("script", 2, false)
		}
		if d.Q == 4 {
			op("up2", 2, false)
		}
	}
	op("advertise", 0, false)
	if d.Local {
		op("submit", 0, false)
	} else {
		op("recv", 0, false)
	}
	bc := func(stale bool) {
		b := 0
		if stale {
			b = 2
		}
		cs.Ops = append(cs.Ops, hOp{Op: "recvbroadcast", A: 0, B: b, Flag: true})
	}
	switch d.Bcast {
	case 1:
		bc(false)
		bc(false)
	case 2:
		bc(false)
		bc(true)
	case 3:
		bc(false)
		bc(true)
		bc(false)
	}
	op("tick", 0, false)
	if d.Dup && !d.Local {
		op("recvdup", 0, false)
	}
	if d.DDown {
		op("down", 1, false)
	}
	if d.PLate {
		op("up", 0, false)
	}
	if d.Q == 2 || d.Q == 5 {
		op("up", 2, false)
	}
	if d.Q == 5 {
		op("up2", 2, false)
	}
	if d.Q == 3 {
		op("script", 2, true)
	}
	op("advertise", 0, false)
	op("tick", 0, false)
	if d.Restart {
		op("restart", 0, false)
		op("up", 0, false)
		op("up", 2, false)
		op("advertise", 0, false)
	}
	op("tick", 0, false)
	op("tick", 0, false)
	return cs
}

func TestVerifC13Directed(t *testing.T) {
	u := vk.Unit{Property: "C13", Name: "c13.directed",
		Rule: "exhaustive product of circumstances around ONE bundle and three peers P (previous node), D (destination node) and Q (relay), per algorithm (epidemic, prophet, spray, binary_spray with 0/1/5 announced copies, dtlsr, sensor-mule): submitted or received from P; destination D or a node that never connects; D connected at arrival or not, its transmissions failing or not, D disappearing afterwards or not; P connected before or only after the arrival; Q never / before / after / before-and-failing-first / connected over two convergence layers (before or after); orderly restart or not; a second copy of a received bundle arriving from P after the first retry tick or not; for dtlsr additionally two or three link-state broadcasts of one origin arriving via P with fresh or stale link-state data; then retry ticks. Oracle as c13.histories. Every case is non-trivial (the previous node is connected while the bundle is held); distinct by tuple"}
	vk.Enumerate(t, u, true, func(yield func(c13Dir) bool) {
		i := 0
		bools := []bool{false, true}
		for _, algo := range []string{"epidemic", "prophet", "spray", "binary_spray", "dtlsr", "sensor-mule"} {
			copies := []int{0}
			if algo == "binary_spray" {
				copies = []int{0, 1, 5}
			}
			for _, local := range bools {
				for _, cp := range copies {
					if local && cp != 0 {
						continue
					}
					for _, destPeer := range bools {
						for _, dUp := range bools {
							for _, dFails := range bools {
								for _, dDown := range bools {
									if !destPeer && (dUp || dFails || dDown) {
										continue
									}
									if !dUp && (dFails || dDown) {
										continue
									}
									for _, pLate := range bools {
										for q := 0; q <= 5; q++ {
											for _, restart := range bools {
												bcasts := []int{0}
												if algo == "dtlsr" && !destPeer {
													bcasts = []int{0, 1, 2, 3}
												}
												for _, bcast := range bcasts {
													for _, dup := range bools {
														if dup && (local || bcast != 0) {
															continue
														}
														i++
														if !vk.ShardOwns(i) {
															continue
														}
														if !yield(c13Dir{algo, local, destPeer, dUp, dFails, dDown, pLate, q, restart, cp, dup, bcast}) {
															return
														}
													}
												}
											}
										}
									}
								}
							}
						}
					}
				}
			}
		}
	}, func(c *vk.Ctx, d c13Dir) {
		c.NonTrivial()
		c13Body(c, d.history())
	})
}
