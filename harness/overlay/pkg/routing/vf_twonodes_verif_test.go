package routing

import (
	"bytes"
	"fmt"
	"net"
	"sort"
	"strings"
	"sync"
	"sync/atomic"
	"time"

	log "github.com/sirupsen/logrus"
	"pgregory.net/rapid"

	"github.com/dtn7/dtn7-go/pkg/bpv7"
	"github.com/dtn7/dtn7-go/pkg/cla/tcpclv4"
	vk "github.com/dtn7/dtn7-go/pkg/verifkit"
)

// Two REAL nodes: two Cores with their own stores, application agents and CLA managers in one process,
// connected by a real TCPCLv4 session over loopback. Node A dials, node B listens; between them sits a TCP
// forwarder of the harness that can cut the connection after a chosen number of bytes in a chosen direction
// (so that a transfer breaks in the middle, or its acknowledgement is lost) - the dialed client then comes
// back by itself through the CLA manager, as in a deployment. Nothing between the application agent of one
// node and the application agent of the other is scripted.
//
// The engine plays a history and returns what the applications saw; the units of C05, C07 and C15 judge it.

const (
	tnNameA = "dtn://tna/"
	tnNameB = "dtn://tnb/"
)

// tnLog collects, from the nodes' own log messages, where a bundle has been: "sent" = the node's forwarding
// code saw a convergence layer report a successful transmission; "handed" = a TCPCLv4 client handed a received
// bundle up to its manager; "processed" = a Core began to process a received bundle.
type tnLog struct {
	mu        sync.Mutex
	sent      map[string]int
	failed    map[string]int
	handed    map[string]int
	processed map[string]int
}

var tnLogCur atomic.Value // of *tnLog

type tnLogHook struct{}

func (tnLogHook) Levels() []log.Level { return []log.Level{log.InfoLevel, log.WarnLevel} }

func (tnLogHook) Fire(e *log.Entry) error {
	l, _ := tnLogCur.Load().(*tnLog)
	if l == nil {
		return nil
	}
	var m map[string]int
	switch e.Message {
	case "Sending bundle succeeded":
		m = l.sent
	case "Sending bundle failed":
		m = l.failed
	case "Received Bundle":
		m = l.handed
	case "Processing new received bundle":
		m = l.processed
	default:
		return nil
	}
	id := ""
	switch v := e.Data["bundle"].(type) {
	case bpv7.BundleID:
		id = v.String()
	case bpv7.Bundle:
		id = v.ID().String()
	case *bpv7.Bundle:
		id = v.ID().String()
	case string:
		id = v
	default:
		id = fmt.Sprint(v)
	}
	l.mu.Lock()
	m[id]++
	l.mu.Unlock()
	return nil
}

var tnHookOnce sync.Once

func tnInstallLog() *tnLog {
	tnHookOnce.Do(func() { log.AddHook(tnLogHook{}) })
	l := &tnLog{sent: map[string]int{}, failed: map[string]int{}, handed: map[string]int{}, processed: map[string]int{}}
	tnLogCur.Store(l)
	log.SetLevel(log.InfoLevel)
	return l
}

func tnRemoveLog() {
	log.SetLevel(log.PanicLevel)
	tnLogCur.Store((*tnLog)(nil))
}

func (l *tnLog) get(m map[string]int, id string) int {
	l.mu.Lock()
	defer l.mu.Unlock()
	return m[id]
}

type tnOp struct {
	Op    string `json:"op"`    // up, down, flap, subA, subB, tickA, tickB, restartA, restartB
	K     int    `json:"k"`     // flap: index into tnCutAfter; sub*: index into tnSizes
	Dir   int    `json:"dir"`   // flap: 0 = cut counts bytes A->B, 1 = B->A
	Rst   bool   `json:"rst"`   // flap: reset instead of an orderly close
	Flags int    `json:"flags"` // sub*: bit0 delivery report requested, bit1 reception report requested, bit2 second endpoint, bit3 report time requested, bit4 hop-count block (limit 5), bit5 zero creation time + bundle-age block
}

type tnCase struct {
	Algo string `json:"algo"`
	Ops  []tnOp `json:"ops"`
}

var tnCutAfter = []int64{0, 1, 7, 17, 18, 19, 36, 40, 41, 60, 100, 150, 260, 333, 1000, 4000, 20000, 66000}
var tnSizes = []int{3, 200, 3000, 70000, 1100000}

type tnSub struct {
	From    int
	Dest    string
	Payload []byte
	Flags   int
	LinkDown bool      // no link when the bundle was submitted
	At       time.Time // submission
	UpAt     time.Time // the first "link up" after the submission began (zero: none yet)
	Bundle  bpv7.Bundle
}

type tnWorld struct {
	c      *vk.Ctx
	cs     *tnCase
	n      [2]*vfSim
	old    [2][]bpv7.Bundle // what the application agents of earlier incarnations received
	subs   []*tnSub
	proxy  *vk.Proxy
	lnB    *tcpclv4.TCPListener
	client *tcpclv4.Client
	trace  []string
	flaps  int
	downs  int
	restarts int
	lg     *tnLog
	noVerdict bool // the engine could not bring the case to a judgeable end
}

func (w *tnWorld) logf(f string, a ...interface{}) {
	w.trace = append(w.trace, fmt.Sprintf(f, a...))
	for _, n := range w.n {
		if n != nil {
			n.trace = w.trace
		}
	}
}

func (w *tnWorld) failf(tag, f string, a ...interface{}) {
	w.c.Failf(tag, "%s\nhistory: %v", fmt.Sprintf(f, a...), w.trace)
}

func tnConf(algo string) RoutingConf {
	conf := vfConf(algo)
	if algo == "sensor-mule" {
		inner := vfConf("epidemic")
		conf.SensorMuleConf = SensorNetworkMuleConfig{Algorithm: &inner, SensorNodeRegex: "^dtn://sensor[0-9]+/.*$"}
	}
	return conf
}

func newTnWorld(c *vk.Ctx, cs *tnCase) *tnWorld {
	w := &tnWorld{c: c, cs: cs}
	w.lg = tnInstallLog()
	w.n[0] = vfNewSimNamed(c, tnConf(cs.Algo), false, tnNameA)
	w.n[1] = vfNewSimNamed(c, tnConf(cs.Algo), false, tnNameB)
	w.n[0].slow, w.n[1].slow = 6, 6
	p, err := vk.NewProxy()
	if err != nil {
		w.failf("sim.harness", "proxy: %v", err)
	}
	w.proxy = p
	return w
}

func (w *tnWorld) close() {
	if w.proxy != nil {
		w.proxy.Disarm()
	}
	if w.client != nil {
		w.linkDown()
	}
	if w.lnB != nil {
		w.closeListener()
		w.lnB = nil
	}
	if w.proxy != nil {
		w.proxy.Close()
	}
	w.n[0].close()
	w.n[1].close()
	tnRemoveLog()
}

// startListener starts B's TCPCLv4 listener on a port that is verified to be held by this listener (Start is
// called by the harness, with the manager registered as the provider registration does, so that a failed bind is
// seen and no connection ever goes to a port of another process).
func (w *tnWorld) startListener() {
	for try := 0; try < 8; try++ {
		probe, err := net.Listen("tcp", "127.0.0.1:0")
		if err != nil {
			continue
		}
		addr := probe.Addr().String()
		_ = probe.Close()
		ln := tcpclv4.ListenTCP(addr, w.n[1].nodeID)
		ln.RegisterManager(w.n[1].core.claManager)
		if err := ln.Start(); err != nil {
			continue
		}
		w.lnB = ln
		w.proxy.SetTarget(addr)
		return
	}
	w.failf("sim.harness", "no loopback port for the TCPCLv4 listener")
}

// closeListener stops B's listener without waiting for it: its accept loop starts the passive client of every
// connection it has accepted one after the other, and a connection that died in the meantime holds it for the 15 s of
// TCPCLv4's start-up limit each. A listener that is being left is not worth that wait.
func (w *tnWorld) closeListener() {
	ln := w.lnB
	go func() {
		defer func() { _ = recover() }()
		_ = ln.Close()
	}()
}

func (w *tnWorld) bHasSenderTo(peer bpv7.EndpointID) bool {
	for _, s := range w.n[1].core.claManager.Sender() {
		if s.GetPeerEndpointID() == peer {
			return true
		}
	}
	return false
}

func (w *tnWorld) aHasSession() bool {
	for _, s := range w.n[0].core.claManager.Sender() {
		if s.GetPeerEndpointID() == w.n[1].nodeID {
			return true
		}
	}
	return false
}

func (w *tnWorld) barriers() {
	w.n[0].barrier(w.n[0].inlet)
	w.n[1].barrier(w.n[1].inlet)
}

// waitSession waits until both nodes list a sender towards the other.
func (w *tnWorld) waitSession(limit time.Duration) bool {
	deadline := time.Now().Add(limit)
	for time.Now().Before(deadline) {
		if w.aHasSession() && w.bHasSenderTo(w.n[0].nodeID) {
			return true
		}
		time.Sleep(time.Millisecond)
	}
	return false
}

func (w *tnWorld) linkUp() {
	if w.client != nil {
		return
	}
	for _, sub := range w.subs {
		if sub.UpAt.IsZero() {
			sub.UpAt = time.Now()
		}
	}
	if w.lnB == nil {
		w.startListener()
	}
	w.client = tcpclv4.DialTCP(w.proxy.Addr(), w.n[0].nodeID, false)
	w.n[0].core.RegisterConvergable(w.client)
	if !w.waitSession(150 * time.Second) {
		// a TCPCLv4 Start that meets a dead connection holds its manager (or the listener's accept loop) for 15 s, and
		// the manager tries again every ten seconds; several of these in a row are slow, not wrong, and no listed
		// property is about how fast a session comes up: the case ends here without a verdict
		w.c.Excluded("no session within 150 s (no verdict)")
		panic(tnNoVerdict{})
	}
	w.barriers()
}

func (w *tnWorld) linkDown() {
	if w.client == nil {
		return
	}
	w.proxy.Disarm()
	done := make(chan struct{})
	go func() {
		defer func() { _ = recover(); close(done) }()
		w.n[0].core.claManager.Unregister(w.client)
	}()
	select {
	case <-done:
	case <-time.After(40 * time.Second):
		w.failf("sim.stuck", "unregistering the TCPCLv4 client does not return (40 s)")
	}
	w.proxy.Kill(false)
	w.client = nil
	deadline := time.Now().Add(20 * time.Second)
	for time.Now().Before(deadline) && (w.bHasSenderTo(w.n[0].nodeID) || w.aHasSession()) {
		time.Sleep(time.Millisecond)
	}
	w.barriers()
}

func (w *tnWorld) build(from int, op tnOp) *tnSub {
	i := len(w.subs)
	me, other := tnNameA, tnNameB
	if from == 1 {
		me, other = tnNameB, tnNameA
	}
	dest := other + "app"
	if op.Flags&4 != 0 {
		dest = other + "app2"
	}
	size := tnSizes[op.K%len(tnSizes)]
	payload := []byte(fmt.Sprintf("tn-%d-from%d|", i, from))
	payload = append(payload, vk.PayloadBytes(size, uint64(i)+1)...)
	var flags bpv7.BundleControlFlags
	if op.Flags&1 != 0 {
		flags |= bpv7.StatusRequestDelivery
	}
	if op.Flags&2 != 0 {
		flags |= bpv7.StatusRequestReception
	}
	if op.Flags&8 != 0 {
		flags |= bpv7.RequestStatusTime
	}
	bl := bpv7.Builder().CRC(bpv7.CRC32).Source(me + "app").Destination(dest).ReportTo(me + "app2").Lifetime("1h").BundleCtrlFlags(flags)
	if op.Flags&32 != 0 {
		bl = bl.CreationTimestampEpoch().BundleAgeBlock(uint64(0))
	} else {
		bl = bl.CreationTimestampNow()
	}
	if op.Flags&16 != 0 {
		bl = bl.HopCountBlock(5)
	}
	b, err := bl.PayloadBlock(payload).Build()
	if err != nil {
		w.failf("sim.harness", "bundle: %v", err)
	}
	return &tnSub{From: from, Dest: dest, Payload: payload, Flags: op.Flags, Bundle: b, LinkDown: w.client == nil}
}

func (w *tnWorld) apply(op tnOp) {
	switch op.Op {
	case "up":
		w.logf("link up")
		w.linkUp()
	case "down":
		if w.client == nil {
			return
		}
		w.logf("link down (A unregisters its client)")
		w.downs++
		w.linkDown()
	case "flap":
		if w.client == nil {
			w.logf("link up")
			w.linkUp()
		}
		if !w.waitSession(20 * time.Second) {
			return
		}
		after := tnCutAfter[op.K%len(tnCutAfter)]
		w.logf("the connection will be cut after %d more bytes %s (rst=%v)", after, map[int]string{0: "A->B", 1: "B->A"}[op.Dir&1], op.Rst)
		w.flaps++
		w.proxy.Arm(op.Dir&1, after, op.Rst)
	case "subA", "subB":
		from := 0
		if op.Op == "subB" {
			from = 1
		}
		sub := w.build(from, op)
		w.subs = append(w.subs, sub)
		w.logf("application of %s submits bundle %d (%d bytes, flags %d) for %s", map[int]string{0: "A", 1: "B"}[from], len(w.subs)-1, len(sub.Payload), op.Flags, sub.Dest)
		// the node assigns the sequence number in place
		sub.At = time.Now()
		w.n[from].core.SendBundle(&sub.Bundle)
	case "tickA":
		w.logf("retry tick at A")
		w.n[0].tickPending()
	case "tickB":
		w.logf("retry tick at B")
		w.n[1].tickPending()
	case "restartA", "restartB":
		x := 0
		if op.Op == "restartB" {
			x = 1
		}
		w.logf("link down, then orderly restart of %s", map[int]string{0: "A", 1: "B"}[x])
		w.linkDown()
		w.restarts++
		if x == 1 && w.lnB != nil {
			w.closeListener()
			w.lnB = nil
		}
		w.n[x].app.flush()
		w.old[x] = append(w.old[x], w.n[x].app.received()...)
		w.n[x].restart()
	}
}

// deliveries returns everything the application agent of node x received so far, over all incarnations.
func (w *tnWorld) deliveries(x int) []bpv7.Bundle {
	return append(append([]bpv7.Bundle(nil), w.old[x]...), w.n[x].app.received()...)
}

// pendingPayloads returns the payloads of the bundles that are pending in node x's store.
func (w *tnWorld) pendingPayloads(x int) map[string]bool {
	out := map[string]bool{}
	bis, err := w.n[x].core.store.QueryPending()
	if err != nil {
		return out
	}
	for _, bi := range bis {
		if len(bi.Parts) != 1 {
			continue
		}
		b, err := bi.Parts[0].Load()
		if err != nil {
			continue
		}
		out[string(vfPayloadOf(&b))] = true
	}
	return out
}

type tnReport struct {
	BundleID string // ID of the report bundle
	Src      string
	Dst      string
	Flags    uint64
	Ref      string // the bundle the report is about ("source-time-sequence")
	Status   int    // position of the asserted item (-1: none)
	NAssert  int
	HasTime  bool
	Reason   uint64
	Err      string
}

// tnIDOf is a bundle's ID in the notation of the independent report decoder.
func tnIDOf(b *bpv7.Bundle) string {
	return fmt.Sprintf("%s-%d-%d", b.PrimaryBlock.SourceNode.String(), uint64(b.PrimaryBlock.CreationTimestamp[0]), uint64(b.PrimaryBlock.CreationTimestamp[1]))
}

// tnObservation is what the judges look at.
type tnObservation struct {
	// per submitted bundle: how often the destination's agent got it
	Delivered []int
	// the delivered copies, per submitted bundle
	Copies [][]bpv7.Bundle
	// bundles an agent got that no application submitted and that are no status reports
	Strange []string
	// status reports per node (receiving application), distinct by report bundle ID
	Reports [2][]tnReport
	// per submitted bundle: pending at source / at destination
	PendingSrc, PendingDst []bool
}

func (w *tnWorld) observe() tnObservation {
	var o tnObservation
	o.Delivered = make([]int, len(w.subs))
	o.Copies = make([][]bpv7.Bundle, len(w.subs))
	o.PendingSrc = make([]bool, len(w.subs))
	o.PendingDst = make([]bool, len(w.subs))
	pend := [2]map[string]bool{w.pendingPayloads(0), w.pendingPayloads(1)}
	for x := 0; x < 2; x++ {
		seenRep := map[string]bool{}
		for _, b := range w.deliveries(x) {
			b := b
			if b.PrimaryBlock.BundleControlFlags.Has(bpv7.AdministrativeRecordPayload) {
				id := b.ID().String()
				if seenRep[id] {
					continue
				}
				seenRep[id] = true
				r := tnReport{BundleID: id, Src: b.PrimaryBlock.SourceNode.String(), Dst: b.PrimaryBlock.Destination.String(), Flags: uint64(b.PrimaryBlock.BundleControlFlags)}
				if rep, ok, err := c15Decode(vfEnc(&b)); err == nil && ok {
					r.Ref, r.Status, r.NAssert, r.HasTime, r.Reason = rep.ref, rep.asserted, rep.nAssert, rep.hasTime, rep.reason
				} else {
					r.Err = fmt.Sprintf("%v", err)
				}
				o.Reports[x] = append(o.Reports[x], r)
				continue
			}
			p := vfPayloadOf(&b)
			found := false
			for i, s := range w.subs {
				if s.From != x && bytes.HasPrefix(p, []byte(fmt.Sprintf("tn-%d-from%d|", i, s.From))) {
					o.Delivered[i]++
					o.Copies[i] = append(o.Copies[i], b)
					found = true
				}
			}
			if !found {
				o.Strange = append(o.Strange, fmt.Sprintf("node %d: %s (%d payload bytes)", x, b.ID(), len(p)))
			}
		}
	}
	for i, s := range w.subs {
		o.PendingSrc[i] = pend[s.From][string(s.Payload)]
		o.PendingDst[i] = pend[1-s.From][string(s.Payload)]
	}
	return o
}

// settle brings the link up without faults and lets both nodes retry until nothing changes any more or
// `done` says that the judge has what it waits for. A time limit hit is no verdict by itself: the judges state
// what was missing.
func (w *tnWorld) settle(done func(o tnObservation) bool) tnObservation {
	w.proxy.Disarm()
	w.logf("final phase: fault-free link, retry ticks on both nodes")
	deadline := time.Now().Add(25 * time.Second)
	var o tnObservation
	for round := 0; ; round++ {
		if w.client == nil {
			w.linkUp()
		} else if !w.waitSession(20 * time.Second) {
			// the client gave up (its retry budget is used up): connect again, as a discovery would
			w.linkDown()
			w.linkUp()
		}
		w.n[0].tickPending()
		w.n[1].tickPending()
		w.barriers()
		o = w.observe()
		if done(o) {
			return o
		}
		if time.Now().After(deadline) {
			// what a node has taken over from its convergence layer a moment ago may not have reached its
			// application yet: look a few more times before anything is concluded from what is missing
			for extra := 0; extra < 6; extra++ {
				time.Sleep(300 * time.Millisecond)
				w.barriers()
				if o = w.observe(); done(o) {
					break
				}
			}
			return o
		}
		time.Sleep(time.Duration(2+round) * time.Millisecond)
	}
}

func tnAlgos() []string {
	return []string{"epidemic", "epidemic", "spray", "binary_spray", "prophet", "dtlsr", "sensor-mule"}
}

func genTnCase() *rapid.Generator[tnCase] {
	ops := []string{"up", "up", "down", "flap", "flap", "flap", "flap", "subA", "subA", "subA", "subA", "subB", "subB", "subB", "tickA", "tickB", "restartA", "restartB"}
	return rapid.Custom(func(t *rapid.T) tnCase {
		cs := tnCase{Algo: rapid.SampledFrom(tnAlgos()).Draw(t, "algo")}
		maxSize := 4
		if vk.Tier() == "thorough" {
			maxSize = 5
		}
		cs.Ops = rapid.SliceOfN(rapid.Custom(func(t *rapid.T) tnOp {
			op := tnOp{Op: rapid.SampledFrom(ops).Draw(t, "op")}
			switch op.Op {
			case "flap":
				op.K = rapid.IntRange(0, len(tnCutAfter)-1).Draw(t, "after")
				op.Dir = rapid.IntRange(0, 1).Draw(t, "dir")
				op.Rst = rapid.Bool().Draw(t, "rst")
			case "subA", "subB":
				op.K = rapid.IntRange(0, maxSize-1).Draw(t, "size")
				op.Flags = rapid.IntRange(0, 63).Draw(t, "flags")
			}
			return op
		}), 3, 12).Draw(t, "ops")
		return cs
	})
}

// tnNoVerdict ends a case that the engine cannot bring to a judgeable end (see linkUp).
type tnNoVerdict struct{}

// tnRun plays the case and returns the world (to be closed by the caller) and the classes for the evidence.
func tnRun(c *vk.Ctx, cs *tnCase) *tnWorld {
	w := newTnWorld(c, cs)
	func() {
		defer func() {
			if r := recover(); r != nil {
				if _, ok := r.(tnNoVerdict); ok {
					w.noVerdict = true
					return
				}
				w.close()
				panic(r)
			}
		}()
		for _, op := range cs.Ops {
			w.apply(op)
		}
	}()
	return w
}

func (w *tnWorld) classify(o tnObservation) {
	c := w.c
	c.Class("algo " + w.cs.Algo)
	if w.proxy.Cuts() > 0 {
		c.Class("a connection was cut in mid-stream")
	}
	if w.restarts > 0 {
		c.Class("a node restarted")
	}
	dup := false
	for _, n := range o.Delivered {
		if n > 1 {
			dup = true
		}
	}
	if dup {
		c.Class("a bundle arrived twice (retransmission after a lost acknowledgement)")
	}
	if len(o.Reports[0])+len(o.Reports[1]) > 0 {
		c.Class("status reports travelled back")
	}
}

func tnSortedKeys(m map[string]int) string {
	var ks []string
	for k, v := range m {
		ks = append(ks, fmt.Sprintf("%s×%d", k, v))
	}
	sort.Strings(ks)
	return strings.Join(ks, ", ")
}

// dump describes what the applications and the stores hold (for failure messages).
func (w *tnWorld) dump() string {
	var sb strings.Builder
	for x := 0; x < 2; x++ {
		fmt.Fprintf(&sb, " | node %d application got:", x)
		for _, b := range w.deliveries(x) {
			b := b
			p := vfPayloadOf(&b)
			if len(p) > 14 {
				p = p[:14]
			}
			fmt.Fprintf(&sb, " %s(%q)", b.ID(), p)
		}
		fmt.Fprintf(&sb, "; pending:")
		if bis, err := w.n[x].core.store.QueryPending(); err == nil {
			for _, bi := range bis {
				fmt.Fprintf(&sb, " %s", bi.Id)
			}
		}
	}
	for i, sub := range w.subs {
		id := sub.Bundle.ID().String()
		fmt.Fprintf(&sb, " | bundle %d = %s: transmissions reported successful %d, failed %d; handed up by the receiving client %d; processed by the receiving node %d", i, id,
			w.lg.get(w.lg.sent, id), w.lg.get(w.lg.failed, id), w.lg.get(w.lg.handed, id), w.lg.get(w.lg.processed, id))
	}
	return sb.String()
}
