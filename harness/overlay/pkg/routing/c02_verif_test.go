package routing

import (
	"bytes"
	"fmt"
	"strings"
	"testing"

	"github.com/dtn7/dtn7-go/pkg/bpv7"
	vk "github.com/dtn7/dtn7-go/pkg/verifkit"
	"pgregory.net/rapid"
)

// C02 (node part) — every bundle the node itself produces or passes on obeys the BPv7
// structural rules and is accepted by the parser: status reports, pongs, routing metadata
// (PRoPHET summary vectors, DTLSR link-state broadcasts), and forwarded bundles after the node
// added / updated / removed blocks.

type c02NodeIn struct {
	Spec vk.BundleSpec `json:"spec"`
	Dst  int           `json:"dst"` // 0 far, 1 peer p0, 2 local app, 3 local ping agent, 4 local endpoint without agent
	Rpt  int           `json:"rpt"` // 0 peer rpt, 1 far, 2 local app2, 3 as generated
	Req  uint64        `json:"req"` // status request flags or-ed in (only where the rules allow)
}

type c02NodeCase struct {
	Algo    string      `json:"algo"`
	Bundles []c02NodeIn `json:"bundles"`
	Ops     []hOp       `json:"ops"`
}

var c02NodeOps = []string{"recv", "recv", "recv", "up", "up", "down", "script", "tick", "tick", "advertise", "broadcast", "restart"}

func genC02Node(t *rapid.T) c02NodeCase {
	cs := c02NodeCase{Algo: rapid.SampledFrom([]string{"epidemic", "spray", "binary_spray", "prophet", "dtlsr", "sensor-mule"}).Draw(t, "algo")}
	n := rapid.IntRange(1, 4).Draw(t, "n")
	for i := 0; i < n; i++ {
		o := vk.GenOpts{SmallPayload: true, PrimaryCRC: true, NoFragment: rapid.IntRange(0, 3).Draw(t, "nofrag") > 0}
		in := c02NodeIn{Spec: vk.GenBundle(o).Draw(t, "bundle"), Dst: rapid.IntRange(0, 4).Draw(t, "dst"), Rpt: rapid.IntRange(0, 3).Draw(t, "rpt")}
		if rapid.Bool().Draw(t, "req") {
			in.Req = rapid.SampledFrom([]uint64{vk.FReqRecv, vk.FReqFwd, vk.FReqDeliv, vk.FReqDel, vk.FReqAll, vk.FReqAll | vk.FStatusTime}).Draw(t, "reqflags")
		}
		cs.Bundles = append(cs.Bundles, in)
	}
	cs.Ops = rapid.SliceOfN(rapid.Custom(func(t *rapid.T) hOp {
		return hOp{Op: rapid.SampledFrom(c02NodeOps).Draw(t, "op"), A: rapid.IntRange(0, 7).Draw(t, "a"), Flag: rapid.Bool().Draw(t, "flag")}
	}), 3, 14).Draw(t, "ops")
	return cs
}

func c02NodeBody(c *vk.Ctx, cs c02NodeCase) {
	conf := vfConf(cs.Algo)
	if cs.Algo == "sensor-mule" {
		inner := vfConf("epidemic")
		conf.SensorMuleConf = SensorNetworkMuleConfig{Algorithm: &inner, SensorNodeRegex: "^dtn://sensor[0-9]+/.*$"}
	}
	s := vfNewSim(c, conf)
	defer s.close()
	pingEID := bpv7.MustNewEndpointID(vfNodeName + "ping")
	var ping *vfPingProxy
	registerPing := func() {
		ping = newVfPingProxy(pingEID)
		s.core.RegisterApplicationAgent(ping)
	}
	registerPing()
	// (closing the agent multiplexer while an agent is still handing over a bundle panics with "send on closed
	// channel" - a shutdown race of dtn7 outside every listed property; the harness must not provoke it)
	quiesce := func() { s.quiescePing(ping) }
	names := []string{"p0", "rpt", "p2"}
	eid := func(uri string) vk.EIDSpec { return eidSpec(uri) }
	accepted := make([]bool, len(cs.Bundles))
	inputs := map[string]bool{} // payloads of the input bundles
	judged := 0
	kinds := map[string]int{}
	judge := func(raw []byte, where string) {
		judged++
		w, err := vk.ReadBundle(raw)
		if err != nil {
			s.failf("c02.node-undecodable", "bundle handed to %s cannot be decoded by the independent reader: %v (%x)", where, err, vfTruncR(raw))
		}
		kind := "forwarded"
		pay, _ := w.Payload()
		switch {
		case w.Primary.Flags&vk.FAdmin != 0:
			kind = "status report"
		case w.Primary.Src.String() == pingEID.String():
			kind = "pong"
		case strings.HasPrefix(w.Primary.Dst.String(), "dtn://routing/"):
			kind = "routing broadcast"
		case strings.HasPrefix(w.Primary.Src.String(), vfNodeName) && !inputs[string(pay)]:
			kind = "routing metadata"
		}
		kinds[kind]++
		res := vk.ValidateRules(w, dtnNow(), 5000)
		if len(res.Broken) > 0 {
			s.failf("c02.node-breaks-rule", "%s handed to %s breaks %v: %x", kind, where, res.Broken, vfTruncR(raw))
		}
		if _, err := bpv7.ParseBundle(bytes.NewReader(raw)); err != nil {
			expiring := false
			for _, u := range res.Undecidable {
				if u == vk.RExpired {
					expiring = true
				}
			}
			if !expiring {
				s.failf("c02.node-rejected", "%s handed to %s is rejected by the parser: %v (%x)", kind, where, err, vfTruncR(raw))
			}
		}
		if p := w.CheckCRCs(); len(p) > 0 {
			s.failf("c02.node-bad-crc", "%s handed to %s carries a wrong CRC: %s", kind, where, p[0])
		}
	}
	seenSends, seenApp := 0, 0
	absorb := func() {
		for _, x := range s.sendsSince(seenSends) {
			seenSends++
			if x.Panic != "" {
				s.failf("c02.node-unserialisable", "a bundle handed to %s cannot be serialised: %s", x.Peer, x.Panic)
			}
			judge(x.Raw, "peer "+x.Peer)
		}
		got := s.app.received()
		if len(got) < seenApp {
			seenApp = 0 // a new agent after a restart
		}
		for _, b := range got[seenApp:] {
			b := b
			if raw := vfEnc(&b); raw != nil {
				judge(raw, "the local application agent")
			}
		}
		seenApp = len(got)
	}
	for k, op := range cs.Ops {
		switch op.Op {
		case "recv":
			i := op.A % len(cs.Bundles)
			if accepted[i] {
				continue
			}
			in := cs.Bundles[i]
			spec := in.Spec
			switch in.Dst {
			case 0:
				spec.Dst = eid("dtn://faraway/inbox")
			case 1:
				spec.Dst = eid("dtn://p0/inbox")
			case 2:
				spec.Dst = eid(vfNodeName + "app")
			case 3:
				spec.Dst = eid(pingEID.String())
			case 4:
				spec.Dst = eid(vfNodeName + "nobody")
			}
			switch in.Rpt {
			case 0:
				spec.Rpt = eid("dtn://rpt/reports")
			case 1:
				spec.Rpt = eid("dtn://elsewhere/reports")
			case 2:
				spec.Rpt = eid(vfNodeName + "app2")
			}
			if spec.Flags&vk.FAdmin == 0 && spec.Src.Kind != "none" {
				spec.Flags |= in.Req
			}
			p := spec.PayloadSpec()
			p.Data = []byte(fmt.Sprintf("c02-node-input-%d-%d", k, i))
			p.PayLen = 0
			raw := spec.Encode(dtnNow())
			w, err := vk.ReadBundle(raw)
			if err != nil {
				s.failf("c02.harness", "independent reader on own encoding: %v", err)
			}
			if r := vk.ValidateRules(w, dtnNow(), 5000); len(r.Broken) > 0 {
				c.Note(fmt.Sprintf("generated input breaks %v; skipped", r.Broken))
				continue
			}
			if pp, ok := w.Payload(); ok {
				inputs[string(pp)] = true
			}
			s.logf("#%d bundle %d received (dst kind %d, rpt kind %d, flags %#x, %d blocks)", k, i, in.Dst, in.Rpt, spec.Flags, len(spec.Blocks))
			if err := s.receiveRaw(raw); err != nil {
				c.Class("input rejected by the parser")
				continue
			}
			accepted[i] = true
		case "up":
			n := names[op.A%len(names)]
			if s.connected(n) {
				continue
			}
			s.logf("#%d peer %s appears", k, n)
			s.addPeer(n)
		case "down":
			n := names[op.A%len(names)]
			if !s.connected(n) {
				continue
			}
			s.logf("#%d peer %s disappears", k, n)
			s.dropPeer(n)
		case "script":
			n := names[op.A%len(names)]
			if _, ok := s.peers[n]; !ok {
				continue
			}
			s.logf("#%d sends to %s fail: %v", k, n, !op.Flag)
			s.setFailAll(n, !op.Flag)
		case "tick":
			s.logf("#%d pending-retry tick", k)
			s.tickPending()
		case "advertise":
			if cs.Algo != "prophet" {
				continue
			}
			s.logf("#%d peers advertise predictabilities", k)
			for i, n := range names {
				if s.connected(n) {
					s.receive(vfProphetMetadata("dtn://"+n+"/", vfNodeName, map[string]float64{"dtn://faraway/inbox": 0.9, "dtn://p0/": 0.5}, uint64(3000+k*10+i)))
				}
			}
		case "broadcast":
			if cs.Algo != "dtlsr" {
				continue
			}
			s.logf("#%d the node broadcasts its link state", k)
			s.core.routing.(*DTLSR).broadcast()
		case "restart":
			s.logf("#%d orderly restart", k)
			quiesce()
			s.restart()
			registerPing()
		default:
			continue
		}
		c.Class("op=" + op.Op)
		s.agentBarrier()
		absorb()
	}
	s.tickPending()
	s.agentBarrier()
	absorb()
	quiesce()
	generated := 0
	for k, n := range kinds {
		c.Classf("judged kind: %s", k)
		if k != "forwarded" {
			generated += n
		}
	}
	if generated > 0 {
		c.NonTrivial()
	}
	c.Class("algo=" + cs.Algo)
}

func vfTruncR(b []byte) []byte {
	if len(b) > 160 {
		return b[:160]
	}
	return b
}

func TestVerifC02NodeGenerated(t *testing.T) {
	u := vk.Unit{Property: "C02", Name: "c02.node-generated", Quick: 150, Thorough: 15000,
		Rule: "a real node (per routing algorithm) with a ping agent, an application agent and up to three scripted peers receives 1..4 generated valid bundles (all block mixes, CRC mixes, fragments, anonymous sources, status-request flags; destination far / a peer / local agent / ping agent / local endpoint without agent; report-to a peer / far / local) interleaved with peers appearing and disappearing, failing sends, retry ticks, PRoPHET advertisements, DTLSR broadcasts and restarts; EVERY bundle the node hands to a convergence layer or to the application agent is decoded independently and must break no rule of the independent BPv7 validator, carry correct CRCs and be accepted by the parser; non-trivial = at least one bundle generated by the node itself (status report, pong, routing metadata or broadcast) was judged; distinct by case hash"}
	vk.Check(t, u, genC02Node, c02NodeBody)
}
