package routing

import (
	"bytes"
	"testing"

	"github.com/dtn7/dtn7-go/pkg/bpv7"
	vk "github.com/dtn7/dtn7-go/pkg/verifkit"
)

// C04 (node part) — an administrative record that arrives inside a well-formed bundle is opaque payload
// to the parser; it is decoded and inspected by the routing core (checkAdministrativeRecord /
// inspectStatusReport). Hostile records must not crash or wedge the node.

type c04NodeCase struct {
	Record   []byte `json:"record"` // payload of the administrative-record bundle
	Local    bool   `json:"local"`  // addressed to an endpoint of this node (else in transit)
	Fragment bool   `json:"fragment"`
}

// c04Record builds a status report with nItems status items with the independent encoder.
func c04Record(fragment, withTime bool, nItems int, ref string) []byte {
	var e vk.Enc
	n := uint64(4)
	if fragment {
		n = 6
	}
	e.Arr(2).Uint(1).Arr(n).Arr(uint64(nItems))
	for i := 0; i < nItems; i++ {
		if i == 2 || i == 0 {
			if withTime {
				e.Arr(2).Bool(true).Uint(700000000000)
			} else {
				e.Arr(1).Bool(true)
			}
		} else {
			e.Arr(1).Bool(false)
		}
	}
	e.Uint(0)
	vk.EIDSpec{Kind: "dtn", Node: ref, Demux: "app"}.Encode(&e)
	e.Arr(2).Uint(700000000001).Uint(3)
	if fragment {
		e.Uint(100).Uint(5000)
	}
	return e.B
}

func TestVerifC04NodeRecords(t *testing.T) {
	u := vk.Unit{Property: "C04", Name: "c04.node-records",
		Rule: "a real node (epidemic, bundle inspection on and off is decided by the destination) receives well-formed administrative-record bundles whose payload is a status report (status-item arrays of every length 0..9, fragment / whole, with / without time) with EVERY CBOR head set to each of the 11 boundary values and every truncation (quick: a pseudo-random sixth, offset by the seed), addressed to a local endpoint or in transit; oracle: the node survives (a panic in the routing core ends the process: reported with the case), keeps taking events (marker barrier) and produces no status report about the record; every case non-trivial; distinct by payload hash"}
	var records [][]byte
	for n := 0; n <= 9; n++ {
		for _, fr := range []bool{false, true} {
			seed := c04Record(fr, n%2 == 0, n, "origin")
			records = append(records, seed)
			records = append(records, vk.LengthMutants(seed)...)
			records = append(records, vk.Truncations(seed)...)
		}
	}
	sample := 6
	if vk.Tier() == "thorough" {
		sample = 1
	}
	var s *vfSim
	vk.Enumerate(t, u, sample == 1, func(yield func(c04NodeCase) bool) {
		n := 0
		for i, r := range records {
			h := uint64(i)*0x9E3779B97F4A7C15 + uint64(vk.BaseSeed())*0xD1B54A32D192ED03
			h ^= h >> 29
			if sample > 1 && h%uint64(sample) != 0 {
				continue
			}
			n++
			if !vk.ShardOwns(n) {
				continue
			}
			if !yield(c04NodeCase{Record: r, Local: i%3 != 0, Fragment: i%5 == 0}) {
				return
			}
		}
	}, func(c *vk.Ctx, cs c04NodeCase) {
		c.NonTrivial(string(cs.Record))
		// one node for many cases (a fresh one after 200 cases or after a failure): the subject is the
		// node's survival, and a node that has seen hostile records must still work
		if s == nil || s.c == nil || len(s.trace) > 200 {
			if s != nil {
				s.close()
			}
			s = vfNewSim(c, vfConf("epidemic"))
			s.addPeer("p0")
		}
		s.c = c
		dest := "dtn://faraway/inbox"
		if cs.Local {
			dest = vfNodeName + "app"
		}
		bl := bpv7.Builder().CRC(bpv7.CRC32).Source("dtn://reporter/").Destination(dest).CreationTimestampNow().Lifetime("1h").
			BundleCtrlFlags(bpv7.AdministrativeRecordPayload)
		b, err := bl.PayloadBlock(cs.Record).Build()
		if err != nil {
			c.Failf("c04.harness", "bundle: %v", err)
		}
		b.PrimaryBlock.CreationTimestamp[1] = uint64(len(s.trace))
		var buf bytes.Buffer
		if err := b.WriteBundle(&buf); err != nil {
			c.Failf("c04.harness", "serialise: %v", err)
		}
		s.logf("record bundle %d bytes (local %v)", len(cs.Record), cs.Local)
		before := s.nSends()
		if err := s.receiveRaw(buf.Bytes()); err != nil {
			c.Failf("c04.harness", "the parser rejects a well-formed bundle with an opaque payload: %v", err)
		}
		for _, x := range s.sendsSince(before) {
			if r, isAdmin, _ := c15Decode(x.Raw); isAdmin && r.ref == b.ID().String() {
				s.failf("c04.report-about-record", "the node generated a status report about an administrative record")
			}
		}
	})
	if s != nil {
		s.close()
	}
}
