package routing

import (
	"fmt"
	"testing"

	vk "github.com/dtn7/dtn7-go/pkg/verifkit"
	"pgregory.net/rapid"
)

// C18 — spray-and-wait never exceeds, and never leaks, its copy budget.

var c18Ops = []string{"submit", "submit", "recv", "recvdup", "up", "up", "up", "up", "down", "script", "script", "script", "tick", "tick", "tick", "restart"}

type c18Ledger struct {
	held     int             // binary: copies held by this node
	okPeers  map[string]bool // non-destination peers with a successful transmission
	okCount  int
	lastFail bool
}

func sprayCopies(raw []byte) (uint64, bool) {
	w, err := vk.ReadBundle(raw)
	if err != nil {
		return 0, false
	}
	for _, b := range w.Blocks {
		if b.Type == vk.BTSpray {
			if it, e := vk.DecodeItem(b.Data, 0); e == nil && it.IsUint() {
				return it.Arg, true
			}
		}
	}
	return 0, false
}

func c18Body(c *vk.Ctx, cs hCase) {
	w := newHWorld(c, &cs)
	defer w.s.close()
	binary := cs.Algo == "binary_spray"
	led := map[*hBundleState]*c18Ledger{}
	failedThenOK := false
	sawFail := false
	restarted := false
	for k, op := range cs.Ops {
		// a second reception of a bundle: while the node still holds the bundle the copy is dropped and changes
		// nothing; if the bundle has left the store in the meantime the node accepts it as a new bundle
		var dupOf *hBundleState
		dupStored := false
		if op.Op == "recvdup" && len(w.bs) > 0 {
			if st := w.bs[op.A%len(w.bs)]; st.accepted && !st.plan.Local {
				dupOf, dupStored = st, w.s.storeHas(st.b.ID())
			}
		}
		if !w.apply(k, op) {
			continue
		}
		c.Class("op=" + op.Op)
		if dupOf != nil && led[dupOf] != nil {
			if dupStored {
				c.Class("second copy of a bundle the node still holds")
			} else {
				c.Class("second copy of a bundle that had left the store: accepted anew")
				l := &c18Ledger{okPeers: map[string]bool{}, held: 1}
				if binary && dupOf.plan.Copies > 0 {
					l.held = dupOf.plan.Copies
				}
				led[dupOf] = l
			}
		}
		if op.Op == "restart" {
			// the copy budget is kept in memory only: after a restart the node may have forgotten copies (it
			// then only delivers directly), but it must never hand out copies it has already given away
			restarted = true
		}
		if op.Op == "submit" || op.Op == "recv" {
			st := w.bs[op.A%len(w.bs)]
			if led[st] == nil {
				l := &c18Ledger{okPeers: map[string]bool{}}
				switch {
				case st.plan.Local:
					l.held = cs.L
				case binary && st.plan.Copies > 0:
					l.held = st.plan.Copies
				default:
					l.held = 1
				}
				led[st] = l
			}
		}
		for _, x := range w.absorb() {
			st := w.stateOf(x.Raw)
			if st == nil || led[st] == nil {
				continue
			}
			l := led[st]
			if st.destNode != "" && x.Peer == st.destNode {
				continue // transmissions to the destination itself are outside the budget
			}
			if x.OK && sawFail {
				failedThenOK = true
			}
			if !x.OK {
				sawFail = true
			}
			if !binary {
				if !st.plan.Local {
					w.s.failf("c18.relay-sprays", "after %s: bundle with payload %q was received from another node (one copy) but transmitted to %s, which is not its destination", w.step, st.payload, x.Peer)
				}
				if x.OK {
					if l.okPeers[x.Peer] {
						w.s.failf("c18.same-peer-twice", "after %s: a second successful transmission to %s", w.step, x.Peer)
					}
					l.okPeers[x.Peer] = true
					l.okCount++
					if l.okCount > cs.L-1 {
						w.s.failf("c18.budget-exceeded", "after %s: bundle %q (budget L=%d) now has %d successful transmissions to peers other than its destination, more than L-1", w.step, st.payload, cs.L, l.okCount)
					}
				}
				continue
			}
			// binary spray: copies announced + copies kept == copies held before, half rounded down is sent
			s, has := sprayCopies(x.Raw)
			if !has {
				w.s.failf("c18.no-copy-count", "after %s: bundle %q was transmitted to %s without a copy count", w.step, st.payload, x.Peer)
			}
			if l.held < 2 {
				w.s.failf("c18.single-copy-forwarded", "after %s: the node holds %d copy of bundle %q but transmitted it to %s, which is not its destination (announcing %d copies)", w.step, l.held, st.payload, x.Peer, s)
			}
			if int(s) != l.held/2 {
				w.s.failf("c18.wrong-split", "after %s: the node holds %d copies of bundle %q; the transmission to %s (outcome ok=%v) announces %d copies instead of %d (half, rounded down); a failed transmission must restore the count", w.step, l.held, st.payload, x.Peer, x.OK, s, l.held/2)
			}
			if x.OK {
				if l.okPeers[x.Peer] {
					w.s.failf("c18.same-peer-twice", "after %s: a second successful transmission to %s", w.step, x.Peer)
				}
				l.okPeers[x.Peer] = true
				l.held -= int(s)
			}
		}
	}
	// closing phase (vanilla): all peers connected and succeeding; the budget must be used exactly:
	// a copy of a failed transmission is given back (none lost), none is invented
	if !binary && !restarted {
		for i := range w.names {
			w.s.setFailAll(w.names[i], false)
		}
		for i := range w.names {
			if !w.s.connected(w.names[i]) {
				w.s.addPeer(w.names[i])
				w.absorbInto(led, cs.L)
			}
		}
		for r := 0; r < 3; r++ {
			w.step = "closing retry tick"
			w.s.logf("%s", w.step)
			w.s.tickPending()
			w.absorbInto(led, cs.L)
		}
		for st, l := range led {
			if !st.plan.Local || !st.accepted {
				continue
			}
			if st.destNode != "" && st.succeeded[st.destNode] {
				continue // handed to its destination: released
			}
			nonDest := 0
			for _, n := range w.names {
				if n != st.destNode {
					nonDest++
				}
			}
			want := cs.L - 1
			if nonDest < want {
				want = nonDest
			}
			if want < 0 {
				want = 0
			}
			if l.okCount > want {
				w.s.failf("c18.budget-exceeded", "at the end: bundle %q (budget L=%d, %d other peers) has %d successful transmissions to peers other than its destination", st.payload, cs.L, nonDest, l.okCount)
			}
			if l.okCount < want {
				w.s.failf("c18.copy-leaked", "at the end all %d peers are connected and succeed, but bundle %q (budget L=%d) was transmitted to only %d of them: %d copies were lost on the way (a failed transmission must give its copy back)", nonDest, st.payload, cs.L, l.okCount, want-l.okCount)
			}
		}
	}
	if failedThenOK {
		c.NonTrivial()
	}
	c.Classf("algo=%s", cs.Algo)
}

// absorbInto processes new sends in the closing phase (vanilla spray).
func (w *hWorld) absorbInto(led map[*hBundleState]*c18Ledger, L int) {
	for _, x := range w.absorb() {
		st := w.stateOf(x.Raw)
		if st == nil || led[st] == nil {
			continue
		}
		if st.destNode != "" && x.Peer == st.destNode {
			continue
		}
		l := led[st]
		if !st.plan.Local {
			w.s.failf("c18.relay-sprays", "after %s: a received bundle (one copy) was transmitted to %s, which is not its destination", w.step, x.Peer)
		}
		if x.OK {
			if l.okPeers[x.Peer] {
				w.s.failf("c18.same-peer-twice", "after %s: a second successful transmission to %s", w.step, x.Peer)
			}
			l.okPeers[x.Peer] = true
			l.okCount++
			if l.okCount > L-1 {
				w.s.failf("c18.budget-exceeded", "after %s: bundle %q (budget L=%d) now has %d successful transmissions to peers other than its destination", w.step, st.payload, L, l.okCount)
			}
		}
	}
}

func genC18(t *rapid.T) hCase {
	g := genHistory([]string{"spray", "binary_spray"}, 6, c18Ops, 20)
	cs := g.Draw(t, "history")
	for i := range cs.Bundles {
		cs.Bundles[i].TsKind = 0
		if cs.Algo == "binary_spray" && !cs.Bundles[i].Local {
			cs.Bundles[i].Copies = rapid.IntRange(1, 8).Draw(t, "copies")
			// one of our own bundles comes back from a relay with k copies: it holds k, not L
			cs.Bundles[i].OwnSrc = rapid.IntRange(0, 3).Draw(t, "ownsrc") == 0
		}
		if rapid.IntRange(0, 2).Draw(t, "far") == 0 {
			cs.Bundles[i].Dest = cs.NPeers // never connects
		}
	}
	// a prelude: some peers are there from the start, some of them failing
	var pre []hOp
	for p := 0; p < cs.NPeers; p++ {
		if rapid.Bool().Draw(t, "preup") {
			pre = append(pre, hOp{Op: "up", A: p})
			if rapid.IntRange(0, 2).Draw(t, "prefail") == 0 {
				pre = append(pre, hOp{Op: "script", A: p, Flag: false})
			}
		}
	}
	cs.Ops = append(pre, cs.Ops...)
	// a postlude in two thirds of the histories: failing peers recover and a retry tick follows
	// (the "failed transmission gives its copy back" clause needs a success after a failure)
	if rapid.IntRange(0, 2).Draw(t, "post") > 0 {
		for p := 0; p < cs.NPeers; p++ {
			if rapid.IntRange(0, 3).Draw(t, "recover") > 0 {
				cs.Ops = append(cs.Ops, hOp{Op: "script", A: p, Flag: true})
			}
		}
		cs.Ops = append(cs.Ops, hOp{Op: "tick"}, hOp{Op: "tick"})
	}
	return cs
}

func TestVerifC18Histories(t *testing.T) {
	u := vk.Unit{Property: "C18", Name: "c18.histories", Quick: 900, Thorough: 16000,
		Rule: "histories over {submit, receive with k copies (binary), a second reception of the same bundle, peer appears/disappears, sends to a peer fail/succeed - including sends to the directly connected destination -, retry tick, orderly restart} for budgets L = 1..8 and 1..6 peers, under spray-and-wait and binary spray; oracle = copy-budget ledger fed only by what the scripted peers observe (bytes and outcomes): vanilla: successful transmissions to non-destination peers <= L-1 at all times and, once all peers are connected and succeed, exactly min(L-1, peers); binary: every transmitted copy announces half (rounded down) of the copies held, also after a failed transmission, and a holder of one copy transmits only to the destination; non-trivial = a failed transmission followed by a successful one; distinct by case hash"}
	vk.Check(t, u, genC18, c18Body)
	_ = fmt.Sprint
}

// ---- directed scenarios ----

type c18Directed struct {
	Kind   string `json:"kind"` // "direct-delivery-fails", "concurrent-failures"
	L      int    `json:"l"`
	Relays int    `json:"relays"`
	Ticks  int    `json:"ticks"`
	Forced bool   `json:"forced"`
}

func c18DirectedBody(c *vk.Ctx, cs c18Directed) {
	h := hCase{Algo: "spray", L: cs.L, NPeers: cs.Relays + 1, Bundles: []hBundle{{Local: true, Dest: 0, Prev: -1}}}
	w := newHWorld(c, &h)
	defer w.s.close()
	c.NonTrivial()
	c.Class("kind=" + cs.Kind)
	dest := w.names[0]
	countOK := func() int {
		n := 0
		for _, x := range w.s.sendsSince(0) {
			if x.OK && x.Peer != dest && w.stateOf(x.Raw) == w.bs[0] {
				n++
			}
		}
		return n
	}
	want := cs.L - 1
	if cs.Relays < want {
		want = cs.Relays
	}
	switch cs.Kind {
	case "direct-delivery-fails":
		// the destination is connected but its transmissions fail; relays are connected and would succeed
		w.s.addPeer(dest)
		w.s.setFailAll(dest, true)
		for i := 1; i <= cs.Relays; i++ {
			w.s.addPeer(w.names[i])
		}
		w.apply(0, hOp{Op: "submit", A: 0})
		for i := 0; i < cs.Ticks; i++ {
			w.s.logf("retry tick (destination still failing)")
			w.s.tickPending()
		}
		w.s.logf("the destination disappears")
		w.s.dropPeer(dest)
		for i := 0; i < 2; i++ {
			w.s.logf("retry tick")
			w.s.tickPending()
		}
		if n := countOK(); n > cs.L-1 {
			w.s.failf("c18.budget-exceeded", "budget L=%d: after %d failed transmissions to the directly connected destination the bundle was transmitted successfully to %d other peers (more than L-1)", cs.L, cs.Ticks+1, n)
		} else if n < want {
			w.s.failf("c18.copy-leaked", "budget L=%d, %d relays connected and succeeding: only %d transmissions", cs.L, cs.Relays, n)
		}
	case "concurrent-failures":
		for i := 1; i <= cs.Relays; i++ {
			w.s.addPeer(w.names[i])
			w.s.setFailAll(w.names[i], true)
		}
		var done func() int
		if cs.Forced {
			n := cs.L - 1
			if cs.Relays < n {
				n = cs.Relays
			}
			done = vfPark("routing.spray.reportfailure", n)
		}
		w.apply(0, hOp{Op: "submit", A: 0})
		got := 0
		if done != nil {
			got = done()
		}
		if got >= 2 {
			c.Class("failure reports forced to read before any wrote")
		} else if cs.Forced {
			c.Class("interleaving not achieved (bookkeeping is serialised)")
		}
		for i := 1; i <= cs.Relays; i++ {
			w.s.setFailAll(w.names[i], false)
		}
		for i := 0; i < 2; i++ {
			w.s.logf("sends succeed; retry tick")
			w.s.tickPending()
		}
		if n := countOK(); n != want {
			tag := "c18.copy-leaked"
			if n > want {
				tag = "c18.budget-exceeded"
			}
			w.s.failf(tag, "budget L=%d, %d relays: the first transmissions all failed at the same moment (forced interleaving achieved for %d failure reports); afterwards all relays succeed, but %d instead of %d transmissions happened: a failed transmission must give its copy back", cs.L, cs.Relays, got, n, want)
		}
	}
}

func TestVerifC18Directed(t *testing.T) {
	u := vk.Unit{Property: "C18", Name: "c18.directed",
		Rule: "enumerated scenarios for spray-and-wait: (a) budget L = 1..5, the destination is directly connected but its transmissions fail for 0..3 retry ticks, L+1 relays are connected, then the destination disappears: successful transmissions to relays must be exactly min(L-1, relays); (b) L = 3..6, L-1.. relays whose first transmissions all fail at the same moment, with the failure reports forced to read the bundle's data before any writes it back (schedule hook) and unforced; afterwards all succeed: exactly min(L-1, relays) transmissions; every case non-trivial; distinct by case"}
	vk.Enumerate(t, u, true, func(yield func(c18Directed) bool) {
		n := 0
		for L := 1; L <= 5; L++ {
			for ticks := 0; ticks <= 3; ticks++ {
				n++
				if vk.ShardOwns(n) && !yield(c18Directed{Kind: "direct-delivery-fails", L: L, Relays: L + 1, Ticks: ticks}) {
					return
				}
			}
		}
		for L := 3; L <= 6; L++ {
			for _, relays := range []int{L - 1, L + 1} {
				for _, f := range []bool{true, false} {
					n++
					if vk.ShardOwns(n) && !yield(c18Directed{Kind: "concurrent-failures", L: L, Relays: relays, Forced: f}) {
						return
					}
				}
			}
		}
	}, c18DirectedBody)
}
