package routing

import (
	"bytes"
	"fmt"
	"sync"
	"testing"
	"time"

	"github.com/dtn7/dtn7-go/pkg/agent"
	"github.com/dtn7/dtn7-go/pkg/bpv7"
	vk "github.com/dtn7/dtn7-go/pkg/verifkit"
	"pgregory.net/rapid"
)

// C14 — bundles originated at the node get distinct IDs, in the store and on the wire.

type c14Case struct {
	Algo       string `json:"algo"`
	N          int    `json:"n"`           // bundles in the group
	Epoch      bool   `json:"epoch"`       // zero creation time + age block instead of the same millisecond
	Path       string `json:"path"`        // "send" (Core.SendBundle), "agent" (through the agent manager), "concurrent"
	DestFirst  bool   `json:"dest_first"`  // the destination peer is connected before the submissions
	OtherFirst bool   `json:"other_first"` // another peer is connected before the submissions
	Restart    bool   `json:"restart"`     // restart the node while bundles wait
	Second     int    `json:"second"`      // a second group of this size follows later (after the restart, if any)
	Fragment   bool   `json:"fragment,omitempty"`  // the applications submit fragments (offset 0 of 2000 bytes each): the ID then also carries offset and total length
	SameTime   bool   `json:"same_time,omitempty"` // the second group carries the creation time of the first one (an application that stamps its bundles itself)
	Preset     int    `json:"preset,omitempty"` // sequence numbers the application put into its bundles: 0 none (zero), 1 = 1,2,3,..., 2 = all 7
	Third      int    `json:"third,omitempty"` // a third group of this size follows the second one and carries the creation time of the FIRST group again
	Mixed      bool   `json:"mixed,omitempty"` // the second group uses the other kind of creation time (epoch <-> clock) than the first and third
	AgeS       int    `json:"age_s,omitempty"` // the applications stamp their bundles with a creation time that lies this many seconds in the past (negative: in the future - a client whose clock runs ahead)
	Gap        []int  `json:"gap,omitempty"` // bundles of the first group that reach the destination (and leave the store) before the restart: the stored sequence numbers get gaps
}

func vfConf(algo string) RoutingConf {
	c := RoutingConf{Algorithm: algo, SprayConf: SprayConfig{Multiplicity: 4},
		DTLSRConf:   DTLSRConfig{RecomputeTime: "1h", BroadcastTime: "1h", PurgeTime: "1h"},
		ProphetConf: ProphetConfig{PInit: 0.75, Beta: 0.25, Gamma: 0.98, AgeInterval: "1h"}}
	return c
}

func c14Bundle(i int, group int, t time.Time, epoch bool) (bpv7.Bundle, []byte) {
	payload := []byte(fmt.Sprintf("c14-payload-group%d-%d", group, i))
	bl := bpv7.Builder().CRC(bpv7.CRC32).Source(vfNodeName + "app").Destination("dtn://dest/inbox").Lifetime("1h").BundleCtrlFlags(0)
	if epoch {
		bl = bl.CreationTimestampEpoch().BundleAgeBlock(uint64(0))
	} else {
		bl = bl.CreationTimestampTime(t)
	}
	b, err := bl.PayloadBlock(payload).Build()
	if err != nil {
		panic(err)
	}
	return b, payload
}

// agentBarrier waits until the agent manager has processed what the application agent sent.
func (s *vfSim) agentBarrier() {
	s.markerN++
	n := s.markerN
	mb, err := bpv7.Builder().CRC(bpv7.CRC32).Source(vfNodeName + "app2").Destination(vfNodeName + "vfmarker").
		CreationTimestampNow().Lifetime("1h").BundleCtrlFlags(bpv7.MustNotFragmented).PayloadBlock([]byte(fmt.Sprintf("marker-%d", n))).Build()
	if err != nil {
		s.failf("sim.harness", "marker: %v", err)
	}
	s.app.sender <- agent.BundleMessage{Bundle: mb}
	want := fmt.Sprintf("marker-%d", n)
	deadline := time.After(30 * time.Second)
	for {
		for _, b := range s.marker.received() {
			if string(vfPayloadOf(&b)) == want {
				return
			}
		}
		select {
		case <-s.marker.notify:
		case <-time.After(2 * time.Millisecond):
		case <-deadline:
			s.failf("sim.stuck", "the agent manager did not process a submitted bundle within 30 s")
		}
	}
}

func c14Body(c *vk.Ctx, cs c14Case) {
	s := vfNewSim(c, vfConf(cs.Algo))
	defer s.close()
	if cs.OtherFirst {
		s.addPeer("other")
		s.logf("peer other appears")
	}
	if cs.DestFirst {
		s.addPeer("dest")
		s.logf("peer dest appears")
	}
	submitted := map[string]bool{} // payloads
	t0 := time.Now().Add(-time.Duration(cs.AgeS) * time.Second)
	if cs.AgeS != 0 {
		c.Classf("creation time %d s in the past", cs.AgeS)
	}
	submitInner := func(group, n int) {}
	submit := func(group, n int) {
		// a submission that never returns is a bundle that is never filed
		done := make(chan struct{})
		go func() { defer close(done); submitInner(group, n) }()
		select {
		case <-done:
		case <-time.After(60 * time.Second):
			s.failf("c14.submission-hangs", "group %d: the submission of %d bundles with the same source and creation time (%d s in the past, epoch=%v, path %s) has not returned after 60 s: the bundles are never filed", group, n, cs.AgeS, cs.Epoch, cs.Path)
		}
	}
	submitInner = func(group, n int) {
		t := time.Now().Add(-time.Duration(cs.AgeS) * time.Second)
		if group == 0 || group == 2 {
			t = t0
		} else if cs.SameTime {
			t = t0
		}
		epoch := cs.Epoch
		if group == 1 && cs.Mixed {
			epoch = !epoch
		}
		var bs []bpv7.Bundle
		for i := 0; i < n; i++ {
			b, p := c14Bundle(i, group, t, epoch)
			if cs.Fragment {
				b.PrimaryBlock.BundleControlFlags |= bpv7.IsFragment
				b.PrimaryBlock.FragmentOffset, b.PrimaryBlock.TotalDataLength = 0, 2000
			}
			switch cs.Preset {
			case 1: // an application that numbers its own bundles (e.g. a WebSocket client handing over complete bundles)
				b.PrimaryBlock.CreationTimestamp[1] = uint64(i + 1)
			case 2:
				b.PrimaryBlock.CreationTimestamp[1] = 7
			}
			bs = append(bs, b)
			submitted[string(p)] = true
		}
		s.logf("group %d: %d bundles, same source and creation time (epoch=%v) via %s", group, n, epoch, cs.Path)
		switch cs.Path {
		case "send":
			for i := range bs {
				s.submit(bs[i])
			}
		case "agent":
			for i := range bs {
				s.app.sender <- agent.BundleMessage{Bundle: bs[i]}
			}
			s.agentBarrier()
		case "concurrent":
			var wg sync.WaitGroup
			start := make(chan struct{})
			for i := range bs {
				wg.Add(1)
				go func(i int) { defer wg.Done(); <-start; s.submit(bs[i]) }(i)
			}
			close(start)
			wg.Wait()
		}
	}
	waiting := !cs.DestFirst
	submit(0, cs.N)
	check := func(step string) {
		// on the wire: one ID per payload, one payload per ID
		idOf := map[string]string{}
		payOf := map[string]string{}
		for _, x := range s.sendsSince(0) {
			w, err := vk.ReadBundle(x.Raw)
			if err != nil {
				s.failf("c14.harness", "undecodable bundle on the wire: %v", err)
			}
			pay, _ := w.Payload()
			if !submitted[string(pay)] {
				continue // routing metadata etc.
			}
			if id, ok := idOf[string(pay)]; ok && id != x.ID {
				s.failf("c14.id-changed", "%s: the bundle with payload %q left the node as %s and as %s", step, pay, id, x.ID)
			}
			idOf[string(pay)] = x.ID
			// The sequence counter lives in memory: a node without a clock that is restarted re-uses the IDs of
			// bundles it has already handed over and forgotten. C14 does not quantify over restarts, so for
			// clock-less bundles a collision is only judged within one incarnation of the node.
			// (the same holds for an application that stamps bundles with a creation time it used before the restart)
			key := x.ID
			if cs.Epoch || cs.SameTime || cs.Third > 0 || cs.Mixed {
				key = fmt.Sprintf("%s@incarnation%d", x.ID, x.Gen)
			}
			if p, ok := payOf[key]; ok && p != string(pay) {
				s.failf("c14.id-collision-wire", "%s: two distinct bundles (%q, %q) left the node under the same ID %s", step, p, pay, x.ID)
			}
			payOf[key] = string(pay)
		}
		// in the store: every submitted bundle that has not been delivered to its destination node is filed, and loads its own payload
		delivered := map[string]bool{}
		for _, x := range s.sendsSince(0) {
			if x.Peer == "dest" && x.OK {
				if w, err := vk.ReadBundle(x.Raw); err == nil {
					p, _ := w.Payload()
					delivered[string(p)] = true
				}
			}
		}
		bis, err := s.core.store.QueryPending()
		if err != nil {
			s.failf("c14.harness", "QueryPending: %v", err)
		}
		stored := map[string]bool{}
		for _, bi := range bis {
			b, err := bi.Parts[0].Load()
			if err != nil {
				s.failf("c14.store-unreadable", "%s: pending item %s does not load: %v", step, bi.Id, err)
			}
			stored[string(vfPayloadOf(&b))] = true
		}
		for p := range submitted {
			if !delivered[p] && !stored[p] {
				s.failf("c14.not-filed", "%s: the submitted bundle %q was neither transmitted to its destination node nor is it filed in the store as pending (pending items: %d, submitted: %d)", step, p, len(bis), len(submitted))
			}
		}
		// the sequence number transmitted is the one the bundle is stored under
		for pay, id := range idOf {
			if delivered[pay] {
				continue
			}
			found := false
			for _, bi := range bis {
				b, err := bi.Parts[0].Load()
				if err == nil && string(vfPayloadOf(&b)) == pay {
					found = true
					if b.ID().String() != id {
						s.failf("c14.store-wire-mismatch", "%s: bundle %q was transmitted as %s but is stored as %s", step, pay, id, b.ID())
					}
				}
			}
			_ = found
		}
	}
	check("after the first group")
	if len(cs.Gap) > 0 && !cs.DestFirst {
		// the destination is connected for a moment: the transmissions of the chosen bundles succeed, the
		// others fail and stay in the store
		chosen := map[string]bool{}
		for _, g := range cs.Gap {
			chosen[fmt.Sprintf("c14-payload-group0-%d", g%cs.N)] = true
		}
		bis, err := s.core.store.QueryPending()
		if err != nil {
			s.failf("c14.harness", "QueryPending: %v", err)
		}
		script := map[string][]bool{}
		for _, bi := range bis {
			if b, err := bi.Parts[0].Load(); err == nil {
				script[b.ID().String()] = []bool{chosen[string(vfPayloadOf(&b))], false, false, false}
			}
		}
		s.scriptNext = map[string]map[string][]bool{"dest": script}
		s.logf("peer dest appears for a moment; transmissions of %d chosen bundles succeed", len(chosen))
		s.addPeer("dest")
		s.dropPeer("dest")
		s.logf("peer dest disappears")
		c.Class("stored sequence numbers with gaps")
		check("after some bundles were delivered")
	}
	if cs.Restart {
		s.restart()
		s.logf("restart")
		check("after the restart")
	}
	if cs.Second > 0 {
		submit(1, cs.Second)
		check("after the second group")
	}
	if cs.Third > 0 {
		submit(2, cs.Third)
		check("after the third group (the first group's creation time again)")
		c.Class("a creation time used again after another one")
	}
	s.tickPending()
	s.logf("pending tick")
	check("after a retry tick")
	if !cs.DestFirst {
		s.addPeer("dest")
		s.logf("peer dest appears")
		check("after the destination appeared")
	}
	// finally every submitted bundle has reached the destination exactly as one bundle each
	got := map[string]int{}
	for _, x := range s.sendsSince(0) {
		if x.Peer == "dest" && x.OK {
			if w, err := vk.ReadBundle(x.Raw); err == nil {
				p, _ := w.Payload()
				if submitted[string(p)] {
					got[string(p)]++
				}
			}
		}
	}
	for p := range submitted {
		if got[p] == 0 {
			s.failf("c14.never-sent", "the submitted bundle %q never reached the connected destination node (submitted %d, reached %d)", p, len(submitted), len(got))
		}
	}
	if cs.N >= 2 && waiting {
		c.NonTrivial()
	}
	c.Class("path=" + cs.Path)
	c.Class("algo=" + cs.Algo)
	if cs.Epoch {
		c.Class("epoch time")
	}
	if cs.Restart {
		c.Class("restart")
	}
	_ = bytes.Equal
}

func TestVerifC14Groups(t *testing.T) {
	u := vk.Unit{Property: "C14", Name: "c14.groups", Quick: 360, Thorough: 5000,
		Rule: "groups of 2..6 distinct bundles (whole bundles, or fragments with one offset and total length) with identical source and creation time (same millisecond - now, 100 s or 50 min ago, or 10 min ahead of the node's clock, as stamped by the application - or epoch time + age block; sequence numbers as the builder leaves them, or pre-set by the application to 1,2,3,... or all to 7) submitted sequentially through Core.SendBundle, through an application agent and the agent manager, or concurrently from 2..6 goroutines; with no peer, another peer, or the destination peer connected; optionally the destination is connected for a moment so that some bundles of the group leave the store (stored sequence numbers with gaps); followed by an optional restart, a second group (with a creation time of its own or with the first group's; optionally of the other kind, epoch <-> clock), optionally a third group with the first group's creation time again, a retry tick and the appearance of the destination; oracle on the bytes seen by the scripted peers and on the store after every step: distinct payloads <=> distinct IDs, one ID per payload for ever, every bundle not yet handed to its destination is filed as pending and loads its own payload under the ID it was transmitted with, finally every bundle reaches the destination; non-trivial = group of >= 2 that had to wait in the store; distinct by case hash"}
	vk.Check(t, u, func(t *rapid.T) c14Case {
		return c14Case{Algo: rapid.SampledFrom([]string{"epidemic", "epidemic", "spray", "prophet"}).Draw(t, "algo"), N: rapid.IntRange(2, 6).Draw(t, "n"),
			Epoch: rapid.IntRange(0, 2).Draw(t, "epoch") == 0, Path: rapid.SampledFrom([]string{"send", "send", "agent", "concurrent"}).Draw(t, "path"),
			DestFirst: rapid.IntRange(0, 3).Draw(t, "destfirst") == 0, OtherFirst: rapid.Bool().Draw(t, "otherfirst"),
			Restart: rapid.IntRange(0, 2).Draw(t, "restart") == 0, Second: rapid.SampledFrom([]int{0, 0, 1, 3}).Draw(t, "second"),
			Gap: rapid.SliceOfN(rapid.IntRange(0, 5), 0, 2).Draw(t, "gap"), Preset: rapid.SampledFrom([]int{0, 0, 1, 2}).Draw(t, "preset"), SameTime: rapid.Bool().Draw(t, "sametime"), Fragment: rapid.IntRange(0, 3).Draw(t, "fragment") == 0,
			AgeS: rapid.SampledFrom([]int{0, 0, 0, 0, 100, 3000, -600}).Draw(t, "age"),
			Third: rapid.SampledFrom([]int{0, 0, 1, 2}).Draw(t, "third"), Mixed: rapid.IntRange(0, 2).Draw(t, "mixed") == 0}
	}, c14Body)
}

// ---- unforced concurrency: many submissions with identical source and creation time ----

type c14Stress struct {
	Workers int  `json:"workers"`
	Each    int  `json:"each"`
	Epoch   bool `json:"epoch"`
	ViaCore bool `json:"via_core"` // through Core.SendBundle (store and wire checked), else IdKeeper.update directly
}

func TestVerifC14Stress(t *testing.T) {
	u := vk.Unit{Property: "C14", Name: "c14.concurrent-stress", Quick: 10, Thorough: 300,
		Rule: "2..8 goroutines released together assign IDs to bundles with one source and one creation time (epoch or the same millisecond): either 2000..6000 bundles each through IdKeeper.update, or 20..60 each through Core.SendBundle on a real node without peers; oracle: all (source, time, sequence) triples are pairwise distinct, and through the node every bundle is filed under its own ID as pending; every case non-trivial; distinct by parameters. The schedule is the runtime's; a failure reproduces only statistically"}
	vk.Check(t, u, func(t *rapid.T) c14Stress {
		cs := c14Stress{Workers: rapid.IntRange(2, 8).Draw(t, "workers"), Epoch: rapid.Bool().Draw(t, "epoch"), ViaCore: rapid.IntRange(0, 2).Draw(t, "via") == 0}
		if cs.ViaCore {
			cs.Each = rapid.IntRange(20, 60).Draw(t, "each")
		} else {
			cs.Each = rapid.IntRange(2000, 6000).Draw(t, "each")
		}
		return cs
	}, func(c *vk.Ctx, cs c14Stress) {
		c.NonTrivial()
		c.Classf("via core: %v", cs.ViaCore)
		t0 := time.Now()
		mk := func(w, i int) bpv7.Bundle {
			bl := bpv7.Builder().CRC(bpv7.CRC32).Source(vfNodeName + "app").Destination("dtn://dest/inbox").Lifetime("1h").BundleCtrlFlags(0)
			if cs.Epoch {
				bl = bl.CreationTimestampEpoch().BundleAgeBlock(uint64(0))
			} else {
				bl = bl.CreationTimestampTime(t0)
			}
			b, err := bl.PayloadBlock([]byte(fmt.Sprintf("c14-stress-%d-%d", w, i))).Build()
			if err != nil {
				panic(err)
			}
			return b
		}
		var s *vfSim
		idk := NewIdKeeper()
		if cs.ViaCore {
			s = vfNewSim(c, vfConf("epidemic"))
			defer s.close()
		}
		seqs := make([][]uint64, cs.Workers)
		gate := make(chan struct{})
		var wg sync.WaitGroup
		for w := 0; w < cs.Workers; w++ {
			wg.Add(1)
			go func(w int) {
				defer wg.Done()
				bs := make([]bpv7.Bundle, cs.Each)
				for i := range bs {
					bs[i] = mk(w, i)
				}
				<-gate
				for i := range bs {
					if cs.ViaCore {
						s.core.SendBundle(&bs[i])
					} else {
						idk.update(&bs[i])
					}
					seqs[w] = append(seqs[w], bs[i].PrimaryBlock.CreationTimestamp[1])
				}
			}(w)
		}
		close(gate)
		wg.Wait()
		seen := map[uint64][2]int{}
		for w := range seqs {
			for i, q := range seqs[w] {
				if o, dup := seen[q]; dup {
					s2 := "IdKeeper.update"
					if cs.ViaCore {
						s2 = "Core.SendBundle"
					}
					if cs.ViaCore {
						s.failf("c14.duplicate-id", "%d goroutines x %d bundles through %s: sequence number %d was given to bundle %d of worker %d and to bundle %d of worker %d (same source and creation time)", cs.Workers, cs.Each, s2, q, o[1], o[0], i, w)
					}
					c.Failf("c14.duplicate-id", "%d goroutines x %d bundles through %s: sequence number %d was given to bundle %d of worker %d and to bundle %d of worker %d (same source and creation time)", cs.Workers, cs.Each, s2, q, o[1], o[0], i, w)
				}
				seen[q] = [2]int{w, i}
			}
		}
		if cs.ViaCore {
			bis, err := s.core.store.QueryPending()
			if err != nil {
				s.failf("sim.harness", "QueryPending: %v", err)
			}
			pend := map[string]bool{}
			for _, bi := range bis {
				if b, err := bi.Parts[0].Load(); err == nil {
					pend[string(vfPayloadOf(&b))] = true
				}
			}
			for w := 0; w < cs.Workers; w++ {
				for i := 0; i < cs.Each; i++ {
					if !pend[fmt.Sprintf("c14-stress-%d-%d", w, i)] {
						s.failf("c14.not-filed", "%d goroutines x %d bundles through Core.SendBundle: bundle %d of worker %d is not filed in the store as pending (%d pending items for %d submissions)", cs.Workers, cs.Each, i, w, len(bis), cs.Workers*cs.Each)
					}
				}
			}
		}
	})
}
