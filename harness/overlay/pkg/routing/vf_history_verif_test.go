package routing

import (
	"fmt"
	"time"

	"github.com/dtn7/dtn7-go/pkg/bpv7"
	vk "github.com/dtn7/dtn7-go/pkg/verifkit"
	"pgregory.net/rapid"
)

// Histories over the node simulator, shared by C05 / C13 / C18.

type hOp struct {
	Op   string `json:"op"` // submit, recv, recvdup, up, down, script, tick, clean, restart
	A    int    `json:"a"`
	B    int    `json:"b,omitempty"`
	Flag bool   `json:"flag,omitempty"`
}

type hBundle struct {
	Local  bool `json:"local"`  // submitted by a local application (else received from a peer)
	Dest   int  `json:"dest"`   // index of the destination: 0..len(peers)-1 = that peer's node, >= len(peers) = a node that never connects
	Prev   int  `json:"prev"`   // received bundles: index of the previous node (-1 = no previous-node block)
	TsKind int  `json:"tskind"` // 0 = now, 1 = the same creation time as bundle 0, 2 = zero creation time + age block
	Copies int  `json:"copies,omitempty"`
	Frag   bool `json:"frag,omitempty"`    // the bundle is a fragment (offset 100 of 5000 bytes): its ID carries offset and length, the store files it under the scrubbed ID
	OwnSrc bool `json:"own_src,omitempty"` // received bundles: the source is this node (a bundle of ours that a relay hands back)
	Short  bool `json:"short,omitempty"`   // lifetime of 1.5 s instead of one hour
}

const hShortLife = 1500 * time.Millisecond

type hCase struct {
	Algo    string    `json:"algo"`
	NPeers  int       `json:"npeers"`
	L       int       `json:"l,omitempty"` // spray multiplicity
	Bundles []hBundle `json:"bundles"`
	Ops     []hOp     `json:"ops"`
}

// hBundleState is the harness' knowledge about one bundle of the plan.
type hBundleState struct {
	plan      hBundle
	payload   string
	accepted  bool
	b         bpv7.Bundle // as handed to the node
	destNode  string      // peer name of the destination ("" if it never connects)
	prevName  string
	storedAt  time.Time
	succeeded map[string]bool // peers to which a send succeeded
	anyOK     bool
	born      time.Time // the instant the bundle's lifetime counts from
}

// alive tells whether the bundle's lifetime certainly has not ended yet; over tells whether it certainly has.
func (st *hBundleState) alive() bool {
	return !st.plan.Short || time.Since(st.born) < hShortLife-300*time.Millisecond
}
func (st *hBundleState) over() bool {
	return st.plan.Short && time.Since(st.born) > hShortLife+20*time.Millisecond
}

type hWorld struct {
	c      *vk.Ctx
	cs     *hCase
	s      *vfSim
	names  []string
	bs     []*hBundleState
	t0     time.Time
	seen   int // sends processed so far
	step   string
	hooks  []func(w *hWorld, before int) // monitors called after every event (before = number of sends before the event)
}

func peerName(cs *hCase, i int) string {
	if cs.Algo == "sensor-mule" && i%2 == 1 {
		return fmt.Sprintf("sensor%d", i)
	}
	return fmt.Sprintf("p%d", i)
}

func hConf(cs *hCase) RoutingConf {
	conf := vfConf(cs.Algo)
	if cs.L > 0 {
		conf.SprayConf.Multiplicity = uint64(cs.L)
	}
	if cs.Algo == "sensor-mule" {
		inner := vfConf("epidemic")
		conf.SensorMuleConf = SensorNetworkMuleConfig{Algorithm: &inner, SensorNodeRegex: "^dtn://sensor[0-9]+/.*$"}
	}
	return conf
}

func newHWorld(c *vk.Ctx, cs *hCase) *hWorld {
	w := &hWorld{c: c, cs: cs, t0: time.Now()}
	for i := 0; i < cs.NPeers; i++ {
		w.names = append(w.names, peerName(cs, i))
	}
	w.s = vfNewSim(c, hConf(cs))
	for i, pl := range cs.Bundles {
		st := &hBundleState{plan: pl, payload: fmt.Sprintf("h-payload-%d", i), succeeded: map[string]bool{}}
		if pl.Dest >= 0 && pl.Dest < cs.NPeers {
			st.destNode = w.names[pl.Dest]
		}
		if !pl.Local && pl.Prev >= 0 && pl.Prev < cs.NPeers && pl.Prev != pl.Dest {
			// (a bundle is never forwarded by its own destination node, so previous node != destination)
			st.prevName = w.names[pl.Prev]
		}
		w.bs = append(w.bs, st)
	}
	return w
}

func (w *hWorld) build(i int) bpv7.Bundle {
	st := w.bs[i]
	pl := st.plan
	dest := "dtn://faraway/inbox"
	if st.destNode != "" {
		dest = "dtn://" + st.destNode + "/inbox"
	}
	src := vfNodeName + "app"
	if !pl.Local {
		src = fmt.Sprintf("dtn://remote%d/app", i)
		if pl.OwnSrc {
			src = vfNodeName + fmt.Sprintf("app%d", i)
		}
	}
	life := "1h"
	if pl.Short && pl.TsKind == 1 {
		// the shared creation time may lie further back than a short lifetime lasts
		st.plan.Short, pl.Short = false, false
	}
	if pl.Short {
		life = "1500ms"
	}
	bl := bpv7.Builder().CRC(bpv7.CRC32).Source(src).Destination(dest).Lifetime(life).BundleCtrlFlags(0)
	st.born = time.Now()
	switch pl.TsKind {
	case 1:
		bl = bl.CreationTimestampTime(w.t0)
		st.born = w.t0
	case 2:
		bl = bl.CreationTimestampEpoch().BundleAgeBlock(uint64(0))
	default:
		bl = bl.CreationTimestampTime(st.born)
	}
	if !pl.Local && st.prevName != "" {
		bl = bl.PreviousNodeBlock("dtn://" + st.prevName + "/")
	}
	if !pl.Local && pl.Copies > 0 {
		bl = bl.Canonical(bpv7.NewBinarySprayBlock(uint64(pl.Copies)))
	}
	b, err := bl.PayloadBlock([]byte(st.payload)).Build()
	if err != nil {
		w.s.failf("sim.harness", "bundle plan %d: %v", i, err)
	}
	if !pl.Local {
		// received bundles are distinguished by their sequence number as well
		b.PrimaryBlock.CreationTimestamp[1] = uint64(i)
	}
	if pl.Frag {
		b.PrimaryBlock.BundleControlFlags |= bpv7.IsFragment
		b.PrimaryBlock.FragmentOffset, b.PrimaryBlock.TotalDataLength = 100, 5000
	}
	return b
}

// stateOf finds the plan entry a wire bundle belongs to (by payload).
func (w *hWorld) stateOf(raw []byte) *hBundleState {
	wb, err := vk.ReadBundle(raw)
	if err != nil {
		return nil
	}
	p, _ := wb.Payload()
	for _, st := range w.bs {
		if st.payload == string(p) {
			return st
		}
	}
	return nil
}

// absorb processes the sends that happened during the last event.
func (w *hWorld) absorb() []vfSend {
	news := w.s.sendsSince(w.seen)
	w.seen += len(news)
	for _, x := range news {
		if st := w.stateOf(x.Raw); st != nil && x.OK {
			st.succeeded[x.Peer] = true
			st.anyOK = true
		}
	}
	return news
}

// apply plays one operation; returns false if it was skipped.
func (w *hWorld) apply(k int, op hOp) bool {
	cs := w.cs
	np := cs.NPeers
	switch op.Op {
	case "submit", "recv":
		if len(w.bs) == 0 {
			return false
		}
		i := op.A % len(w.bs)
		st := w.bs[i]
		if st.accepted || st.plan.Local != (op.Op == "submit") {
			return false
		}
		st.b = w.build(i)
		st.accepted = true
		st.storedAt = time.Now()
		w.step = fmt.Sprintf("#%d %s bundle %d (dest %q, prev %q, tskind %d)", k, op.Op, i, st.destNode, st.prevName, st.plan.TsKind)
		w.s.logf("%s", w.step)
		if op.Op == "submit" {
			w.s.submit(st.b)
		} else {
			w.s.receive(st.b)
		}
	case "recvdup":
		if len(w.bs) == 0 {
			return false
		}
		i := op.A % len(w.bs)
		st := w.bs[i]
		if !st.accepted || st.plan.Local {
			return false
		}
		w.step = fmt.Sprintf("#%d duplicate reception of bundle %d", k, i)
		w.s.logf("%s", w.step)
		// the very bundle that was handed to the node before (a rebuilt one would carry a creation time of its own)
		w.s.receive(st.b)
	case "up":
		if np == 0 {
			return false
		}
		n := w.names[op.A%np]
		if w.s.connected(n) {
			return false
		}
		w.step = fmt.Sprintf("#%d peer %s appears", k, n)
		w.s.logf("%s", w.step)
		w.s.addPeer(n)
	case "up2":
		// a second convergence layer to a peer that is already connected
		if np == 0 {
			return false
		}
		n := w.names[op.A%np]
		if !w.s.connected(n) || w.s.connected(n+"#2") {
			return false
		}
		w.step = fmt.Sprintf("#%d peer %s is now connected over a second convergence layer as well", k, n)
		w.s.logf("%s", w.step)
		w.s.addSecondLink(n)
	case "down":
		if np == 0 {
			return false
		}
		n := w.names[op.A%np]
		if !w.s.connected(n) {
			return false
		}
		w.step = fmt.Sprintf("#%d peer %s disappears", k, n)
		w.s.logf("%s", w.step)
		w.s.dropPeer(n)
	case "script":
		if np == 0 {
			return false
		}
		n := w.names[op.A%np]
		if _, ok := w.s.peers[n]; !ok {
			return false
		}
		w.step = fmt.Sprintf("#%d sends to %s fail: %v", k, n, !op.Flag)
		w.s.logf("%s", w.step)
		w.s.setFailAll(n, !op.Flag)
		return true
	case "expire":
		// wait until the lifetime of every short-lived bundle the node holds has ended
		var until time.Time
		for _, st := range w.bs {
			if st.accepted && st.plan.Short && !st.over() {
				if e := st.born.Add(hShortLife + 40*time.Millisecond); e.After(until) {
					until = e
				}
			}
		}
		if until.IsZero() {
			return false
		}
		w.step = fmt.Sprintf("#%d the lifetime of the short-lived bundles ends", k)
		w.s.logf("%s", w.step)
		time.Sleep(time.Until(until))
	case "tick":
		w.step = fmt.Sprintf("#%d pending-retry tick", k)
		w.s.logf("%s", w.step)
		w.s.tickPending()
	case "clean":
		w.step = fmt.Sprintf("#%d store-cleaning tick", k)
		w.s.logf("%s", w.step)
		w.s.tickClean()
	case "restart":
		w.step = fmt.Sprintf("#%d orderly restart", k)
		w.s.logf("%s", w.step)
		w.s.restart()
	default:
		return false
	}
	return true
}

// pendingPayloads lists the payloads of the store's pending items.
func (w *hWorld) pendingPayloads() map[string]bool {
	out := map[string]bool{}
	bis, err := w.s.core.store.QueryPending()
	if err != nil {
		w.s.failf("sim.harness", "QueryPending: %v", err)
	}
	for _, bi := range bis {
		b, err := bi.Parts[0].Load()
		if err != nil {
			expired := false
			for _, st := range w.bs {
				if st.accepted && st.plan.Short && !st.alive() && st.b.ID().Scrub() == bi.BId.Scrub() {
					expired = true // a stored bundle whose lifetime has ended is rejected by the parser when it is loaded
				}
			}
			if expired {
				continue
			}
			w.s.failf("c05.store-unreadable", "after %s: pending item %s does not load: %v", w.step, bi.Id, err)
		}
		out[string(vfPayloadOf(&b))] = true
	}
	return out
}

func genHistory(algos []string, maxPeers int, ops []string, maxOps int) *rapid.Generator[hCase] {
	return rapid.Custom(func(t *rapid.T) hCase {
		cs := hCase{Algo: rapid.SampledFrom(algos).Draw(t, "algo"), NPeers: rapid.IntRange(1, maxPeers).Draw(t, "npeers")}
		if cs.Algo == "spray" || cs.Algo == "binary_spray" {
			cs.L = rapid.IntRange(1, 8).Draw(t, "L")
		}
		withShort := false
		for _, o := range ops {
			if o == "expire" {
				withShort = true
			}
		}
		nb := rapid.IntRange(1, 4).Draw(t, "nbundles")
		for i := 0; i < nb; i++ {
			short := withShort && rapid.IntRange(0, 5).Draw(t, "short") == 0
			cs.Bundles = append(cs.Bundles, hBundle{
				Short:  short,
				Local:  rapid.Bool().Draw(t, "local"),
				Dest:   rapid.IntRange(0, cs.NPeers).Draw(t, "dest"),
				Prev:   rapid.IntRange(-1, cs.NPeers-1).Draw(t, "prev"),
				TsKind: rapid.SampledFrom([]int{0, 0, 1, 2}).Draw(t, "tskind"),
				Frag:   rapid.IntRange(0, 4).Draw(t, "frag") == 0,
			})
		}
		cs.Ops = rapid.SliceOfN(rapid.Custom(func(t *rapid.T) hOp {
			return hOp{Op: rapid.SampledFrom(ops).Draw(t, "op"), A: rapid.IntRange(0, 7).Draw(t, "a"), B: rapid.IntRange(0, 3).Draw(t, "b"), Flag: rapid.Bool().Draw(t, "flag")}
		}), 3, maxOps).Draw(t, "ops")
		return cs
	})
}
