package routing

import (
	"encoding/hex"
	"encoding/json"
	"fmt"
	"os"
	"os/exec"
	"strings"
	"testing"
	"time"

	"github.com/dtn7/dtn7-go/pkg/bpv7"
	vk "github.com/dtn7/dtn7-go/pkg/verifkit"
)

// A node as a fresh process builds it. Every other routing unit runs many nodes in one process and registers the
// routing algorithms' block types once, up front, so that a case does not depend on which algorithm ran before
// it. Here the node runs in a child process in which only dtn7 itself registers anything: NewCore for the given
// configuration - the algorithm on its own, or as the algorithm underneath a sensor mule - must leave the node
// able to take what its peers send.

type freshCase struct {
	Algo  string `json:"algo"`  // prophet, dtlsr, binary_spray, spray, epidemic
	Mule  bool   `json:"mule"`  // the algorithm runs underneath sensor-mule
	Order int    `json:"order"` // 0: metadata first, 1: a data bundle first
}

type freshResult struct {
	Survived   bool    `json:"survived"`
	Understood bool    `json:"understood"`
	Note       string  `json:"note"`
	P          float64 `json:"p"`
}

func freshConf(cs freshCase) RoutingConf {
	conf := vfConf(cs.Algo)
	if cs.Mule {
		inner := vfConf(cs.Algo)
		conf = vfConf("sensor-mule")
		conf.SensorMuleConf = SensorNetworkMuleConfig{Algorithm: &inner, SensorNodeRegex: "^dtn://sensor[0-9]+/.*$"}
	}
	return conf
}

// freshMetadata builds, in the parent, what a peer running the same algorithm sends to the node.
func freshMetadata(cs freshCase) ([]byte, error) {
	var b bpv7.Bundle
	var err error
	switch cs.Algo {
	case "prophet":
		b = vfProphetMetadata("dtn://p1/", vfNodeName, map[string]float64{"dtn://far/": 0.9, "dtn://p1/": 1}, 1)
	case "dtlsr":
		blk := bpv7.NewDTLSRBlock(bpv7.DTLSRPeerData{ID: bpv7.MustNewEndpointID("dtn://p1/"), Timestamp: bpv7.DtnTimeNow(),
			Peers: map[bpv7.EndpointID]bpv7.DtnTime{bpv7.MustNewEndpointID("dtn://far/"): 0}})
		b, err = bpv7.Builder().CRC(bpv7.CRC32).Source("dtn://p1/").Destination("dtn://routing/~dtlsr").CreationTimestampNow().Lifetime("10m").
			BundleCtrlFlags(bpv7.MustNotFragmented).Canonical(blk).PayloadBlock(byte(1)).Build()
	default:
		// a data bundle that carries the binary-spray block (understood or not, it is a bundle in transit)
		b, err = bpv7.Builder().CRC(bpv7.CRC32).Source("dtn://origin/app").Destination("dtn://far/inbox").CreationTimestampNow().Lifetime("1h").
			BundleCtrlFlags(0).Canonical(bpv7.NewBinarySprayBlock(6)).PayloadBlock([]byte("fresh node, sprayed bundle")).Build()
	}
	if err != nil {
		return nil, err
	}
	raw := vfEnc(&b)
	if raw == nil {
		return nil, fmt.Errorf("cannot serialise the metadata bundle")
	}
	return raw, nil
}

// TestVerifFreshNodeChild is the child: it does nothing unless started by TestVerifFreshProcess.
func TestVerifFreshNodeChild(t *testing.T) {
	spec := os.Getenv("VERIF_FRESH_NODE")
	if spec == "" {
		t.Skip("child of the fresh-process units")
	}
	var in struct {
		Case freshCase `json:"case"`
		Raw  string    `json:"raw"`
	}
	if err := json.Unmarshal([]byte(spec), &in); err != nil {
		t.Fatalf("spec: %v", err)
	}
	raw, _ := hex.DecodeString(in.Raw)
	res := freshResult{}
	out := func() {
		j, _ := json.Marshal(res)
		fmt.Printf("\nFRESH-RESULT %s\n", j)
	}
	u := vk.Unit{Property: "C19", Name: "fresh-child"}
	_ = u
	c := vk.ScratchCtx()
	s := vfNewSim(c, freshConf(in.Case))
	defer s.close()
	s.addPeer("p1")
	data, err := bpv7.Builder().CRC(bpv7.CRC32).Source(vfNodeName + "app").Destination("dtn://far/inbox").CreationTimestampNow().Lifetime("1h").
		BundleCtrlFlags(0).PayloadBlock([]byte("fresh node, own bundle")).Build()
	if err != nil {
		t.Fatalf("bundle: %v", err)
	}
	step := func(k int) {
		if k == 0 {
			if err := s.receiveRaw(raw); err != nil {
				res.Note += "metadata rejected by the parser: " + err.Error() + "; "
			}
		} else {
			s.submit(data)
		}
	}
	step(in.Case.Order)
	step(1 - in.Case.Order)
	s.tickPending()
	s.addPeer("p2")
	s.tickPending()
	s.barrier(s.inlet)
	res.Survived = true
	switch in.Case.Algo {
	case "prophet":
		var pr *Prophet
		switch a := s.core.routing.(type) {
		case *Prophet:
			pr = a
		case *SensorNetworkMuleRouting:
			pr, _ = a.algorithm.(*Prophet)
		}
		if pr != nil {
			pr.dataMutex.RLock()
			res.P = pr.predictabilities[bpv7.MustNewEndpointID("dtn://far/")]
			pr.dataMutex.RUnlock()
			res.Understood = res.P > 0
		}
	default:
		res.Understood = true
	}
	out()
}

func freshBody(c *vk.Ctx, cs freshCase, prop string) {
	c.NonTrivial()
	raw, err := freshMetadata(cs)
	if err != nil {
		c.Failf(prop+".harness", "metadata: %v", err)
	}
	spec, _ := json.Marshal(map[string]interface{}{"case": cs, "raw": hex.EncodeToString(raw)})
	cmd := exec.Command(os.Args[0], "-test.run", "^TestVerifFreshNodeChild$", "-test.count", "1", "-test.timeout", "120s")
	cmd.Env = append(os.Environ(), "VERIF_FRESH_NODE="+string(spec), "VERIF_REPLAY=", "VERIF_CASEFILE=", "VERIF_REPORT=")
	done := make(chan struct{})
	var outb []byte
	var runErr error
	go func() { outb, runErr = cmd.CombinedOutput(); close(done) }()
	select {
	case <-done:
	case <-time.After(150 * time.Second):
		_ = cmd.Process.Kill()
		<-done
		c.Failf(prop+".fresh-node-stuck", "a node started in a fresh process (%s, under a sensor mule: %v) did not get through 'a peer appears, its routing metadata arrives, an application submits a bundle, retry tick' within 150 s", cs.Algo, cs.Mule)
	}
	out := string(outb)
	i := strings.LastIndex(out, "FRESH-RESULT ")
	if i < 0 {
		tail := out
		if len(tail) > 1800 {
			tail = tail[len(tail)-1800:]
		}
		if strings.Contains(out, "panic:") || strings.Contains(out, "fatal error:") {
			c.Failf(prop+".fresh-node-crash", "a node started in a fresh process with algorithm %s (underneath a sensor mule: %v) died when a peer's routing metadata / a bundle arrived (order %d): %v\n%s", cs.Algo, cs.Mule, cs.Order, runErr, tail)
		}
		c.Failf(prop+".harness", "child gave no result: %v\n%s", runErr, tail)
	}
	var res freshResult
	line := out[i+len("FRESH-RESULT "):]
	if j := strings.IndexByte(line, '\n'); j >= 0 {
		line = line[:j]
	}
	if err := json.Unmarshal([]byte(line), &res); err != nil {
		c.Failf(prop+".harness", "child result: %v (%q)", err, line)
	}
	if !res.Survived {
		c.Failf(prop+".fresh-node-crash", "the node did not survive: %s", res.Note)
	}
	if cs.Algo == "prophet" && !res.Understood {
		c.Failf(prop+".vector-ignored", "a node started in a fresh process with PRoPHET (underneath a sensor mule: %v) got a peer's summary vector [far: 0.9] and its predictability for 'far' is still %v: the vector was not understood (%s)", cs.Mule, res.P, res.Note)
	}
}

func freshUnit(t *testing.T, prop, name string, algos []string) {
	u := vk.Unit{Property: prop, Name: name,
		Rule: "the node runs in a child process in which the harness registers no block types: NewCore with the algorithm on its own or underneath a sensor mule; a peer appears, a bundle carrying the algorithm's own block type (built by a peer running the same algorithm) arrives over the wire before or after an application submits a bundle, retry ticks, a second peer. Oracle: the child survives and reports back; PRoPHET: the peer's summary vector raised the predictability of the advertised node. Every case non-trivial; exhaustive over algorithm x mule x order"}
	var cases []freshCase
	for _, a := range algos {
		for _, m := range []bool{false, true} {
			for o := 0; o < 2; o++ {
				cases = append(cases, freshCase{a, m, o})
			}
		}
	}
	vk.Enumerate(t, u, true, func(yield func(freshCase) bool) {
		for i, cs := range cases {
			if !vk.ShardOwns(i + 1) {
				continue
			}
			if !yield(cs) {
				return
			}
		}
	}, func(c *vk.Ctx, cs freshCase) { freshBody(c, cs, strings.ToLower(prop)) })
}

func TestVerifC19FreshProcess(t *testing.T) { freshUnit(t, "C19", "c19.fresh-process", []string{"prophet"}) }
func TestVerifC20FreshProcess(t *testing.T) { freshUnit(t, "C20", "c20.fresh-process", []string{"dtlsr"}) }
func TestVerifC18FreshProcess(t *testing.T) {
	freshUnit(t, "C18", "c18.fresh-process", []string{"binary_spray", "spray"})
}
