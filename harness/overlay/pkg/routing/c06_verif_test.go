package routing

import (
	"bytes"
	"fmt"
	"testing"
	"time"

	"github.com/dtn7/dtn7-go/pkg/bpv7"
	vk "github.com/dtn7/dtn7-go/pkg/verifkit"
	"pgregory.net/rapid"
)

// C06 — forwarded bundles are faithful copies and respect hop limit and lifetime.

type c06Case struct {
	Algo      string        `json:"algo"`
	Spec      vk.BundleSpec `json:"spec"`
	HopLimit  int           `json:"hop_limit"` // -1 = no hop-count block
	HopCount  int           `json:"hop_count"`
	SleepMs   int           `json:"sleep_ms"`   // residence before the destination connects
	Fails     int           `json:"fails"`      // failed transmissions (each followed by a retry tick) before the successful one
	LifeMs    uint64        `json:"life_ms"`    // 0 = one hour
	OtherPeer bool          `json:"other_peer"` // a second, non-destination peer is connected as well (epidemic copies)
	Run       []uint64      `json:"run,omitempty"` // block flags of additional unknown blocks placed next to each other in front of the bundle's other blocks
}

func dtnNow() uint64 { return uint64(bpv7.DtnTimeNow()) }

func c06Body(c *vk.Ctx, cs c06Case) {
	s := vfNewSim(c, vfConf(cs.Algo))
	defer s.close()
	spec := cs.Spec
	spec.Dst = vk.EIDSpec{Kind: "dtn", Node: "dest", Demux: "inbox"}
	if cs.LifeMs > 0 {
		spec.Lifetime = cs.LifeMs
	}
	// hop count block as the case says
	var blocks []vk.BlockSpec
	for _, b := range spec.Blocks {
		if b.Type != vk.BTHop {
			blocks = append(blocks, b)
		}
	}
	if cs.HopLimit >= 0 {
		used := map[uint64]bool{}
		for _, b := range blocks {
			used[b.Num] = true
		}
		n := uint64(2)
		for used[n] {
			n++
		}
		hb := vk.BlockSpec{Type: vk.BTHop, Num: n, Flags: vk.BFReplicate, CRC: 1, Limit: uint64(cs.HopLimit), Count: uint64(cs.HopCount)}
		blocks = append([]vk.BlockSpec{hb}, blocks...)
	}
	if len(cs.Run) > 0 {
		used := map[uint64]bool{}
		for _, b := range blocks {
			used[b.Num] = true
		}
		var run []vk.BlockSpec
		n := uint64(2)
		for i, fl := range cs.Run {
			for used[n] {
				n++
			}
			used[n] = true
			if spec.Flags&vk.FAdmin != 0 || spec.Src.Kind == "none" {
				fl &^= vk.BFReport
			}
			run = append(run, vk.BlockSpec{Type: uint64(201 + i), Num: n, Flags: fl, CRC: uint64(i % 3), Data: []byte{byte(i), 0xc0, 0x6e}})
		}
		blocks = append(run, blocks...)
		c.Classf("run of %d unknown blocks", len(cs.Run))
	}
	spec.Blocks = blocks
	rawIn := spec.Encode(dtnNow())
	win, err := vk.ReadBundle(rawIn)
	if err != nil {
		s.failf("c06.harness", "independent reader on own encoding: %v", err)
	}
	// what must happen
	deleteByBlock := false
	for _, b := range win.Blocks {
		known := b.Type == 1 || b.Type == 6 || b.Type == 7 || b.Type == 10 || (b.Type >= 192 && b.Type <= 194)
		if !known && b.Flags&vk.BFDeleteBndl != 0 {
			deleteByBlock = true
		}
	}
	hopRefuse := cs.HopLimit >= 0 && cs.HopCount+1 > cs.HopLimit
	var ageIn uint64
	hasAge := false
	for _, b := range win.Blocks {
		if b.Type == vk.BTAge {
			if it, e := vk.DecodeItem(b.Data, 0); e == nil {
				ageIn, hasAge = it.Arg, true
			}
		}
	}
	life := spec.Lifetime
	tEnc := time.Now()
	var idv bpv7.BundleID
	if b0, err := bpv7.ParseBundle(bytes.NewReader(rawIn)); err == nil {
		idv = b0.ID()
	}
	if cs.OtherPeer {
		s.addPeer("other")
	}
	tIn0 := time.Now()
	if err := s.receiveRaw(rawIn); err != nil {
		// the parser rejects it (e.g. already expired): nothing reaches the node
		c.Class("rejected by the parser at reception")
		return
	}
	tIn1 := time.Now()
	s.logf("bundle received (hop %d/%d, zero time %v, age %d/%v, lifetime %d ms, %d blocks)", cs.HopCount, cs.HopLimit, spec.TsZero, ageIn, hasAge, life, len(win.Blocks))
	if cs.SleepMs > 0 {
		time.Sleep(time.Duration(cs.SleepMs) * time.Millisecond)
	}
	id := win.ID()
	// the destination connects; the first cs.Fails transmissions fail
	outcomes := make([]bool, 0, cs.Fails+1)
	for i := 0; i < cs.Fails; i++ {
		outcomes = append(outcomes, false)
	}
	outcomes = append(outcomes, true)
	tOut0 := time.Now()
	// the instants at which the harness triggered something that can make the node transmit: the age of a
	// transmission is computed by the node after its trigger, the harness sees it (x.At) some time later
	triggers := []time.Time{tIn0, tOut0}
	p := s.addPeerScripted("dest", id, outcomes)
	_ = p
	for i := 0; i < cs.Fails; i++ {
		s.logf("retry tick")
		triggers = append(triggers, time.Now())
		s.tickPending()
	}
	tOut1 := time.Now()
	var attempts []vfSend
	for _, x := range s.sendsSince(0) {
		if x.ID == id {
			attempts = append(attempts, x)
		}
	}
	// expiry is judged with the time that really passed (the machine may be busy), with a 60 ms band
	minEl := uint64(0)
	if d := tOut0.Sub(tIn1).Milliseconds(); d > 0 {
		minEl = uint64(d)
	}
	maxEl := uint64(tOut1.Sub(tEnc).Milliseconds()) + 1
	expireByTime, expireByAge, ambiguous := false, false, false
	switch {
	case !spec.TsZero:
		if minEl+spec.TsAgoMs > life+50 {
			expireByTime = true
		} else if maxEl+spec.TsAgoMs+60 > life {
			ambiguous = true
		}
		if hasAge && ageIn+maxEl+60 > life {
			ambiguous = true // both notions of expiry exist and may disagree: not asserted
		}
	case hasAge:
		if ageIn+minEl > life+50 {
			expireByAge = true
		} else if ageIn+maxEl+60 > life {
			ambiguous = true
		}
	}
	refuse := deleteByBlock || hopRefuse || expireByTime || expireByAge
	c.Class("algo=" + cs.Algo)
	if ambiguous && !deleteByBlock && !hopRefuse {
		c.Class("expiry too close to call (not asserted)")
		return
	}
	if refuse {
		c.NonTrivial()
		switch {
		case deleteByBlock:
			c.Class("refused: unsupported block demands deletion")
		case hopRefuse:
			c.Class("refused: hop limit")
		default:
			c.Class("refused: lifetime over")
		}
		if (expireByTime || expireByAge) && !deleteByBlock && !hopRefuse {
			// transmissions while the bundle was still alive (to another peer, right after reception) are fine
			// Everything the reception itself triggered was recorded before receiveRaw returned (tIn1: the
			// node's handler waits for its transmissions). Later transmissions were decided after tOut0,
			// when the lifetime had run out by more than 50 ms (that is what expireBy* mean). The time
			// stamp of a transmission itself is not used: on a busy machine it is taken late.
			var late []vfSend
			for _, x := range attempts {
				if x.At.After(tIn1) {
					late = append(late, x)
				}
			}
			attempts = late
		}
		if len(attempts) > 0 {
			s.failf("c06.transmitted-although-refused", "the bundle had to be refused (delete-block %v, hop count %d+1 > limit %d: %v, expired by time %v / by age %v) but was handed to %s", deleteByBlock, cs.HopCount, cs.HopLimit, hopRefuse, expireByTime, expireByAge, attempts[0].Peer)
		}
		if (expireByTime || expireByAge || ambiguous) && s.storeHas(idv) {
			// an expired bundle may also be dropped by the store-cleaning job - and a bundle that has to be refused for
			// its hop count or a block, whose short lifetime has (perhaps) run out as well, cannot even be loaded for the
			// attempt at which it would be refused: it then waits for that job. If its lifetime has not run out the
			// job leaves it alone and the verdict below stands.
			s.logf("store-cleaning tick")
			s.tickClean()
		}
		if s.storeHas(idv) {
			s.failf("c06.refused-not-dropped", "the bundle had to be refused (delete-block %v, hop limit %v, expired %v/%v) but is still in the store", deleteByBlock, hopRefuse, expireByTime, expireByAge)
		}
		return
	}
	var toDest []vfSend
	for _, x := range attempts {
		if x.Peer == "dest" {
			toDest = append(toDest, x)
		}
	}
	if len(toDest) != cs.Fails+1 {
		s.failf("c06.not-transmitted", "expected %d transmissions to the destination (%d failing + 1), saw %d (all peers: %d)", cs.Fails+1, cs.Fails, len(toDest), len(attempts))
	}
	special := hasAge || cs.HopLimit >= 0
	for _, b := range win.Blocks {
		if b.Type == vk.BTPrev {
			special = true
		}
	}
	if special {
		c.NonTrivial()
	}
	if cs.Fails > 0 {
		c.Class("with retries")
	}
	for n, x := range attempts {
		what := fmt.Sprintf("transmission %d (to %s)", n, x.Peer)
		if _, err := bpv7.ParseBundle(bytes.NewReader(x.Raw)); err != nil {
			s.failf("c06.invalid-on-wire", "%s does not parse as a valid bundle: %v", what, err)
		}
		wo, err := vk.ReadBundle(x.Raw)
		if err != nil {
			s.failf("c06.invalid-on-wire", "%s: independent reader: %v", what, err)
		}
		if p := wo.CheckCRCs(); len(p) > 0 {
			s.failf("c06.invalid-on-wire", "%s: %s", what, p[0])
		}
		if !bytes.Equal(rawIn[win.Primary.Item.Start:win.Primary.Item.End], x.Raw[wo.Primary.Item.Start:wo.Primary.Item.End]) {
			s.failf("c06.primary-changed", "%s: the primary block differs from the accepted one", what)
		}
		outByNum := map[uint64]*vk.WBlock{}
		for i := range wo.Blocks {
			b := &wo.Blocks[i]
			if _, dup := outByNum[b.Num]; dup {
				s.failf("c06.invalid-on-wire", "%s: duplicate block number %d", what, b.Num)
			}
			outByNum[b.Num] = b
		}
		inNums := map[uint64]bool{}
		prevSeen := 0
		for i := range win.Blocks {
			ib := &win.Blocks[i]
			inNums[ib.Num] = true
			ob := outByNum[ib.Num]
			known := ib.Type == 1 || ib.Type == 6 || ib.Type == 7 || ib.Type == 10 || (ib.Type >= 192 && ib.Type <= 194)
			if !known && ib.Flags&vk.BFRemove != 0 {
				delete(inNums, ib.Num) // the number is free again (the node may re-use it for a block it adds)
				if ob != nil && ob.Type == ib.Type {
					s.failf("c06.unsupported-block-not-removed", "%s: the unsupported block of type %d flagged 'remove if not processed' is still there", what, ib.Type)
				}
				continue
			}
			if ob == nil {
				s.failf("c06.block-lost", "%s: block number %d (type %d) is missing", what, ib.Num, ib.Type)
			}
			if ob.Type != ib.Type || ob.Flags != ib.Flags || ob.CRCType != ib.CRCType {
				s.failf("c06.block-changed", "%s: block number %d changed its type/flags/CRC type: (%d,%#x,%d) -> (%d,%#x,%d)", what, ib.Num, ib.Type, ib.Flags, ib.CRCType, ob.Type, ob.Flags, ob.CRCType)
			}
			switch ib.Type {
			case vk.BTHop:
				it, e := vk.DecodeItem(ob.Data, 0)
				if e != nil || len(it.Items) != 2 {
					s.failf("c06.block-changed", "%s: hop count block is undecodable", what)
				}
				if it.Items[0].Arg != uint64(cs.HopLimit) || it.Items[1].Arg != uint64(cs.HopCount+1) {
					s.failf("c06.hop-count", "%s: hop count block is (limit %d, count %d), received (limit %d, count %d): the count must be exactly one higher", what, it.Items[0].Arg, it.Items[1].Arg, cs.HopLimit, cs.HopCount)
				}
			case vk.BTAge:
				it, e := vk.DecodeItem(ob.Data, 0)
				if e != nil || !it.IsUint() {
					s.failf("c06.block-changed", "%s: bundle age block is undecodable", what)
				}
				// time at this node between reception and this transmission, bracketed by harness clock readings
				// lower bound: from the end of the reception to the trigger that preceded this transmission
				// (not to x.At: on a busy machine the node computes the age well before the scripted
				// convergence layer gets to run and takes its time stamp)
				trig := tIn0
				for _, tt := range triggers {
					if !tt.After(x.At) {
						trig = tt
					}
				}
				lo := trig.Sub(tIn1).Milliseconds() - 2
				if lo < 0 {
					lo = 0
				}
				hi := x.At.Sub(tIn0).Milliseconds() + 2
				grown := int64(it.Arg) - int64(ageIn)
				if grown < lo || grown > hi {
					s.failf("c06.age", "%s: bundle age grew from %d to %d ms (+%d), the bundle spent between %d and %d ms at this node", what, ageIn, it.Arg, grown, lo, hi)
				}
			case vk.BTPrev:
				prevSeen++
				e := vk.ReadEID(mustItem(ob.Data))
				if e.String() != vfNodeName {
					s.failf("c06.previous-node", "%s: previous-node block names %s, not this node", what, e.String())
				}
			case 192, 193, 194:
				// owned by routing algorithms: may be updated
			default:
				if !bytes.Equal(ob.Data, ib.Data) {
					s.failf("c06.block-changed", "%s: content of block number %d (type %d) changed", what, ib.Num, ib.Type)
				}
			}
		}
		for num, ob := range outByNum {
			if inNums[num] {
				continue
			}
			switch ob.Type {
			case vk.BTPrev:
				prevSeen++
				e := vk.ReadEID(mustItem(ob.Data))
				if e.String() != vfNodeName {
					s.failf("c06.previous-node", "%s: added previous-node block names %s, not this node", what, e.String())
				}
			case 192, 193, 194:
			default:
				s.failf("c06.block-invented", "%s: a block of type %d (number %d) was added", what, ob.Type, num)
			}
		}
		if prevSeen != 1 {
			s.failf("c06.previous-node", "%s: %d previous-node blocks", what, prevSeen)
		}
	}
	// after the successful transmission to the destination the node has released the bundle
	if s.storeHas(idv) && cs.Algo != "epidemic" {
		c.Class("still stored after delivery")
	}
}

func mustItem(b []byte) *vk.Item {
	it, err := vk.DecodeItem(b, 0)
	if err != nil {
		return &vk.Item{}
	}
	return it
}

// addPeerScripted connects a peer whose first sends have the given outcomes.
func (s *vfSim) addPeerScripted(name string, id string, outcomes []bool) *vfPeer {
	s.scriptNext = map[string]map[string][]bool{name: {id: outcomes}}
	return s.addPeer(name)
}

func genC06(t *rapid.T) c06Case {
	cs := c06Case{Algo: rapid.SampledFrom([]string{"epidemic", "epidemic", "epidemic", "spray", "binary_spray", "prophet", "dtlsr"}).Draw(t, "algo")}
	cs.Spec = vk.GenBundle(vk.GenOpts{NoFragment: true, NoCustom: true, PrimaryCRC: true, SmallPayload: true, MaxExt: 5}).Draw(t, "bundle")
	switch rapid.IntRange(0, 5).Draw(t, "hopk") {
	case 0:
		cs.HopLimit = -1
	case 1:
		pair := rapid.SampledFrom([][2]int{{0, 0}, {1, 0}, {1, 1}, {30, 30}, {255, 254}, {255, 255}, {255, 0}, {30, 29}}).Draw(t, "hop")
		cs.HopLimit, cs.HopCount = pair[0], pair[1]
	default:
		cs.HopLimit = rapid.IntRange(0, 255).Draw(t, "limit")
		cs.HopCount = rapid.IntRange(0, cs.HopLimit).Draw(t, "count")
	}
	cs.SleepMs = rapid.SampledFrom([]int{0, 0, 0, 0, 0, 0, 30, 30, 300, 1500}).Draw(t, "sleep")
	cs.Fails = rapid.SampledFrom([]int{0, 0, 1, 2}).Draw(t, "fails")
	cs.OtherPeer = rapid.IntRange(0, 3).Draw(t, "other") == 0
	if rapid.IntRange(0, 3).Draw(t, "run") == 0 {
		cs.Run = rapid.SliceOfN(rapid.SampledFrom([]uint64{vk.BFRemove, vk.BFRemove, vk.BFRemove | vk.BFReplicate, 0, vk.BFReplicate, vk.BFRemove | vk.BFReport}), 2, 4).Draw(t, "runflags")
	}
	if rapid.IntRange(0, 7).Draw(t, "shortlife") == 0 {
		cs.LifeMs = rapid.SampledFrom([]uint64{150, 400, 5000}).Draw(t, "life")
		if cs.SleepMs < 300 {
			cs.SleepMs = rapid.SampledFrom([]int{0, 600}).Draw(t, "sleep2")
		}
	}
	return cs
}

func TestVerifC06Forwarding(t *testing.T) {
	u := vk.Unit{Property: "C06", Name: "c06.forwarding", Quick: 480, Thorough: 6000,
		Rule: "generated bundles (all endpoint forms, flag combinations, 0..5 extension blocks incl. previous-node, age and unknown types with every block-flag combination, in a quarter of the cases 2..4 more unknown blocks next to each other (mostly flagged for removal), CRC mix, zero / non-zero creation time) x hop (count, limit) incl. (0,0),(k,k),(254,255),(255,255) x residence 0/30/300/1500 ms (real sleeps) x lifetime 1 h or a few hundred ms x 0..2 failed transmissions before the successful one x routing algorithm; the bytes serialised inside the scripted convergence layer are parsed with the independent reader and diffed block by block against the accepted encoding (primary block and payload byte-identical, hop count +1 on every attempt, previous node = this node, age growth inside the bracket of harness clock readings, unsupported remove-flagged blocks gone, nothing invented); refusal cases: never transmitted and dropped from the store; non-trivial = bundle with a hop-count / age / previous-node block that was transmitted, or a refusal case; distinct by case hash"}
	vk.Check(t, u, genC06, c06Body)
}
