package routing

import (
	"fmt"
	"runtime"
	"strings"
	"sync"
	"sync/atomic"
	"testing"
	"time"

	"github.com/dtn7/dtn7-go/pkg/bpv7"
	vk "github.com/dtn7/dtn7-go/pkg/verifkit"
	"github.com/dtn7/dtn7-go/pkg/verifhook"
	"pgregory.net/rapid"
)

// C05 — store-carry-forward: an accepted bundle is never silently lost.

var c05Algos = []string{"epidemic", "spray", "binary_spray", "prophet", "dtlsr", "sensor-mule"}
var c05Ops = []string{"submit", "submit", "recv", "recv", "recvdup", "up", "up", "up", "down", "script", "tick", "tick", "clean", "restart", "expire"}

func c05Body(c *vk.Ctx, cs hCase) {
	w := newHWorld(c, &cs)
	defer w.s.close()
	waited := map[string]bool{}
	nt := false
	for k, op := range cs.Ops {
		before := w.s.nSends()
		if !w.apply(k, op) {
			continue
		}
		c.Class("op=" + op.Op)
		news := w.absorb()
		_ = before
		pend := w.pendingPayloads()
		for i, st := range w.bs {
			if !st.accepted {
				continue
			}
			if !st.alive() {
				// its lifetime has ended or is about to: the statement is about bundles whose lifetime has not ended
				c.Class("a bundle's lifetime ended while it waited")
				continue
			}
			// (1) retained and marked for retry until a convergence layer reported a success
			if !st.anyOK {
				if !pend[st.payload] {
					w.s.failf("c05.lost", "after %s: bundle %d (payload %q) was accepted, no transmission of it has succeeded yet, but it is not among the store's pending items (%d pending)", w.step, i, st.payload, len(pend))
				}
				if waited[st.payload] {
					nt = true
				}
				waited[st.payload] = true
			}
			// (2) transmitted to its destination node as soon as that node is a directly connected peer
			if st.destNode != "" && !st.succeeded[st.destNode] && w.s.connected(st.destNode) && pend[st.payload] {
				trigger := op.Op == "tick" || op.Op == "restart" ||
					(op.Op == "up" && w.names[op.A%cs.NPeers] == st.destNode) ||
					((op.Op == "submit" || op.Op == "recv") && op.A%len(w.bs) == i)
				p := w.s.peers[st.destNode]
				p.mu.Lock()
				failing := p.failAll
				p.mu.Unlock()
				if trigger && !failing {
					w.s.failf("c05.not-sent-to-destination", "after %s: bundle %d waits in the store, its destination node %s is a connected peer whose sends succeed, but the bundle was not transmitted to it", w.step, i, st.destNode)
				}
			}
		}
		// (3) epidemic: every newly connected peer that does not have it yet
		if op.Op == "up" && (cs.Algo == "epidemic" || cs.Algo == "sensor-mule") {
			pn := w.names[op.A%cs.NPeers]
			if !(cs.Algo == "sensor-mule" && strings.HasPrefix(pn, "sensor")) {
				for i, st := range w.bs {
					if !st.accepted || st.prevName == pn || st.succeeded[pn] || !st.alive() {
						continue
					}
					if st.destNode != "" && st.succeeded[st.destNode] {
						continue // handed to its destination node: the node may let go of it
					}
					if st.destNode != "" && w.s.connected(st.destNode) {
						// while the destination node itself is a connected peer the node only tries direct
						// delivery and does not consult the routing algorithm (see DESIGN.md, interpretation notes)
						continue
					}
					if !w.sentTo(news, st, pn) {
						w.s.failf("c05.epidemic-not-offered", "after %s: bundle %d is held by the node, %s is newly connected, is not the bundle's previous node and has not got it yet, but no transmission to %s was attempted", w.step, i, pn, pn)
					}
				}
			}
		}
	}
	if nt {
		c.NonTrivial()
	}
	c.Class("algo=" + cs.Algo)
}

func (w *hWorld) sentTo(news []vfSend, st *hBundleState, peer string) bool {
	for _, x := range news {
		if x.Peer == peer {
			if s2 := w.stateOf(x.Raw); s2 == st {
				return true
			}
		}
	}
	return false
}

func TestVerifC05Histories(t *testing.T) {
	u := vk.Unit{Property: "C05", Name: "c05.histories", Quick: 360, Thorough: 18000,
		Rule: "histories of 3..16 events over {application submits, peer delivers (with/without previous node), duplicate reception, peer appears/disappears, sends to a peer fail/succeed, pending-retry tick, store-cleaning tick, orderly restart, the short lifetimes end} for 1..4 peers and 1..4 bundles (created now / in the same millisecond / with zero creation time + age block; one in six with a lifetime of 1.5 s that may end while the bundle waits - such a bundle is exempt from then on, the others are not), per routing algorithm (epidemic, spray, binary_spray, prophet, dtlsr, sensor-mule); after every event: a bundle without a successful transmission is among the store's pending items and loads its payload; a waiting bundle whose destination node is a connected, succeeding peer has been transmitted to it; under epidemic routing a newly connected peer was offered every held bundle it does not have; non-trivial = a bundle waited in the store across a later event; distinct by case hash"}
	g := genHistory(c05Algos, 4, c05Ops, 16)
	vk.Check(t, u, func(t *rapid.T) hCase { return g.Draw(t, "history") }, c05Body)
}

// ---- several transmissions of one bundle fail at the same moment ----

type c05ConcCase struct {
	Algo   string `json:"algo"`
	NFail  int    `json:"nfail"` // peers whose send fails at the same moment
	Forced bool   `json:"forced"`
	Local  bool   `json:"local"`
}

// vfPark installs a schedule handler that parks goroutines at point until n have arrived
// (or a 50 ms grace period ends); it returns a function that tells how many arrived together.
func vfPark(point string, n int) func() int {
	var mu sync.Mutex
	waiting, together := 0, 0
	release := make(chan struct{})
	var once sync.Once
	verifhook.Set(func(name string) {
		if name != point {
			return
		}
		mu.Lock()
		waiting++
		if waiting > together {
			together = waiting
		}
		if waiting >= n {
			once.Do(func() { close(release) })
		}
		mu.Unlock()
		select {
		case <-release:
		case <-time.After(50 * time.Millisecond):
		}
		mu.Lock()
		waiting--
		mu.Unlock()
	})
	return func() int {
		verifhook.Set(nil)
		mu.Lock()
		defer mu.Unlock()
		return together
	}
}

func c05ConcBody(c *vk.Ctx, cs c05ConcCase) {
	h := hCase{Algo: cs.Algo, NPeers: cs.NFail, Bundles: []hBundle{{Local: cs.Local, Dest: 99, Prev: -1}}}
	w := newHWorld(c, &h)
	defer w.s.close()
	for i := 0; i < cs.NFail; i++ {
		w.s.addPeer(w.names[i])
		w.s.setFailAll(w.names[i], true)
	}
	if cs.Algo == "prophet" {
		// make every peer attractive: it advertises a predictability for the destination
		c05ProphetAdvertise(w, "dtn://faraway/inbox")
	}
	point := "routing." + cs.Algo + ".reportfailure"
	var done func() int
	if cs.Forced {
		done = vfPark(point, cs.NFail)
	}
	op := "recv"
	if cs.Local {
		op = "submit"
	}
	w.apply(0, hOp{Op: op, A: 0})
	got := 0
	if done != nil {
		got = done()
	}
	news := w.absorb()
	attempted := map[string]bool{}
	for _, x := range news {
		if w.stateOf(x.Raw) == w.bs[0] {
			attempted[x.Peer] = true
		}
	}
	if got >= 2 {
		c.NonTrivial()
		c.Class("failure reports forced to read before any wrote")
	} else if cs.Forced {
		c.Class("interleaving not achieved")
	}
	c.Class("algo=" + cs.Algo)
	if len(attempted) < 2 {
		c.Class("fewer than two simultaneous transmissions (nothing to race)")
	}
	// the bundle must still be retained and marked for retry
	if !w.pendingPayloads()[w.bs[0].payload] {
		w.s.failf("c05.lost", "%d transmissions of one bundle failed at the same moment; afterwards the bundle is not among the store's pending items", len(attempted))
	}
	// and every peer whose transmission failed gets it again once its sends succeed
	for i := 0; i < cs.NFail; i++ {
		w.s.setFailAll(w.names[i], false)
	}
	w.s.logf("sends succeed again; pending-retry tick")
	w.s.tickPending()
	news = w.absorb()
	for n := range attempted {
		if !w.sentTo(news, w.bs[0], n) {
			w.s.failf("c05.failed-peer-not-retried", "transmissions of one bundle to %d peers failed at the same moment (forced interleaving achieved for %d failure reports); at the next retry tick the bundle was not offered again to %s, whose transmission had failed", len(attempted), got, n)
		}
	}
}

// c05ProphetAdvertise makes all connected peers advertise a delivery predictability of 0.9 for dest.
func c05ProphetAdvertise(w *hWorld, dest string) {
	for i, n := range w.names {
		if !w.s.connected(n) {
			continue
		}
		mb := vfProphetMetadata("dtn://"+n+"/", vfNodeName, map[string]float64{dest: 0.9}, uint64(1000+i))
		w.s.receive(mb)
	}
}

func TestVerifC05ConcurrentFailures(t *testing.T) {
	u := vk.Unit{Property: "C05", Name: "c05.concurrent-failures",
		Rule: "a bundle is offered to 2..4 peers at once and all transmissions fail; with a schedule hook between the read and the write-back of the per-bundle bookkeeping the failure reports are forced to all read before any writes (and, unforced, left to the scheduler); oracle: the bundle is still pending, and at the next retry tick it is offered again to every peer whose transmission failed; algorithms epidemic and prophet (the ones that keep the list in the store), local and received bundles; non-trivial = forced interleaving achieved; distinct by case"}
	var cases []c05ConcCase
	for _, a := range []string{"epidemic", "prophet"} {
		for n := 2; n <= 4; n++ {
			for _, f := range []bool{true, false} {
				for _, l := range []bool{true, false} {
					cases = append(cases, c05ConcCase{a, n, f, l})
				}
			}
		}
	}
	reps := 1
	if vk.Tier() == "thorough" {
		reps = 10
	}
	vk.Enumerate(t, u, false, func(yield func(c05ConcCase) bool) {
		for r := 0; r < reps; r++ {
			for i, cs := range cases {
				if !vk.ShardOwns(i) {
					continue
				}
				if !yield(cs) {
					return
				}
			}
		}
	}, c05ConcBody)
	_ = fmt.Sprint
}


// ---- unforced: many transmissions of one bundle fail at the same instant on different CPUs ----

type c05SimulCase struct {
	Algo    string `json:"algo"`
	NPeers  int    `json:"npeers"`
	Bundles int    `json:"bundles"`
	Local   bool   `json:"local"`
	Mixed   bool   `json:"mixed"` // every second peer's transmission succeeds, the others fail (at the same instant)
}

func TestVerifC05SimultaneousFailures(t *testing.T) {
	u := vk.Unit{Property: "C05", Name: "c05.simultaneous-failures", Quick: 6, Thorough: 150,
		Rule: "4..12 peers whose Send calls rendezvous (spin barrier: all transmissions of the bundle are in flight) and then return together - all failing, or every second one succeeding; 8..30 bundles treated this way one after the other (epidemic / prophet / spray with a large budget); then the links recover and one retry tick runs. Oracle: every bundle is still pending after its failures, and the retry offers every bundle to every peer whose transmission had failed. Every case non-trivial; distinct by parameters. The schedule is the runtime's; a failure reproduces only statistically"}
	vk.Check(t, u, func(t *rapid.T) c05SimulCase {
		return c05SimulCase{Algo: rapid.SampledFrom([]string{"epidemic", "epidemic", "prophet", "spray"}).Draw(t, "algo"), NPeers: rapid.IntRange(4, 12).Draw(t, "npeers"),
			Bundles: rapid.IntRange(8, 30).Draw(t, "bundles"), Local: rapid.Bool().Draw(t, "local"), Mixed: rapid.Bool().Draw(t, "mixed")}
	}, func(c *vk.Ctx, cs c05SimulCase) {
		c.NonTrivial()
		c.Class("algo=" + cs.Algo)
		h := hCase{Algo: cs.Algo, NPeers: cs.NPeers, L: 64}
		if cs.Algo != "spray" {
			h.L = 0
		}
		for i := 0; i < cs.Bundles; i++ {
			h.Bundles = append(h.Bundles, hBundle{Local: cs.Local || cs.Algo == "spray", Dest: 99, Prev: -1})
		}
		w := newHWorld(c, &h)
		defer w.s.close()
		var arrived int32
		var gen int32
		parties := int32(cs.NPeers)
		gate := func() {
			g := atomic.LoadInt32(&gen)
			atomic.AddInt32(&arrived, 1)
			deadline := time.Now().Add(300 * time.Millisecond)
			for i := 1; atomic.LoadInt32(&arrived) < (g+1)*parties; i++ {
				if i%1024 == 0 {
					if time.Now().After(deadline) {
						return
					}
					runtime.Gosched()
				}
			}
		}
		for i := 0; i < cs.NPeers; i++ {
			w.s.addPeer(w.names[i])
			w.s.setFailAll(w.names[i], !cs.Mixed || i%2 == 1)
		}
		if cs.Mixed {
			c.Class("mixed outcomes in one round")
		}
		if cs.Algo == "prophet" {
			c05ProphetAdvertise(w, "dtn://faraway/inbox")
		}
		for i := 0; i < cs.NPeers; i++ {
			p := w.s.peers[w.names[i]]
			p.mu.Lock()
			p.gate = gate
			p.mu.Unlock()
		}
		op := "recv"
		if cs.Local || cs.Algo == "spray" {
			op = "submit"
		}
		failed := make([]map[string]bool, cs.Bundles)
		for b := 0; b < cs.Bundles; b++ {
			atomic.StoreInt32(&gen, int32(b))
			atomic.StoreInt32(&arrived, int32(b)*parties)
			w.apply(b, hOp{Op: op, A: b})
			news := w.absorb()
			failed[b] = map[string]bool{}
			for _, x := range news {
				if w.stateOf(x.Raw) == w.bs[b] && !x.OK {
					failed[b][x.Peer] = true
				}
			}
			if len(failed[b]) == cs.NPeers {
				c.Class("all transmissions of a bundle in flight together")
			}
			if !w.pendingPayloads()[w.bs[b].payload] {
				w.s.failf("c05.lost", "%d transmissions of bundle %d failed at the same moment; afterwards the bundle is not among the store's pending items", len(failed[b]), b)
			}
		}
		for i := 0; i < cs.NPeers; i++ {
			p := w.s.peers[w.names[i]]
			p.mu.Lock()
			p.gate = nil
			p.mu.Unlock()
			w.s.setFailAll(w.names[i], false)
		}
		w.s.logf("sends succeed again; pending-retry tick")
		w.s.tickPending()
		news := w.absorb()
		missing := 0
		var first string
		for b := 0; b < cs.Bundles; b++ {
			for n := range failed[b] {
				if !w.sentTo(news, w.bs[b], n) {
					missing++
					if first == "" {
						first = fmt.Sprintf("bundle %d to %s", b, n)
					}
				}
			}
		}
		if missing > 0 {
			w.s.failf("c05.failed-peer-not-retried", "%d bundles were each offered to %d peers whose transmissions failed at the same instant; at the next retry tick %d of the failed transmissions were not repeated (first: %s) although the peers are connected and the node holds the bundles", cs.Bundles, cs.NPeers, missing, first)
		}
	})
}

// ---- directed scenarios: submissions around a restart, per creation-time kind ------------------

type c05Dir struct {
	Algo    string `json:"algo"`
	TsKind  int    `json:"tskind"`  // 0 now, 1 same millisecond, 2 zero creation time + age block
	N1      int    `json:"n1"`      // submissions (or receptions) before the restart
	Restart int    `json:"restart"` // number of orderly restarts (0..2)
	N2      int    `json:"n2"`      // submissions afterwards
	Local   bool   `json:"local"`
	Clean   bool   `json:"clean"` // a store-cleaning tick before the destination appears
	Dups    int    `json:"dups"`  // received bundles: the first one is received again this many times
}

func TestVerifC05Directed(t *testing.T) {
	u := vk.Unit{Property: "C05", Name: "c05.directed",
		Rule: "exhaustive product: algorithm (6) x creation-time kind (now / same millisecond / zero + age block) x 1..3 bundles accepted while no peer is connected x 0..2 orderly restarts x 0..2 further bundles afterwards x submitted locally or received (then also: the first bundle received again 0 / 2 / 3 times) x optional store-cleaning tick (quick: a pseudo-random half of the product, offset by the seed; thorough: all of it); then the destination node appears and a retry tick runs. Oracle as c05.histories (retained and pending until a success; transmitted to the connected destination). Every case non-trivial (bundles wait in the store); distinct by tuple"}
	sample := 2
	if vk.Tier() == "thorough" {
		sample = 1
	}
	vk.Enumerate(t, u, sample == 1, func(yield func(c05Dir) bool) {
		i := 0
		for _, algo := range c05Algos {
			for ts := 0; ts <= 2; ts++ {
				for n1 := 1; n1 <= 3; n1++ {
					for rs := 0; rs <= 2; rs++ {
						for n2 := 0; n2 <= 2; n2++ {
							for _, local := range []bool{true, false} {
								for _, clean := range []bool{false, true} {
									if rs == 0 && n2 > 0 {
										continue // same as a larger n1
									}
									dups := []int{0}
									if !local {
										dups = []int{0, 2, 3}
									}
									for _, dp := range dups {
										// quick: a pseudo-random half of the product (by hash, offset by the seed)
										h := uint64(len(algo))*0x9E3779B97F4A7C15 + uint64(ts*7919+n1*104729+rs*1299709+n2*15485863+dp*32452843) + uint64(vk.BaseSeed())*0xD1B54A32D192ED03
										if local {
											h += 0x51ED27
										}
										if clean {
											h += 0xA24BAED4963EE407
										}
										h ^= h >> 31
										h *= 0x9E3779B97F4A7C15
										h ^= h >> 29
										if sample > 1 && h%uint64(sample) != 0 {
											continue
										}
										i++
										if !vk.ShardOwns(i) {
											continue
										}
										if !yield(c05Dir{algo, ts, n1, rs, n2, local, clean, dp}) {
											return
										}
									}
								}
							}
						}
					}
				}
			}
		}
	}, func(c *vk.Ctx, d c05Dir) {
		c.NonTrivial()
		cs := hCase{Algo: d.Algo, NPeers: 2, L: 4}
		if d.Algo != "spray" && d.Algo != "binary_spray" {
			cs.L = 0
		}
		verb := "recv"
		if d.Local {
			verb = "submit"
		}
		for i := 0; i < d.N1+d.N2; i++ {
			cs.Bundles = append(cs.Bundles, hBundle{Local: d.Local, Dest: 0, Prev: -1, TsKind: d.TsKind})
		}
		for i := 0; i < d.N1; i++ {
			cs.Ops = append(cs.Ops, hOp{Op: verb, A: i})
		}
		for i := 0; i < d.Dups; i++ {
			cs.Ops = append(cs.Ops, hOp{Op: "recvdup", A: 0})
		}
		for r := 0; r < d.Restart; r++ {
			cs.Ops = append(cs.Ops, hOp{Op: "restart"})
			if r == 0 {
				for i := 0; i < d.N2; i++ {
					cs.Ops = append(cs.Ops, hOp{Op: verb, A: d.N1 + i})
				}
			}
		}
		if d.Clean {
			cs.Ops = append(cs.Ops, hOp{Op: "clean"})
		}
		cs.Ops = append(cs.Ops, hOp{Op: "up", A: 0}, hOp{Op: "tick"}, hOp{Op: "tick"})
		c05Body(c, cs)
	})
}


// ---- status reports in transit about a bundle the node carries ----------------------------------

type c05Rpt struct {
	Algo       string `json:"algo"`
	InspectAll bool   `json:"inspect_all"`
	Status     int    `json:"status"`     // 0 received, 1 forwarded, 2 delivered, 3 deleted, 4 = not a status report at all: an administrative record of an unknown type
	AboutHeld  bool   `json:"about_held"` // the report refers to a bundle this node carries (else to an unknown one)
	PeerEarly  bool   `json:"peer_early"` // a relay is connected when the report arrives
	ToNode     bool   `json:"to_node"`    // the report is addressed to this node (else in transit)
	Restart    bool   `json:"restart"`
}

func TestVerifC05ReportsInTransit(t *testing.T) {
	u := vk.Unit{Property: "C05", Name: "c05.reports-in-transit",
		Rule: "exhaustive product: algorithm (epidemic, spray, prophet, dtlsr) x node option 'inspect all bundles' on/off x status report kind (received / forwarded / delivered / deleted, or an administrative record of an unknown type) x about a bundle the node carries / an unknown one x a relay connected when the report arrives or later x report in transit / addressed to this node x restart; a data bundle X is accepted and waits; a status-report bundle R about X arrives from a peer; relays appear. Oracle (the report is an accepted bundle like any other): R in transit is pending until a transmission of it succeeded and - under epidemic routing - is offered to every relay that appears; X stays pending too unless the node inspects all bundles and R says X was delivered (the node then drops X by design); every case non-trivial; distinct by tuple"}
	vk.Enumerate(t, u, true, func(yield func(c05Rpt) bool) {
		i := 0
		bools := []bool{false, true}
		for _, algo := range []string{"epidemic", "spray", "prophet", "dtlsr"} {
			for _, ia := range bools {
				for st := 0; st <= 4; st++ {
					for _, held := range bools {
						for _, early := range bools {
							for _, toNode := range bools {
								for _, rs := range bools {
									i++
									if !vk.ShardOwns(i) {
										continue
									}
									if !yield(c05Rpt{algo, ia, st, held, early, toNode, rs}) {
										return
									}
								}
							}
						}
					}
				}
			}
		}
	}, func(c *vk.Ctx, cs c05Rpt) {
		c.NonTrivial()
		s := vfNewSimInspect(c, vfConf(cs.Algo), cs.InspectAll)
		defer s.close()
		mk := func(src, dst string, payload string, flags bpv7.BundleControlFlags) bpv7.Bundle {
			b, err := bpv7.Builder().CRC(bpv7.CRC32).Source(src).Destination(dst).ReportTo("dtn://origin/reports").CreationTimestampNow().Lifetime("1h").
				BundleCtrlFlags(flags).PayloadBlock([]byte(payload)).Build()
			if err != nil {
				s.failf("c05.harness", "bundle: %v", err)
			}
			return b
		}
		x := mk("dtn://origin/app", "dtn://faraway/inbox", "c05 data bundle X", bpv7.StatusRequestDelivery|bpv7.StatusRequestForward|bpv7.StatusRequestReception|bpv7.StatusRequestDeletion)
		s.logf("data bundle X received (no peer)")
		s.receive(x)
		about := x
		if !cs.AboutHeld {
			about = mk("dtn://origin/app", "dtn://faraway/inbox", "another bundle", bpv7.StatusRequestDelivery)
			about.PrimaryBlock.CreationTimestamp[1] = 77
		}
		if cs.PeerEarly {
			s.logf("relay p1 appears")
			s.addPeer("p1")
		}
		var ar bpv7.CanonicalBlock
		if cs.Status <= 3 {
			sr := bpv7.NewStatusReport(about, bpv7.StatusInformationPos(cs.Status), bpv7.NoInformation, bpv7.DtnTimeNow())
			var err error
			if ar, err = bpv7.AdministrativeRecordToCbor(sr); err != nil {
				s.failf("c05.harness", "record: %v", err)
			}
		} else {
			// a record this implementation cannot interpret: [7, 0]. To a relay it is payload like any other.
			ar = bpv7.NewCanonicalBlock(1, 0, bpv7.NewPayloadBlock([]byte{0x82, 0x07, 0x00}))
		}
		rdst := "dtn://origin/reports"
		if cs.ToNode {
			rdst = vfNodeName + "app"
		}
		r, err := bpv7.Builder().CRC(bpv7.CRC32).BundleCtrlFlags(bpv7.AdministrativeRecordPayload).Source("dtn://faraway/").Destination(rdst).
			CreationTimestampNow().Lifetime("1h").Canonical(ar).Build()
		if err != nil {
			s.failf("c05.harness", "report bundle: %v", err)
		}
		s.logf("status report R (status %d about held=%v, to this node=%v) received", cs.Status, cs.AboutHeld, cs.ToNode)
		s.receive(r)
		xDropOK := cs.InspectAll && cs.AboutHeld && cs.Status == 2
		if cs.ToNode && cs.AboutHeld && cs.Status == 2 {
			xDropOK = true // a report addressed to the node is always inspected
		}
		check := func(step string) {
			okR, okX := false, false
			for _, snd := range s.sendsSince(0) {
				if snd.OK && snd.ID == r.ID().String() {
					okR = true
				}
				if snd.OK && snd.ID == x.ID().String() {
					okX = true
				}
			}
			if !cs.ToNode && !okR && !s.storeHas(r.ID()) {
				s.failf("c05.lost", "after %s: the status-report bundle R (in transit, accepted from a peer, lifetime 1 h) has not been transmitted successfully yet but is no longer in the store", step)
			}
			if !okX && !xDropOK && !s.storeHas(x.ID()) {
				s.failf("c05.lost", "after %s: the data bundle X has not been transmitted successfully yet but is no longer in the store (report status %d, about X: %v, inspect all: %v)", step, cs.Status, cs.AboutHeld, cs.InspectAll)
			}
		}
		offered := func(id string, peer string, since int) bool {
			for _, snd := range s.sendsSince(since) {
				if snd.Peer == peer && snd.ID == id {
					return true
				}
			}
			return false
		}
		check("the report was received")
		if cs.Restart {
			s.logf("orderly restart")
			s.restart()
			check("the restart")
		}
		for _, p := range []string{"p1", "p2", "p3"} {
			if s.connected(p) {
				continue
			}
			before := s.nSends()
			s.logf("relay %s appears", p)
			s.addPeer(p)
			check("relay " + p + " appeared")
			// epidemic: every newly connected peer that does not have it yet (the report's destination never
			// connects, its lifetime is an hour: nothing entitles the node to let go of it)
			if cs.Algo == "epidemic" && !cs.ToNode && !offered(r.ID().String(), p, before) {
				s.failf("c05.epidemic-not-offered", "relay %s is newly connected and does not have the status-report bundle R (in transit, lifetime 1 h, destination not connected), but R was not offered to %s (R still in the store: %v)", p, p, s.storeHas(r.ID()))
			}
			if cs.Algo == "epidemic" && !xDropOK && !offered(x.ID().String(), p, before) {
				s.failf("c05.epidemic-not-offered", "relay %s is newly connected and does not have the data bundle X, but X was not offered to %s (X still in the store: %v)", p, p, s.storeHas(x.ID()))
			}
			s.logf("retry tick")
			s.tickPending()
			check("a retry tick")
		}
	})
}
