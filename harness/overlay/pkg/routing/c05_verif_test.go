package routing

import (
	"fmt"
	"strings"
	"sync"
	"testing"
	"time"

	vk "github.com/dtn7/dtn7-go/pkg/verifkit"
	"github.com/dtn7/dtn7-go/pkg/verifhook"
	"pgregory.net/rapid"
)

// C05 — store-carry-forward: an accepted bundle is never silently lost.

var c05Algos = []string{"epidemic", "spray", "binary_spray", "prophet", "dtlsr", "sensor-mule"}
var c05Ops = []string{"submit", "submit", "recv", "recv", "recvdup", "up", "up", "up", "down", "script", "tick", "tick", "clean", "restart"}

func c05Body(c *vk.Ctx, cs hCase) {
	w := newHWorld(c, &cs)
	defer w.s.close()
	waited := map[string]bool{}
	nt := false
	for k, op := range cs.Ops {
		before := w.s.nSends()
		if !w.apply(k, op) {
			continue
		}
		c.Class("op=" + op.Op)
		news := w.absorb()
		_ = before
		pend := w.pendingPayloads()
		for i, st := range w.bs {
			if !st.accepted {
				continue
			}
			// (1) retained and marked for retry until a convergence layer reported a success
			if !st.anyOK {
				if !pend[st.payload] {
					w.s.failf("c05.lost", "after %s: bundle %d (payload %q) was accepted, no transmission of it has succeeded yet, but it is not among the store's pending items (%d pending)", w.step, i, st.payload, len(pend))
				}
				if waited[st.payload] {
					nt = true
				}
				waited[st.payload] = true
			}
			// (2) transmitted to its destination node as soon as that node is a directly connected peer
			if st.destNode != "" && !st.succeeded[st.destNode] && w.s.connected(st.destNode) && pend[st.payload] {
				trigger := op.Op == "tick" || op.Op == "restart" ||
					(op.Op == "up" && w.names[op.A%cs.NPeers] == st.destNode) ||
					((op.Op == "submit" || op.Op == "recv") && op.A%len(w.bs) == i)
				p := w.s.peers[st.destNode]
				p.mu.Lock()
				failing := p.failAll
				p.mu.Unlock()
				if trigger && !failing {
					w.s.failf("c05.not-sent-to-destination", "after %s: bundle %d waits in the store, its destination node %s is a connected peer whose sends succeed, but the bundle was not transmitted to it", w.step, i, st.destNode)
				}
			}
		}
		// (3) epidemic: every newly connected peer that does not have it yet
		if op.Op == "up" && (cs.Algo == "epidemic" || cs.Algo == "sensor-mule") {
			pn := w.names[op.A%cs.NPeers]
			if !(cs.Algo == "sensor-mule" && strings.HasPrefix(pn, "sensor")) {
				for i, st := range w.bs {
					if !st.accepted || st.prevName == pn || st.succeeded[pn] {
						continue
					}
					if !pend[st.payload] && !w.sentTo(news, st, pn) {
						continue // no longer held (handed to its destination)
					}
					if !w.sentTo(news, st, pn) {
						w.s.failf("c05.epidemic-not-offered", "after %s: bundle %d is held by the node, %s is newly connected, is not the bundle's previous node and has not got it yet, but no transmission to %s was attempted", w.step, i, pn, pn)
					}
				}
			}
		}
	}
	if nt {
		c.NonTrivial()
	}
	c.Class("algo=" + cs.Algo)
}

func (w *hWorld) sentTo(news []vfSend, st *hBundleState, peer string) bool {
	for _, x := range news {
		if x.Peer == peer {
			if s2 := w.stateOf(x.Raw); s2 == st {
				return true
			}
		}
	}
	return false
}

func TestVerifC05Histories(t *testing.T) {
	u := vk.Unit{Property: "C05", Name: "c05.histories", Quick: 360, Thorough: 18000,
		Rule: "histories of 3..16 events over {application submits, peer delivers (with/without previous node), duplicate reception, peer appears/disappears, sends to a peer fail/succeed, pending-retry tick, store-cleaning tick, orderly restart} for 1..4 peers and 1..4 bundles (created now / in the same millisecond / with zero creation time + age block), per routing algorithm (epidemic, spray, binary_spray, prophet, dtlsr, sensor-mule); after every event: a bundle without a successful transmission is among the store's pending items and loads its payload; a waiting bundle whose destination node is a connected, succeeding peer has been transmitted to it; under epidemic routing a newly connected peer was offered every held bundle it does not have; non-trivial = a bundle waited in the store across a later event; distinct by case hash"}
	g := genHistory(c05Algos, 4, c05Ops, 16)
	vk.Check(t, u, func(t *rapid.T) hCase { return g.Draw(t, "history") }, c05Body)
}

// ---- several transmissions of one bundle fail at the same moment ----

type c05ConcCase struct {
	Algo   string `json:"algo"`
	NFail  int    `json:"nfail"` // peers whose send fails at the same moment
	Forced bool   `json:"forced"`
	Local  bool   `json:"local"`
}

// vfPark installs a schedule handler that parks goroutines at point until n have arrived
// (or a 50 ms grace period ends); it returns a function that tells how many arrived together.
func vfPark(point string, n int) func() int {
	var mu sync.Mutex
	waiting, together := 0, 0
	release := make(chan struct{})
	var once sync.Once
	verifhook.Set(func(name string) {
		if name != point {
			return
		}
		mu.Lock()
		waiting++
		if waiting > together {
			together = waiting
		}
		if waiting >= n {
			once.Do(func() { close(release) })
		}
		mu.Unlock()
		select {
		case <-release:
		case <-time.After(50 * time.Millisecond):
		}
		mu.Lock()
		waiting--
		mu.Unlock()
	})
	return func() int {
		verifhook.Set(nil)
		mu.Lock()
		defer mu.Unlock()
		return together
	}
}

func c05ConcBody(c *vk.Ctx, cs c05ConcCase) {
	h := hCase{Algo: cs.Algo, NPeers: cs.NFail, Bundles: []hBundle{{Local: cs.Local, Dest: 99, Prev: -1}}}
	w := newHWorld(c, &h)
	defer w.s.close()
	for i := 0; i < cs.NFail; i++ {
		w.s.addPeer(w.names[i])
		w.s.setFailAll(w.names[i], true)
	}
	if cs.Algo == "prophet" {
		// make every peer attractive: it advertises a predictability for the destination
		c05ProphetAdvertise(w, "dtn://faraway/inbox")
	}
	point := "routing." + cs.Algo + ".reportfailure"
	var done func() int
	if cs.Forced {
		done = vfPark(point, cs.NFail)
	}
	op := "recv"
	if cs.Local {
		op = "submit"
	}
	w.apply(0, hOp{Op: op, A: 0})
	got := 0
	if done != nil {
		got = done()
	}
	news := w.absorb()
	attempted := map[string]bool{}
	for _, x := range news {
		if w.stateOf(x.Raw) == w.bs[0] {
			attempted[x.Peer] = true
		}
	}
	if got >= 2 {
		c.NonTrivial()
		c.Class("failure reports forced to read before any wrote")
	} else if cs.Forced {
		c.Class("interleaving not achieved")
	}
	c.Class("algo=" + cs.Algo)
	if len(attempted) < 2 {
		c.Class("fewer than two simultaneous transmissions (nothing to race)")
	}
	// the bundle must still be retained and marked for retry
	if !w.pendingPayloads()[w.bs[0].payload] {
		w.s.failf("c05.lost", "%d transmissions of one bundle failed at the same moment; afterwards the bundle is not among the store's pending items", len(attempted))
	}
	// and every peer whose transmission failed gets it again once its sends succeed
	for i := 0; i < cs.NFail; i++ {
		w.s.setFailAll(w.names[i], false)
	}
	w.s.logf("sends succeed again; pending-retry tick")
	w.s.tickPending()
	news = w.absorb()
	for n := range attempted {
		if !w.sentTo(news, w.bs[0], n) {
			w.s.failf("c05.failed-peer-not-retried", "transmissions of one bundle to %d peers failed at the same moment (forced interleaving achieved for %d failure reports); at the next retry tick the bundle was not offered again to %s, whose transmission had failed", len(attempted), got, n)
		}
	}
}

// c05ProphetAdvertise makes all connected peers advertise a delivery predictability of 0.9 for dest.
func c05ProphetAdvertise(w *hWorld, dest string) {
	for i, n := range w.names {
		if !w.s.connected(n) {
			continue
		}
		mb := vfProphetMetadata("dtn://"+n+"/", vfNodeName, map[string]float64{dest: 0.9}, uint64(1000+i))
		w.s.receive(mb)
	}
}

func TestVerifC05ConcurrentFailures(t *testing.T) {
	u := vk.Unit{Property: "C05", Name: "c05.concurrent-failures",
		Rule: "a bundle is offered to 2..4 peers at once and all transmissions fail; with a schedule hook between the read and the write-back of the per-bundle bookkeeping the failure reports are forced to all read before any writes (and, unforced, left to the scheduler); oracle: the bundle is still pending, and at the next retry tick it is offered again to every peer whose transmission failed; algorithms epidemic and prophet (the ones that keep the list in the store), local and received bundles; non-trivial = forced interleaving achieved; distinct by case"}
	var cases []c05ConcCase
	for _, a := range []string{"epidemic", "prophet"} {
		for n := 2; n <= 4; n++ {
			for _, f := range []bool{true, false} {
				for _, l := range []bool{true, false} {
					cases = append(cases, c05ConcCase{a, n, f, l})
				}
			}
		}
	}
	reps := 1
	if vk.Tier() == "thorough" {
		reps = 10
	}
	vk.Enumerate(t, u, false, func(yield func(c05ConcCase) bool) {
		for r := 0; r < reps; r++ {
			for i, cs := range cases {
				if !vk.ShardOwns(i) {
					continue
				}
				if !yield(cs) {
					return
				}
			}
		}
	}, c05ConcBody)
	_ = fmt.Sprint
}
