package routing

import (
	"bytes"
	"fmt"
	"strings"
	"testing"

	"github.com/dtn7/dtn7-go/pkg/bpv7"
	"github.com/dtn7/dtn7-go/pkg/cla"
	vk "github.com/dtn7/dtn7-go/pkg/verifkit"
)

// C15 — status reports are truthful, correctly addressed and cannot cascade.

type c15Case struct {
	Algo     string `json:"algo"`
	Req      uint64 `json:"req"`      // status request flags
	Time     bool   `json:"time"`     // request status time
	Fragment bool   `json:"fragment"` // the bundle is a fragment
	Outcome  string `json:"outcome"`
	BlockFl  uint64 `json:"block_flags,omitempty"` // flags of the unknown block (outcome "unknown-block")
	NextFl   uint64 `json:"next_flags,omitempty"`  // a SUPPORTED block (hop count 0 of 30) directly follows the unknown one and carries these flags: they entitle to nothing
	RptSelf  bool   `json:"rpt_self"`              // report-to is an endpoint of this node
	RptOther bool   `json:"rpt_other_authority"`   // ... namely an endpoint with another node name which a local agent has registered
	RptCLA   int    `json:"rpt_listener,omitempty"` // ... namely under the node name of the first (1) or second (2) of two listeners of one CLA type
}

var c15Outcomes = []string{"delivered", "no-agent", "forwarded", "send-fails", "expired", "hop-exceeded", "unknown-block", "no-route",
	// the event happens when the bundle is retried from the store, not when it is received
	"forwarded-later", "send-fails-then-ok", "hop-exceeded-later", "unknown-block-later"}

type c15Report struct {
	raw      []byte
	where    string // peer name or "agent"
	w        *vk.WBundle
	asserted int    // position of the asserted item
	nAssert  int
	hasTime  bool
	reason   uint64
	ref      string // referenced bundle ID
	dst      string
}

// c15Decode decodes an administrative-record bundle independently; ok=false if the bundle is no admin record.
func c15Decode(raw []byte) (r c15Report, ok bool, err error) {
	w, e := vk.ReadBundle(raw)
	if e != nil {
		return r, false, e
	}
	if w.Primary.Flags&vk.FAdmin == 0 {
		return r, false, nil
	}
	r.raw, r.w, r.dst = raw, w, w.Primary.Dst.String()
	pay, _ := w.Payload()
	it, e := vk.DecodeItem(pay, 0)
	if e != nil || it.Major != vk.MajArray || len(it.Items) != 2 || it.Items[0].Arg != 1 {
		return r, true, fmt.Errorf("payload is not [1, status report]")
	}
	rep := it.Items[1]
	if rep.Major != vk.MajArray || (len(rep.Items) != 4 && len(rep.Items) != 6) {
		return r, true, fmt.Errorf("status report has %d elements", len(rep.Items))
	}
	items := rep.Items[0]
	if items.Major != vk.MajArray || len(items.Items) != 4 {
		return r, true, fmt.Errorf("status information has %d items", len(items.Items))
	}
	r.asserted = -1
	for i, si := range items.Items {
		if len(si.Items) == 0 {
			return r, true, fmt.Errorf("empty status item")
		}
		if v, isB := si.Items[0].IsBool(); isB && v {
			r.nAssert++
			r.asserted = i
			r.hasTime = len(si.Items) == 2
		}
	}
	r.reason = rep.Items[1].Arg
	src := vk.ReadEID(rep.Items[2])
	ts := rep.Items[3]
	if !src.OK || ts.Major != vk.MajArray || len(ts.Items) != 2 {
		return r, true, fmt.Errorf("bad bundle reference")
	}
	r.ref = fmt.Sprintf("%s-%d-%d", src.String(), ts.Items[0].Arg, ts.Items[1].Arg)
	if len(rep.Items) == 6 {
		r.ref += fmt.Sprintf("-%d-%d", rep.Items[4].Arg, rep.Items[5].Arg)
	}
	return r, true, nil
}

func c15Body(c *vk.Ctx, cs c15Case) {
	s := vfNewSim(c, vfConf(cs.Algo))
	defer s.close()
	// the report-to node is a connected peer, so reports leave at once and are captured
	s.addPeer("rpt")
	rptEID := "dtn://rpt/reports"
	var svc *vfAgent
	if cs.RptSelf {
		rptEID = vfNodeName + "app2"
		if cs.RptCLA > 0 {
			// two listeners of the same convergence layer type with node names of their own (dtnd registers them like this)
			s.core.claManager.RegisterEndpointID(cla.TCPCLv4, bpv7.MustNewEndpointID("dtn://gw-a/"))
			s.core.claManager.RegisterEndpointID(cla.TCPCLv4, bpv7.MustNewEndpointID("dtn://gw-b/"))
			rptEID = []string{"dtn://gw-a/reports", "dtn://gw-b/reports"}[cs.RptCLA-1]
		} else if cs.RptOther {
			// an endpoint of this node that does not carry the node's name (a service or group endpoint)
			rptEID = "dtn://service/inbox"
			svc = vfNewAgent(bpv7.MustNewEndpointID(rptEID))
			s.core.RegisterApplicationAgent(svc)
		}
	}
	dest := "dtn://dest/inbox"
	switch cs.Outcome {
	case "delivered":
		dest = vfNodeName + "app"
	case "no-agent":
		dest = vfNodeName + "nobody"
	case "no-route":
		dest = "dtn://faraway/inbox"
	}
	spec := vk.BundleSpec{Flags: cs.Req, CRC: 2, Dst: eidSpec(dest), Src: vk.EIDSpec{Kind: "dtn", Node: "origin", Demux: "app"}, Rpt: eidSpec(rptEID),
		TsAgoMs: 5, TsSeq: 7, Lifetime: 3600000}
	if cs.Time {
		spec.Flags |= vk.FStatusTime
	}
	if cs.Fragment {
		spec.Flags |= vk.FIsFragment
		spec.FragOff, spec.Total = 100, 5000
	}
	payload := []byte("c15 payload of the reported bundle")
	spec.Blocks = []vk.BlockSpec{{Type: vk.BTPayload, Num: 1, CRC: 2, Data: payload}}
	hasReportBlock := false
	switch cs.Outcome {
	case "hop-exceeded", "hop-exceeded-later":
		spec.Blocks = append([]vk.BlockSpec{{Type: vk.BTHop, Num: 2, Limit: 5, Count: 5}}, spec.Blocks...)
	case "unknown-block", "unknown-block-later":
		if cs.NextFl != 0 {
			spec.Blocks = append([]vk.BlockSpec{{Type: vk.BTHop, Num: 3, Flags: cs.NextFl, Limit: 30, Count: 0}}, spec.Blocks...)
		}
		spec.Blocks = append([]vk.BlockSpec{{Type: 99, Num: 2, Flags: cs.BlockFl, Data: []byte{1, 2, 3}}}, spec.Blocks...)
		hasReportBlock = cs.BlockFl&vk.BFReport != 0
	case "expired":
		spec.Lifetime = 250
	}
	switch cs.Outcome {
	case "forwarded", "unknown-block", "hop-exceeded":
		s.addPeer("dest")
	case "send-fails", "send-fails-then-ok":
		s.addPeer("dest")
		s.setFailAll("dest", true)
	}
	later := strings.HasSuffix(cs.Outcome, "-later")
	raw := spec.Encode(dtnNow())
	win, err := vk.ReadBundle(raw)
	if err != nil {
		s.failf("c15.harness", "independent reader: %v", err)
	}
	id := win.ID()
	if err := s.receiveRaw(raw); err != nil {
		c.Class("rejected by the parser")
		return
	}
	s.logf("bundle %s received (request flags %#x, time %v, outcome %s, block flags %#x, report-to self %v)", id, cs.Req, cs.Time, cs.Outcome, cs.BlockFl, cs.RptSelf)
	if cs.Outcome == "expired" {
		sleepMs(400)
		s.addPeer("dest")
		s.tickPending()
		s.tickClean()
	}
	s.tickPending()
	if later || cs.Outcome == "send-fails-then-ok" {
		// further retries while nothing can be done, then the way opens
		s.tickPending()
		if later {
			s.addPeer("dest")
		} else {
			s.setFailAll("dest", false)
		}
		s.tickPending()
		s.tickPending()
		c.Class("event happens on a retry from the store")
	}
	if cs.Req != 0 {
		c.NonTrivial()
	}
	c.Class("outcome=" + cs.Outcome)

	// the facts
	sentOK, handedOver := false, false
	nSentOK := 0
	var sentLog []string
	for _, x := range s.sendsSince(0) {
		if x.ID == id {
			sentLog = append(sentLog, fmt.Sprintf("%s:%v", x.Peer, x.OK))
		}
		if x.ID == id && x.OK {
			sentOK = true
			nSentOK++
		}
	}
	for _, b := range s.app.received() {
		if bytes.Equal(vfPayloadOf(&b), payload) {
			handedOver = true
		}
	}
	var idv bpv7.BundleID
	if b0, err := bpv7.ParseBundle(bytes.NewReader(spec.Encode(dtnNow()))); err == nil {
		idv = b0.ID()
	}
	inStore := cs.Outcome != "expired" && s.storeHas(idv)
	unknownDelete := (cs.Outcome == "unknown-block" || cs.Outcome == "unknown-block-later") && cs.BlockFl&vk.BFDeleteBndl != 0

	// collect the reports
	var reports []c15Report
	for _, x := range s.sendsSince(0) {
		r, isAdmin, err := c15Decode(x.Raw)
		if !isAdmin {
			continue
		}
		if err != nil {
			s.failf("c15.malformed-report", "administrative record handed to %s is malformed: %v", x.Peer, err)
		}
		r.where = x.Peer
		reports = append(reports, r)
	}
	local := s.app.received()
	if svc != nil {
		svc.flush()
		local = append(local, svc.received()...)
	}
	for _, b := range local {
		if raw := vfEnc(&b); raw != nil {
			if r, isAdmin, err := c15Decode(raw); isAdmin {
				if err != nil {
					s.failf("c15.malformed-report", "administrative record delivered to a local agent is malformed: %v", err)
				}
				r.where = "agent"
				reports = append(reports, r)
			}
		}
	}
	c.Classf("outcome=%s reports=%d", cs.Outcome, len(reports))
	seen := map[[2]uint64]bool{}
	for _, r := range reports {
		what := fmt.Sprintf("report about %s (item %d, reason %d) seen at %s", r.ref, r.asserted, r.reason, r.where)
		if cs.RptSelf {
			s.failf("c15.report-to-self", "%s: the bundle's report-to endpoint belongs to this node, no report may be generated", what)
		}
		if r.w.Primary.Flags&vk.FReqAll != 0 {
			s.failf("c15.report-requests-reports", "%s: the report bundle carries status-request flags %#x", what, r.w.Primary.Flags)
		}
		if r.dst != rptEID {
			s.failf("c15.wrong-address", "%s: addressed to %s, the bundle's report-to is %s", what, r.dst, rptEID)
		}
		if r.ref != id {
			s.failf("c15.wrong-reference", "%s: the reported bundle is %s (fragment: %v)", what, id, cs.Fragment)
		}
		if r.nAssert != 1 {
			s.failf("c15.malformed-report", "%s: %d asserted status items", what, r.nAssert)
		}
		if r.hasTime != cs.Time {
			s.failf("c15.time", "%s: time present = %v, requested = %v", what, r.hasTime, cs.Time)
		}
		// one event, one report: the reception may be reported once because the bundle asked for it and once
		// (with the reason "block unsupported") because a block asked for it, nothing is reported twice
		key := [2]uint64{uint64(r.asserted), r.reason}
		nForwarded := 0
		if r.asserted == 1 {
			for _, r2 := range reports {
				if r2.asserted == 1 {
					nForwarded++
				}
			}
		}
		if seen[key] && !(r.asserted == 1 && nForwarded <= nSentOK) {
			// (every successful transmission is a forwarding event of its own)
			s.failf("c15.duplicate-report", "%s: this status was already reported with the same reason, although the event happened once (transmissions of the bundle: %v)", what, sentLog)
		}
		seen[key] = true
		switch r.asserted {
		case 0: // received
			byFlag := cs.Req&vk.FReqRecv != 0
			byBlock := hasReportBlock && r.reason == 11
			if !byFlag && !byBlock {
				s.failf("c15.unrequested-report", "%s: reception was reported although neither the bundle (flags %#x) nor an unsupported block requested it", what, cs.Req)
			}
		case 1: // forwarded
			if cs.Req&vk.FReqFwd == 0 {
				s.failf("c15.unrequested-report", "%s: forwarding was reported but not requested", what)
			}
			if !sentOK {
				s.failf("c15.untrue-report", "%s: forwarding was reported, but no convergence layer reported a successful transmission of the bundle", what)
			}
		case 2: // delivered
			if cs.Req&vk.FReqDeliv == 0 {
				s.failf("c15.unrequested-report", "%s: delivery was reported but not requested", what)
			}
			if !handedOver {
				s.failf("c15.untrue-report", "%s: delivery was reported, but the bundle was not handed to any application agent (destination %s)", what, dest)
			}
		case 3: // deleted
			if cs.Req&vk.FReqDel == 0 {
				s.failf("c15.unrequested-report", "%s: deletion was reported but not requested", what)
			}
			if inStore {
				s.failf("c15.untrue-report", "%s: deletion was reported, but the bundle is still in the store", what)
			}
			if !(cs.Outcome == "hop-exceeded" || cs.Outcome == "hop-exceeded-later" || cs.Outcome == "expired" || unknownDelete) {
				s.failf("c15.untrue-report", "%s: deletion was reported, but nothing in this scenario deletes the bundle (outcome %s)", what, cs.Outcome)
			}
		default:
			s.failf("c15.malformed-report", "%s: no asserted item", what)
		}
	}
	// reports cannot cascade: feeding every report back into the node produces no bundle at all
	before := s.nSends()
	beforeApp := len(s.app.received())
	for i, r := range reports {
		rb, err := bpv7.ParseBundle(bytes.NewReader(r.raw))
		if err != nil {
			s.failf("c15.malformed-report", "report does not parse: %v", err)
		}
		// as if it came back from the network (another node echoes it), and once addressed to this node
		rb.PrimaryBlock.CreationTimestamp[1] += uint64(1000 + i)
		s.receive(rb)
		rb2 := rb
		rb2.PrimaryBlock.Destination = bpv7.MustNewEndpointID(vfNodeName + "app")
		rb2.PrimaryBlock.CreationTimestamp[1] += 5000
		s.receive(rb2)
	}
	for _, x := range s.sendsSince(before) {
		r, isAdmin, _ := c15Decode(x.Raw)
		if !isAdmin {
			continue
		}
		for _, old := range reports {
			if r.ref != old.ref {
				s.failf("c15.cascade", "feeding a status report back into the node produced a new report about %s", r.ref)
			}
		}
		if r.ref != id {
			s.failf("c15.cascade", "a report about a report was generated: %s", r.ref)
		}
	}
	_ = beforeApp
}

func eidSpec(uri string) vk.EIDSpec {
	e := bpv7.MustNewEndpointID(uri)
	switch t := e.EndpointType.(type) {
	case bpv7.DtnEndpoint:
		if t.IsDtnNone {
			return vk.EIDSpec{Kind: "none"}
		}
		return vk.EIDSpec{Kind: "dtn", Node: t.NodeName, Demux: t.Demux}
	case bpv7.IpnEndpoint:
		return vk.EIDSpec{Kind: "ipn", N: t.Node, S: t.Service}
	}
	return vk.EIDSpec{Kind: "none"}
}

func TestVerifC15Matrix(t *testing.T) {
	u := vk.Unit{Property: "C15", Name: "c15.matrix",
		Rule: "matrix: {16 combinations of the four status-request flags} x {time flag} x {fragment / whole} x outcome {delivered to an agent, addressed to the node without agent, forwarded, all sends fail, lifetime expired, hop limit exceeded, no route, unknown block x 8 block-flag combinations (also directly followed by a supported block that carries the report / delete flags, which entitle to nothing), and the variants in which the event happens on a retry from the store: forwarded later, sends fail then succeed, hop limit exceeded later, unknown block + forwarded later} x {report-to = a peer / an endpoint under this node's name / an endpoint with another node name registered by a local agent / the node name of the first or second of two listeners of one convergence-layer type}, each cell on a fresh node (quick: every third cell with epidemic; thorough: every cell with epidemic, spray and prophet); every administrative-record bundle captured at a scripted peer or agent is decoded with the independent reader and must be well-formed, addressed to the report-to endpoint, reference the exact bundle ID (incl. fragment offset/length), carry one asserted item, a time iff requested, no request flags, and be justified by a logged event and a request, each (status, reason) reported at most once; captured reports are fed back into the node (as transit and as local bundles) and must not produce further reports; non-trivial = cell with >= 1 request flag; distinct by case"}
	var cells []c15Case
	reqs := []uint64{}
	for m := 0; m < 16; m++ {
		var f uint64
		if m&1 != 0 {
			f |= vk.FReqRecv
		}
		if m&2 != 0 {
			f |= vk.FReqFwd
		}
		if m&4 != 0 {
			f |= vk.FReqDeliv
		}
		if m&8 != 0 {
			f |= vk.FReqDel
		}
		reqs = append(reqs, f)
	}
	algos := []string{"epidemic"}
	if vk.Tier() == "thorough" {
		algos = []string{"epidemic", "spray", "prophet"}
	}
	for _, a := range algos {
		for _, req := range reqs {
			for _, tm := range []bool{false, true} {
				for _, fr := range []bool{false, true} {
					for _, oc := range c15Outcomes {
						bfs := []uint64{0}
						if oc == "unknown-block" || oc == "unknown-block-later" {
							bfs = []uint64{0, vk.BFReport, vk.BFDeleteBndl, vk.BFRemove, vk.BFReport | vk.BFDeleteBndl, vk.BFReport | vk.BFRemove, vk.BFDeleteBndl | vk.BFRemove, vk.BFReport | vk.BFDeleteBndl | vk.BFRemove}
						}
						for _, bf := range bfs {
							if (oc == "unknown-block" || oc == "unknown-block-later") && req&(vk.FReqRecv|vk.FReqDel) != vk.FReqRecv|vk.FReqDel {
								// the flags of a supported neighbour of the unknown block entitle to no report and no deletion
								for _, nf := range []uint64{vk.BFReport, vk.BFDeleteBndl, vk.BFReport | vk.BFDeleteBndl} {
									cells = append(cells, c15Case{Algo: a, Req: req, Time: tm, Fragment: fr, Outcome: oc, BlockFl: bf, NextFl: nf})
								}
							}
							for _, self := range []bool{false, true} {
								if self && oc != "forwarded" && oc != "delivered" && oc != "hop-exceeded" {
									continue
								}
								cells = append(cells, c15Case{Algo: a, Req: req, Time: tm, Fragment: fr, Outcome: oc, BlockFl: bf, RptSelf: self})
								if self {
									cells = append(cells, c15Case{Algo: a, Req: req, Time: tm, Fragment: fr, Outcome: oc, BlockFl: bf, RptSelf: true, RptOther: true})
									cells = append(cells, c15Case{Algo: a, Req: req, Time: tm, Fragment: fr, Outcome: oc, BlockFl: bf, RptSelf: true, RptCLA: 1 + len(cells)%2})
								}
							}
						}
					}
				}
			}
		}
	}
	stride := 3
	if vk.Tier() == "thorough" {
		stride = 1
	}
	off := int(vk.BaseSeed()) % stride
	vk.Enumerate(t, u, stride == 1, func(yield func(c15Case) bool) {
		n := 0
		for i, cs := range cells {
			// a pseudo-random third of the cells (a fixed stride would line up with the loop nesting)
			h := uint64(i)*0x9E3779B97F4A7C15 + uint64(off)*0xD1B54A32D192ED03
			h ^= h >> 29
			if stride > 1 && int(h%uint64(stride)) != 0 {
				continue
			}
			n++
			if !vk.ShardOwns(n) {
				continue
			}
			if !yield(cs) {
				return
			}
		}
	}, c15Body)
}
