package routing

import (
	"fmt"
	"sync"
	"testing"
	"time"

	"github.com/dtn7/dtn7-go/pkg/bpv7"
	"github.com/dtn7/dtn7-go/pkg/cla"
	vk "github.com/dtn7/dtn7-go/pkg/verifkit"
)

// C05, schedules: the pending-retry job runs in the cron goroutine while the node's handler works on what the
// convergence layers report. Here the two meet on the same bundles: a retry tick walks over N waiting bundles
// (every connected peer already has them, so each is only re-marked for a later retry) while "delivered" status
// reports about these bundles arrive from a peer, upon which the node removes them by design. Unforced
// schedule, many rounds.

type c05RetryCase struct {
	Algo   string `json:"algo"`
	N      int    `json:"n"`
	Rounds int    `json:"rounds"`
	Ticks  int    `json:"ticks"` // concurrent retry ticks (the cron job, and the handler's own retry on PeerAppeared)
}

func TestVerifC05ConcurrentRetry(t *testing.T) {
	u := vk.Unit{Property: "C05", Name: "c05.concurrent-retry",
		Rule: "per algorithm (epidemic, sensor-mule over epidemic, prophet, dtlsr): N = 8..24 bundles wait in the store and the only connected relay already has them; per round, 1..2 retry ticks run while 'delivered' status reports about these bundles (addressed to the node, so that it removes the reported bundles) arrive one after the other; unforced schedule, 6..20 rounds with fresh bundles. Oracle: the retry tick does not crash, every bundle without a report is still pending afterwards, the node still takes events. Every case non-trivial; distinct by tuple"}
	var cases []c05RetryCase
	rounds := 6
	if vk.Tier() == "thorough" {
		rounds = 20
	}
	for _, algo := range []string{"epidemic", "sensor-mule", "prophet", "dtlsr"} {
		ns := []int{24}
		if vk.Tier() == "thorough" {
			ns = []int{8, 24}
		}
		for _, n := range ns {
			for _, ticks := range []int{1, 2} {
				cases = append(cases, c05RetryCase{algo, n, rounds, ticks})
			}
		}
	}
	vk.Enumerate(t, u, true, func(yield func(c05RetryCase) bool) {
		for i, cs := range cases {
			if !vk.ShardOwns(i + 1) {
				continue
			}
			if !yield(cs) {
				return
			}
		}
	}, func(c *vk.Ctx, cs c05RetryCase) {
		c.NonTrivial()
		conf := tnConf(cs.Algo)
		s := vfNewSim(c, conf)
		defer s.close()
		s.addPeer("p1")
		seq := uint64(0)
		for round := 0; round < cs.Rounds; round++ {
			var bs []bpv7.Bundle
			for i := 0; i < cs.N; i++ {
				seq++
				b, err := bpv7.Builder().CRC(bpv7.CRC32).Source("dtn://origin/app").Destination("dtn://faraway/inbox").ReportTo("dtn://origin/reports").
					CreationTimestampNow().Lifetime("1h").BundleCtrlFlags(0).PayloadBlock([]byte(fmt.Sprintf("c05 retry %d/%d", round, i))).Build()
				if err != nil {
					s.failf("c05.harness", "bundle: %v", err)
				}
				b.PrimaryBlock.CreationTimestamp[1] = seq
				s.receive(b)
				bs = append(bs, b)
			}
			// every second bundle is reported as delivered while the ticks run
			var reports []bpv7.Bundle
			for i := 0; i < cs.N; i += 2 {
				sr := bpv7.NewStatusReport(bs[i], bpv7.DeliveredBundle, bpv7.NoInformation, bpv7.DtnTimeNow())
				ar, err := bpv7.AdministrativeRecordToCbor(sr)
				if err != nil {
					s.failf("c05.harness", "record: %v", err)
				}
				seq++
				r, err := bpv7.Builder().CRC(bpv7.CRC32).BundleCtrlFlags(bpv7.AdministrativeRecordPayload).Source("dtn://faraway/").Destination(vfNodeName + "app").
					CreationTimestampNow().Lifetime("1h").Canonical(ar).Build()
				if err != nil {
					s.failf("c05.harness", "report bundle: %v", err)
				}
				r.PrimaryBlock.CreationTimestamp[1] = seq
				reports = append(reports, r)
			}
			var wg sync.WaitGroup
			panics := make(chan string, 4)
			start := make(chan struct{})
			for k := 0; k < cs.Ticks; k++ {
				wg.Add(1)
				go func() {
					defer wg.Done()
					defer func() {
						if r := recover(); r != nil {
							panics <- fmt.Sprint(r)
						}
					}()
					<-start
					s.tickPending()
				}()
			}
			wg.Add(1)
			go func() {
				defer wg.Done()
				<-start
				for i := range reports {
					r := reports[i]
					select {
					case s.inlet.ch <- cla.NewConvergenceReceivedBundle(vfInlet{s.inlet}, s.nodeID, &r):
					case <-time.After(20 * time.Second):
						return
					}
				}
			}()
			close(start)
			wg.Wait()
			select {
			case p := <-panics:
				s.failf("c05.retry-crash", "round %d: the pending-retry job crashed while 'delivered' reports about waiting bundles arrived (a node that dies on a retry neither keeps its bundles marked nor transmits them): %s", round, p)
			default:
			}
			s.barrier(s.inlet)
			for i := 1; i < cs.N; i += 2 {
				if !s.storeHas(bs[i].ID()) {
					s.failf("c05.lost", "round %d: bundle %s was never transmitted to its destination nor reported as delivered, but is no longer in the store after concurrent retry ticks and status reports about other bundles", round, bs[i].ID())
				}
			}
			// clean up the round's survivors so that the ticks of the next round stay short
			for i := 1; i < cs.N; i += 2 {
				_ = s.core.store.Delete(bs[i].ID())
			}
		}
	})
}
