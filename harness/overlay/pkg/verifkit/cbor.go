package verifkit

import (
	"encoding/binary"
	"errors"
	"fmt"
	"math"
)

// Independent, minimal CBOR reader/writer (RFC 8949 subset used by BPv7). It does not
// import dtn7's cboring package and keeps the byte offsets of every item so that the
// harness can delimit and mutate encodings without the code under test.

// Major types.
const (
	MajUint  = 0
	MajNeg   = 1
	MajBytes = 2
	MajText  = 3
	MajArray = 4
	MajMap   = 5
	MajTag   = 6
	MajOther = 7
)

// Item is one decoded CBOR data item.
type Item struct {
	Major  int
	Info   byte   // low 5 bits of the head byte
	Arg    uint64 // argument (value, length, count)
	Indef  bool   // indefinite-length array/map/string
	Bytes  []byte // payload of byte/text strings
	Items  []*Item
	Start  int // offset of the head byte
	HeadN  int // length of the head (1,2,3,5,9)
	End    int // offset just behind the item
	Simple bool
}

// ErrTrunc is returned when the input ends inside an item.
var ErrTrunc = errors.New("cbor: truncated")

// DecodeItem decodes one item starting at off.
func DecodeItem(b []byte, off int) (*Item, error) {
	return decodeItem(b, off, 0)
}

func decodeItem(b []byte, off int, depth int) (*Item, error) {
	if depth > 64 {
		return nil, errors.New("cbor: nesting too deep")
	}
	if off >= len(b) {
		return nil, ErrTrunc
	}
	h := b[off]
	it := &Item{Major: int(h >> 5), Info: h & 0x1f, Start: off, HeadN: 1}
	p := off + 1
	switch {
	case it.Info < 24:
		it.Arg = uint64(it.Info)
	case it.Info == 24:
		if p+1 > len(b) {
			return nil, ErrTrunc
		}
		it.Arg = uint64(b[p])
		p++
	case it.Info == 25:
		if p+2 > len(b) {
			return nil, ErrTrunc
		}
		it.Arg = uint64(binary.BigEndian.Uint16(b[p:]))
		p += 2
	case it.Info == 26:
		if p+4 > len(b) {
			return nil, ErrTrunc
		}
		it.Arg = uint64(binary.BigEndian.Uint32(b[p:]))
		p += 4
	case it.Info == 27:
		if p+8 > len(b) {
			return nil, ErrTrunc
		}
		it.Arg = binary.BigEndian.Uint64(b[p:])
		p += 8
	case it.Info == 31:
		it.Indef = true
	default:
		return nil, fmt.Errorf("cbor: reserved additional info %d at %d", it.Info, off)
	}
	it.HeadN = p - off
	switch it.Major {
	case MajUint, MajNeg:
		if it.Indef {
			return nil, fmt.Errorf("cbor: indefinite integer at %d", off)
		}
	case MajBytes, MajText:
		if it.Indef {
			return nil, fmt.Errorf("cbor: indefinite strings unsupported at %d", off)
		}
		if it.Arg > uint64(len(b)-p) {
			return nil, ErrTrunc
		}
		it.Bytes = b[p : p+int(it.Arg)]
		p += int(it.Arg)
	case MajArray, MajMap:
		if it.Indef {
			for {
				if p >= len(b) {
					return nil, ErrTrunc
				}
				if b[p] == 0xff {
					p++
					break
				}
				sub, err := decodeItem(b, p, depth+1)
				if err != nil {
					return nil, err
				}
				it.Items = append(it.Items, sub)
				p = sub.End
			}
		} else {
			n := it.Arg
			if it.Major == MajMap {
				if n > math.MaxUint32 {
					return nil, ErrTrunc
				}
				n *= 2
			}
			if n > uint64(len(b)-p) {
				return nil, ErrTrunc
			}
			for i := uint64(0); i < n; i++ {
				sub, err := decodeItem(b, p, depth+1)
				if err != nil {
					return nil, err
				}
				it.Items = append(it.Items, sub)
				p = sub.End
			}
		}
	case MajTag:
		sub, err := decodeItem(b, p, depth+1)
		if err != nil {
			return nil, err
		}
		it.Items = []*Item{sub}
		p = sub.End
	case MajOther:
		it.Simple = true
		if it.Indef {
			return nil, fmt.Errorf("cbor: unexpected break at %d", off)
		}
	}
	it.End = p
	return it, nil
}

// Float64 returns the value of a float64 item (major 7, info 27).
func (it *Item) Float64() (float64, bool) {
	if it.Major == MajOther && it.Info == 27 {
		return math.Float64frombits(it.Arg), true
	}
	return 0, false
}

// IsUint tells whether the item is an unsigned integer.
func (it *Item) IsUint() bool { return it.Major == MajUint }

// IsBool returns (value, ok).
func (it *Item) IsBool() (bool, bool) {
	if it.Major == MajOther && (it.Info == 20 || it.Info == 21) {
		return it.Info == 21, true
	}
	return false, false
}

// Minimal tells whether the head uses the shortest form.
func (it *Item) Minimal() bool {
	if it.Indef || (it.Major == MajOther) {
		return true
	}
	switch {
	case it.Arg < 24:
		return it.HeadN == 1
	case it.Arg <= 0xff:
		return it.HeadN == 2
	case it.Arg <= 0xffff:
		return it.HeadN == 3
	case it.Arg <= 0xffffffff:
		return it.HeadN == 5
	default:
		return it.HeadN == 9
	}
}

// ---- writer ----

// Enc is an append-style CBOR encoder.
type Enc struct{ B []byte }

// Head appends a head of the given major type and argument in the shortest form.
func (e *Enc) Head(major int, arg uint64) *Enc {
	return e.HeadW(major, arg, 0)
}

// HeadW appends a head using at least width w (0 minimal; 1,2,4,8 = bytes that follow).
func (e *Enc) HeadW(major int, arg uint64, w int) *Enc {
	m := byte(major << 5)
	need := 0
	switch {
	case arg < 24:
		need = 0
	case arg <= 0xff:
		need = 1
	case arg <= 0xffff:
		need = 2
	case arg <= 0xffffffff:
		need = 4
	default:
		need = 8
	}
	if w > need {
		need = w
	}
	switch need {
	case 0:
		e.B = append(e.B, m|byte(arg))
	case 1:
		e.B = append(e.B, m|24, byte(arg))
	case 2:
		e.B = append(e.B, m|25, byte(arg>>8), byte(arg))
	case 4:
		e.B = append(e.B, m|26, byte(arg>>24), byte(arg>>16), byte(arg>>8), byte(arg))
	default:
		e.B = append(e.B, m|27, byte(arg>>56), byte(arg>>48), byte(arg>>40), byte(arg>>32), byte(arg>>24), byte(arg>>16), byte(arg>>8), byte(arg))
	}
	return e
}

// Uint appends an unsigned integer.
func (e *Enc) Uint(v uint64) *Enc { return e.Head(MajUint, v) }

// Bstr appends a byte string.
func (e *Enc) Bstr(b []byte) *Enc {
	e.Head(MajBytes, uint64(len(b)))
	e.B = append(e.B, b...)
	return e
}

// Tstr appends a text string.
func (e *Enc) Tstr(s string) *Enc {
	e.Head(MajText, uint64(len(s)))
	e.B = append(e.B, s...)
	return e
}

// Arr appends an array head.
func (e *Enc) Arr(n uint64) *Enc { return e.Head(MajArray, n) }

// Map appends a map head.
func (e *Enc) Map(n uint64) *Enc { return e.Head(MajMap, n) }

// Raw appends raw bytes.
func (e *Enc) Raw(b ...byte) *Enc { e.B = append(e.B, b...); return e }

// F64 appends a float64.
func (e *Enc) F64(f float64) *Enc {
	u := math.Float64bits(f)
	e.B = append(e.B, 0xfb, byte(u>>56), byte(u>>48), byte(u>>40), byte(u>>32), byte(u>>24), byte(u>>16), byte(u>>8), byte(u))
	return e
}

// Bool appends a boolean.
func (e *Enc) Bool(v bool) *Enc {
	if v {
		e.B = append(e.B, 0xf5)
	} else {
		e.B = append(e.B, 0xf4)
	}
	return e
}
