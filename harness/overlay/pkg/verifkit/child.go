package verifkit

import (
	"bufio"
	"encoding/binary"
	"encoding/hex"
	"fmt"
	"io"
	"os"
	"os/exec"
	"runtime"
	"runtime/debug"
	"strconv"
	"strings"
	"syscall"
	"testing"
	"time"
)

// Disposable child processes for C04: a decoder is run on a batch of hostile inputs in a
// child (the same test binary re-executed with -test.run ^TestVerifChild$), so that a
// fatal error (out of memory, stack overflow, unrecovered panic in another goroutine) kills
// only the child and is attributed to one input.

// Target is a decoder under test. It returns a short note (e.g. "accepted"/"rejected").
type Target func(input []byte) string

// ChildResult is what the child reported for one input.
type ChildResult struct {
	Index   int
	Done    bool
	Alloc   uint64
	Nanos   int64
	Panic   string // recovered panic escaping the decoder (empty if none)
	Note    string
	Died    bool   // child died while processing this input
	Hung    bool   // no answer within the hang bound
	Stderr  string // tail of the child's stderr when it died
}

const childEnvTarget = "VERIF_CHILD_TARGET"
const childEnvBatch = "VERIF_CHILD_BATCH"

// IsChild tells whether this process is a C04 child.
func IsChild() bool { return os.Getenv(childEnvTarget) != "" }

// ChildMain runs the child protocol if this process is a child (call from TestVerifChild).
func ChildMain(t *testing.T, targets map[string]Target) {
	name := os.Getenv(childEnvTarget)
	if name == "" {
		t.Skip("not a child process")
	}
	tg, ok := targets[name]
	if !ok {
		fmt.Printf("VFCHILD error unknown target %s\n", name)
		os.Exit(3)
	}
	// address-space limit: a decoder that tries to allocate by a hostile length dies here,
	// not in the parent
	lim := uint64(6 << 30)
	_ = syscall.Setrlimit(syscall.RLIMIT_AS, &syscall.Rlimit{Cur: lim, Max: lim})
	debug.SetGCPercent(50)
	f, err := os.Open(os.Getenv(childEnvBatch))
	if err != nil {
		fmt.Printf("VFCHILD error %v\n", err)
		os.Exit(3)
	}
	defer f.Close()
	r := bufio.NewReader(f)
	start, _ := strconv.Atoi(os.Getenv("VERIF_CHILD_START"))
	out := bufio.NewWriter(os.Stdout)
	for i := 0; ; i++ {
		var n uint32
		if err := binary.Read(r, binary.BigEndian, &n); err != nil {
			break
		}
		in := make([]byte, n)
		if _, err := io.ReadFull(r, in); err != nil {
			break
		}
		if i < start {
			continue
		}
		fmt.Fprintf(out, "VFCHILD start %d\n", i)
		out.Flush()
		var m0, m1 runtime.MemStats
		runtime.ReadMemStats(&m0)
		t0 := time.Now()
		note, pan := runChildTarget(tg, in)
		el := time.Since(t0)
		runtime.ReadMemStats(&m1)
		fmt.Fprintf(out, "VFCHILD done %d %d %d x%s x%s\n", i, m1.TotalAlloc-m0.TotalAlloc, el.Nanoseconds(), hex.EncodeToString([]byte(pan)), hex.EncodeToString([]byte(note)))
		out.Flush()
	}
	fmt.Fprintf(out, "VFCHILD end\n")
	out.Flush()
	os.Exit(0)
}

func runChildTarget(tg Target, in []byte) (note string, pan string) {
	defer func() {
		if r := recover(); r != nil {
			st := string(debug.Stack())
			if len(st) > 1500 {
				st = st[:1500]
			}
			pan = fmt.Sprintf("%v\n%s", r, st)
		}
	}()
	return tg(in), ""
}

// RunBatch runs target on all inputs in child processes and returns one result per input.
func RunBatch(target string, inputs [][]byte, hang time.Duration) ([]ChildResult, error) {
	dir, err := os.MkdirTemp(os.Getenv("VERIF_SCRATCH"), "vfc04-")
	if err != nil {
		dir, err = os.MkdirTemp("", "vfc04-")
		if err != nil {
			return nil, err
		}
	}
	defer os.RemoveAll(dir)
	batch := dir + "/batch.bin"
	bf, err := os.Create(batch)
	if err != nil {
		return nil, err
	}
	bw := bufio.NewWriter(bf)
	for _, in := range inputs {
		_ = binary.Write(bw, binary.BigEndian, uint32(len(in)))
		_, _ = bw.Write(in)
	}
	_ = bw.Flush()
	_ = bf.Close()

	res := make([]ChildResult, len(inputs))
	for i := range res {
		res[i].Index = i
	}
	start := 0
	for start < len(inputs) {
		next, err := runChildOnce(target, batch, start, res, hang)
		if err != nil {
			return res, err
		}
		if next <= start {
			next = start + 1
		}
		start = next
	}
	return res, nil
}

// runChildOnce starts a child at input index start; returns the index to continue with.
func runChildOnce(target, batch string, start int, res []ChildResult, hang time.Duration) (int, error) {
	exe := os.Getenv("VERIF_BIN")
	if exe == "" {
		exe = os.Args[0]
	}
	cmd := exec.Command(exe, "-test.run", "^TestVerifChild$", "-test.timeout", "0")
	cmd.Env = append(os.Environ(), childEnvTarget+"="+target, childEnvBatch+"="+batch, "VERIF_CHILD_START="+strconv.Itoa(start), "VERIF_REPORT=", "VERIF_REPLAY=", "VERIF_CASEFILE=")
	stdout, err := cmd.StdoutPipe()
	if err != nil {
		return start, err
	}
	var errBuf tailBuffer
	cmd.Stderr = &errBuf
	if err := cmd.Start(); err != nil {
		return start, err
	}
	lines := make(chan string, 256)
	go func() {
		sc := bufio.NewScanner(stdout)
		sc.Buffer(make([]byte, 1<<20), 1<<24)
		for sc.Scan() {
			lines <- sc.Text()
		}
		close(lines)
	}()
	cur := -1
	ended := false
	timer := time.NewTimer(hang)
	defer timer.Stop()
	for {
		select {
		case ln, ok := <-lines:
			if !ok {
				_ = cmd.Wait()
				if ended {
					return len(res), nil
				}
				// child died
				if cur >= 0 && cur < len(res) && !res[cur].Done {
					res[cur].Died = true
					res[cur].Stderr = errBuf.String()
					return cur + 1, nil
				}
				if cur < 0 {
					return start, fmt.Errorf("child died before the first input: %s", errBuf.String())
				}
				return cur + 1, nil
			}
			if !strings.HasPrefix(ln, "VFCHILD ") {
				// the decoder's own output / panic traces of other goroutines
				errBuf.Write([]byte(ln + "\n"))
				continue
			}
			f := strings.Fields(ln)
			switch f[1] {
			case "start":
				cur, _ = strconv.Atoi(f[2])
				if !timer.Stop() {
					select {
					case <-timer.C:
					default:
					}
				}
				timer.Reset(hang)
			case "done":
				i, _ := strconv.Atoi(f[2])
				if i < len(res) {
					res[i].Done = true
					res[i].Alloc, _ = strconv.ParseUint(f[3], 10, 64)
					res[i].Nanos, _ = strconv.ParseInt(f[4], 10, 64)
					if len(f) > 5 {
						p, _ := hex.DecodeString(strings.TrimPrefix(f[5], "x"))
						res[i].Panic = string(p)
					}
					if len(f) > 6 {
						n, _ := hex.DecodeString(strings.TrimPrefix(f[6], "x"))
						res[i].Note = string(n)
					}
				}
			case "end":
				ended = true
			case "error":
				_ = cmd.Process.Kill()
				_ = cmd.Wait()
				return start, fmt.Errorf("child: %s", ln)
			}
		case <-timer.C:
			_ = cmd.Process.Kill()
			_ = cmd.Wait()
			if cur >= 0 && cur < len(res) {
				res[cur].Hung = true
				return cur + 1, nil
			}
			return start, fmt.Errorf("child hangs before the first input")
		}
	}
}

type tailBuffer struct{ b []byte }

func (t *tailBuffer) Write(p []byte) (int, error) {
	t.b = append(t.b, p...)
	if len(t.b) > 400000 {
		t.b = t.b[len(t.b)-300000:]
	}
	return len(p), nil
}
func (t *tailBuffer) String() string { return string(t.b) }

// AllocBudget is the allowed TotalAlloc delta for an input of n bytes.
func AllocBudget(n int, c0 uint64) uint64 { return c0 + 256*uint64(n) }

// ExtraBudget, if set by a package's harness, adds an input-dependent fixed cost to the budget: a cost
// the decoder pays per complete unit that HAS arrived (e.g. one decompressor instance per completed
// transmission), which is not "memory in proportion to a length field whose bytes have not arrived".
var ExtraBudget func(in []byte) uint64

func allocBudgetFor(in []byte, c0 uint64) uint64 {
	b := AllocBudget(len(in), c0)
	if ExtraBudget != nil {
		b += ExtraBudget(in)
	}
	return b
}

// RefineTag, if set by a package's harness, may replace the tag of a failure by a more specific one that
// names the root cause (call site), so that a recorded finding is told apart from any other failure of the
// same kind.
var RefineTag func(tag string, input []byte, r *ChildResult) string

// JudgeChild turns a child result into a failure (tag, message) or ("", "").
func JudgeChild(r *ChildResult, input []byte, c0 uint64, recoveredPanicOK bool) (tag, msg string) {
	tag, msg = judgeChild(r, input, c0, recoveredPanicOK)
	if tag != "" && RefineTag != nil {
		tag = RefineTag(tag, input, r)
	}
	return
}

func judgeChild(r *ChildResult, input []byte, c0 uint64, recoveredPanicOK bool) (tag, msg string) {
	in := input
	if len(in) > 96 {
		in = in[:96]
	}
	switch {
	case r.Died:
		return "c04.process-death", fmt.Sprintf("the process died on input %x… (%d bytes): %s", in, len(input), tailOf(r.Stderr, 1200))
	case r.Hung:
		return "c04.hang", fmt.Sprintf("no return within the hang bound on input %x… (%d bytes)", in, len(input))
	case !r.Done:
		return "", ""
	case r.Panic != "" && !recoveredPanicOK:
		return "c04.panic", fmt.Sprintf("panic on input %x… (%d bytes): %s", in, len(input), tailOf(r.Panic, 1200))
	case r.Alloc > allocBudgetFor(input, c0):
		return "c04.alloc", fmt.Sprintf("%d bytes allocated for an input of %d bytes %x… (budget %d)", r.Alloc, len(input), in, allocBudgetFor(input, c0))
	}
	return "", ""
}

func tailOf(s string, n int) string {
	if len(s) <= n {
		return s
	}
	// prefer the region around "panic:" / "fatal error:"
	for _, k := range []string{"fatal error:", "panic:"} {
		if i := strings.Index(s, k); i >= 0 {
			e := i + n
			if e > len(s) {
				e = len(s)
			}
			return s[i:e]
		}
	}
	return s[len(s)-n:]
}

type runtimeMemStats = runtime.MemStats

func readMem(m *runtime.MemStats) { runtime.ReadMemStats(m) }
