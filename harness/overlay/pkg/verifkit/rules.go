package verifkit

import (
	"fmt"
	"math/big"
)

// Independent BPv7 rule validator. It works on the independently decoded encoding and
// implements exactly the structural rules listed in property C02:
//   version 7; exactly one payload block, numbered 1 and placed last; unique block numbers
//   and at most one block per type; valid endpoint IDs; no contradictory flags (fragment
//   with must-not-fragment; administrative record or anonymous source combined with
//   status-report requests or report-requesting blocks; anonymous source without
//   must-not-fragment); a zero creation time only together with a bundle-age block; hop
//   count not above its limit; lifetime not run out.

// Rule names (stable, used as classes and in failure messages).
const (
	RVersion        = "version!=7"
	RPayloadCount   = "payload-block-count!=1"
	RPayloadNumber  = "payload-number!=1"
	RPayloadLast    = "payload-not-last"
	RDupNumber      = "duplicate-block-number"
	RDupType        = "duplicate-block-type"
	REIDDst         = "invalid-destination"
	REIDSrc         = "invalid-source"
	REIDRpt         = "invalid-report-to"
	REIDPrev        = "invalid-previous-node"
	RFragNoFrag     = "fragment+must-not-fragment"
	RAdminRequests  = "admin-record+status-requests"
	RAdminBlockRep  = "admin-record+report-requesting-block"
	RAnonRequests   = "anonymous-source+status-requests"
	RAnonBlockRep   = "anonymous-source+report-requesting-block"
	RAnonNoFragment = "anonymous-source-without-must-not-fragment"
	RZeroTimeNoAge  = "zero-creation-time-without-age-block"
	RHopExceeded    = "hop-count>limit"
	RExpired        = "lifetime-run-out"
)

// RuleResult is the validator's verdict.
type RuleResult struct {
	Broken      []string // broken rules
	Undecidable []string // rules that could not be judged (type-specific data of unexpected shape, expiry within the guard band)
}

// Has tells whether rule r is among the broken ones.
func (r *RuleResult) Has(rule string) bool {
	for _, b := range r.Broken {
		if b == rule {
			return true
		}
	}
	return false
}

// ValidateRules judges w at time nowDtnMs. guardMs is the band around the expiry instant in
// which the lifetime rule is left undecided (the code under test reads its own clock).
func ValidateRules(w *WBundle, nowDtnMs uint64, guardMs uint64) RuleResult {
	var res RuleResult
	br := func(r string) {
		if !res.Has(r) {
			res.Broken = append(res.Broken, r)
		}
	}
	p := &w.Primary
	if p.Version != 7 {
		br(RVersion)
	}
	if !p.Dst.Valid {
		br(REIDDst)
	}
	if !p.Src.Valid {
		br(REIDSrc)
	}
	if !p.Rpt.Valid {
		br(REIDRpt)
	}
	f := p.Flags
	anon := p.Src.Scheme == 1 && p.Src.None
	admin := f&FAdmin != 0
	if f&FIsFragment != 0 && f&FNoFragment != 0 {
		br(RFragNoFrag)
	}
	if admin && f&FReqAll != 0 {
		br(RAdminRequests)
	}
	if anon && f&FReqAll != 0 {
		br(RAnonRequests)
	}
	if anon && f&FNoFragment == 0 {
		br(RAnonNoFragment)
	}
	nums := map[uint64]int{}
	types := map[uint64]int{}
	payloads := 0
	var age *uint64
	for i := range w.Blocks {
		b := &w.Blocks[i]
		nums[b.Num]++
		types[b.Type]++
		if b.Flags&BFReport != 0 {
			if admin {
				br(RAdminBlockRep)
			}
			if anon {
				br(RAnonBlockRep)
			}
		}
		switch b.Type {
		case BTPayload:
			payloads++
			if b.Num != 1 {
				br(RPayloadNumber)
			}
		case BTPrev:
			it, err := DecodeItem(b.Data, 0)
			if err != nil {
				res.Undecidable = append(res.Undecidable, REIDPrev)
				break
			}
			e := ReadEID(it)
			if !e.OK {
				res.Undecidable = append(res.Undecidable, REIDPrev)
			} else if !e.Valid {
				br(REIDPrev)
			}
		case BTAge:
			it, err := DecodeItem(b.Data, 0)
			if err != nil || !it.IsUint() {
				res.Undecidable = append(res.Undecidable, "age")
				break
			}
			v := it.Arg
			if age == nil {
				age = &v
			}
		case BTHop:
			it, err := DecodeItem(b.Data, 0)
			if err != nil || it.Major != MajArray || it.Indef || len(it.Items) != 2 || !it.Items[0].IsUint() || !it.Items[1].IsUint() {
				res.Undecidable = append(res.Undecidable, RHopExceeded)
				break
			}
			if it.Items[1].Arg > it.Items[0].Arg {
				br(RHopExceeded)
			}
		}
	}
	if payloads != 1 {
		br(RPayloadCount)
	}
	if n := len(w.Blocks); n > 0 && payloads >= 1 && w.Blocks[n-1].Type != BTPayload {
		br(RPayloadLast)
	}
	for _, c := range nums {
		if c > 1 {
			br(RDupNumber)
		}
	}
	for _, c := range types {
		if c > 1 {
			br(RDupType)
		}
	}
	if p.TsTime == 0 {
		if types[BTAge] == 0 {
			br(RZeroTimeNoAge)
		} else if age != nil {
			if *age > p.Lifetime {
				br(RExpired)
			}
		} else {
			res.Undecidable = append(res.Undecidable, RExpired)
		}
	} else {
		end := new(big.Int).Add(new(big.Int).SetUint64(p.TsTime), new(big.Int).SetUint64(p.Lifetime))
		now := new(big.Int).SetUint64(nowDtnMs)
		lo := new(big.Int).Sub(now, new(big.Int).SetUint64(guardMs))
		hi := new(big.Int).Add(now, new(big.Int).SetUint64(guardMs))
		switch {
		case end.Cmp(lo) < 0:
			br(RExpired)
		case end.Cmp(hi) <= 0:
			res.Undecidable = append(res.Undecidable, RExpired)
		}
	}
	return res
}

// String renders the verdict.
func (r RuleResult) String() string {
	return fmt.Sprintf("broken=%v undecidable=%v", r.Broken, r.Undecidable)
}
