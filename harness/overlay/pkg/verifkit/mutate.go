package verifkit

import (
	"encoding/binary"

	"pgregory.net/rapid"
)

// Item-level mutation of CBOR encodings.

// EncodeItem re-encodes an item tree (honouring HeadN as the requested head width).
func EncodeItem(it *Item, enc *Enc) {
	w := 0
	switch it.HeadN {
	case 2:
		w = 1
	case 3:
		w = 2
	case 5:
		w = 4
	case 9:
		w = 8
	}
	switch it.Major {
	case MajUint, MajNeg:
		enc.HeadW(it.Major, it.Arg, w)
	case MajBytes, MajText:
		// Arg is the declared length; normally len(Bytes)
		enc.HeadW(it.Major, it.Arg, w)
		enc.Raw(it.Bytes...)
	case MajArray, MajMap:
		if it.Indef {
			enc.Raw(byte(it.Major<<5) | 31)
			for _, s := range it.Items {
				EncodeItem(s, enc)
			}
			enc.Raw(0xff)
		} else {
			enc.HeadW(it.Major, it.Arg, w)
			for _, s := range it.Items {
				EncodeItem(s, enc)
			}
		}
	case MajTag:
		enc.HeadW(it.Major, it.Arg, w)
		for _, s := range it.Items {
			EncodeItem(s, enc)
		}
	case MajOther:
		if it.Info < 24 {
			enc.Raw(byte(7<<5) | it.Info)
		} else {
			enc.HeadW(MajOther, it.Arg, w)
		}
	}
}

// CloneItem deep-copies an item tree.
func CloneItem(it *Item) *Item {
	c := *it
	c.Bytes = append([]byte(nil), it.Bytes...)
	c.Items = make([]*Item, len(it.Items))
	for i, s := range it.Items {
		c.Items[i] = CloneItem(s)
	}
	return &c
}

func collect(it *Item, out *[]*Item) {
	*out = append(*out, it)
	for _, s := range it.Items {
		collect(s, out)
	}
}

// Mutation describes one applied mutation (for the case record).
type Mutation struct {
	Op   string `json:"op"`
	Node int    `json:"node"`
	A    uint64 `json:"a,omitempty"`
	B    int    `json:"b,omitempty"`
}

var mutOps = []string{"widen", "setuint", "arrlen+", "arrlen-", "swap", "dup", "del", "trail", "inner-trail", "crcstale", "bstrlen",
	"inner-widen", "inner-setuint", "inner-swap", "inner-dup", "inner-del", "inner-arrlen+", "inner-arrlen-", "setarg", "inner-setarg"}

// GenMutations draws a list of mutations.
func GenMutations(max int) *rapid.Generator[[]Mutation] {
	return rapid.SliceOfN(rapid.Custom(func(t *rapid.T) Mutation {
		return Mutation{
			Op:   rapid.SampledFrom(mutOps).Draw(t, "op"),
			Node: rapid.IntRange(0, 1<<16).Draw(t, "node"),
			A:    Boundary().Draw(t, "a"),
			B:    rapid.IntRange(0, 64).Draw(t, "b"),
		}
	}), 1, max)
}

// ApplyMutations applies mutations to the encoding raw (must decode as one item) and
// returns the mutated encoding. fixCRC re-computes every well-formed block CRC afterwards
// unless a "crcstale" mutation asked to keep them stale. inBstr tells for a byte-string
// node whether its content is itself CBOR (block data): such nodes get their content
// mutated recursively.
func ApplyMutations(raw []byte, muts []Mutation) (out []byte, stale bool, ok bool) {
	return applyMutations(raw, muts, true)
}

func applyMutations(raw []byte, muts []Mutation, fix bool) (out []byte, stale bool, ok bool) {
	top, err := DecodeItem(raw, 0)
	if err != nil || top.End != len(raw) {
		return nil, false, false
	}
	top = CloneItem(top)
	for _, m := range muts {
		var nodes []*Item
		collect(top, &nodes)
		n := nodes[m.Node%len(nodes)]
		switch m.Op {
		case "widen":
			if n.Indef || n.Major == MajOther {
				continue
			}
			n.HeadN = []int{2, 3, 5, 9}[m.B%4]
		case "setuint":
			if n.Major == MajUint {
				n.Arg = m.A
				n.HeadN = 0
			}
		case "arrlen+":
			if n.Major == MajArray && !n.Indef {
				n.Arg++
			}
		case "arrlen-":
			if n.Major == MajArray && !n.Indef && n.Arg > 0 {
				n.Arg--
			}
		case "swap":
			if len(n.Items) >= 2 {
				i := m.B % len(n.Items)
				j := int(m.A % uint64(len(n.Items)))
				n.Items[i], n.Items[j] = n.Items[j], n.Items[i]
			}
		case "dup":
			if len(n.Items) >= 1 {
				i := m.B % len(n.Items)
				c := CloneItem(n.Items[i])
				n.Items = append(n.Items[:i+1], append([]*Item{c}, n.Items[i+1:]...)...)
				if !n.Indef && m.A%2 == 0 {
					if n.Major == MajArray {
						n.Arg++
					}
				}
			}
		case "del":
			if len(n.Items) >= 1 {
				i := m.B % len(n.Items)
				n.Items = append(n.Items[:i], n.Items[i+1:]...)
				if !n.Indef && m.A%2 == 0 && n.Arg > 0 {
					if n.Major == MajArray {
						n.Arg--
					}
				}
			}
		case "trail":
			if n.Major == MajBytes || n.Major == MajText {
				extra := make([]byte, 1+m.B%4)
				for i := range extra {
					extra[i] = byte(m.A >> (8 * uint(i)))
				}
				n.Bytes = append(n.Bytes, extra...)
				n.Arg = uint64(len(n.Bytes))
				n.HeadN = 0
			}
		case "inner-trail":
			// put a break code / garbage behind the content of a byte string
			if n.Major == MajBytes {
				n.Bytes = append(n.Bytes, 0xff, byte(m.A))
				n.Arg = uint64(len(n.Bytes))
				n.HeadN = 0
			}
		case "bstrlen":
			if n.Major == MajBytes || n.Major == MajText {
				n.Arg = m.A
				n.HeadN = 0
			}
		case "crcstale":
			stale = true
		case "setarg":
			// the declared length / count / value of any head, content untouched
			if !n.Indef && n.Major != MajOther {
				n.Arg = m.A
				n.HeadN = 0
			}
		case "retype":
			// the item is replaced by an item of another CBOR type (type confusion)
			repl := retypeItems[int(m.A%uint64(len(retypeItems)))]
			*n = *CloneItem(repl)
		case "inner-widen", "inner-setuint", "inner-swap", "inner-dup", "inner-del", "inner-arrlen+", "inner-arrlen-", "inner-setarg", "inner-retype":
			// mutate the CBOR item inside a byte string (block-type specific data)
			var bstrs []*Item
			for _, x := range nodes {
				if x.Major == MajBytes && len(x.Bytes) > 0 {
					if in, err := DecodeItem(x.Bytes, 0); err == nil && in.End == len(x.Bytes) {
						bstrs = append(bstrs, x)
					}
				}
			}
			if len(bstrs) == 0 {
				continue
			}
			x := bstrs[m.Node%len(bstrs)]
			sub := Mutation{Op: m.Op[len("inner-"):], Node: m.B, A: m.A, B: m.B}
			if inner, _, ok := applyRaw(x.Bytes, []Mutation{sub}); ok {
				x.Bytes = inner
				x.Arg = uint64(len(inner))
				x.HeadN = 0
			}
		}
	}
	var enc Enc
	EncodeItem(top, &enc)
	out = enc.B
	if fix && !stale {
		out = FixCRCs(out)
	}
	return out, stale, true
}

func applyRaw(raw []byte, muts []Mutation) ([]byte, bool, bool) { return applyMutations(raw, muts, false) }

// FixCRCs recomputes the CRC field of every block that declares CRC type 1/2 and carries a
// CRC field of the matching size. Encodings that do not decode structurally are returned
// unchanged.
func FixCRCs(raw []byte) []byte {
	w, err := ReadBundle(raw)
	if err != nil {
		return raw
	}
	out := append([]byte(nil), raw...)
	fix := func(it *Item, crcType uint64, crcItem *Item) {
		if crcItem == nil || crcItem.End != it.End {
			return
		}
		switch {
		case crcType == 1 && len(crcItem.Bytes) == 2:
			for i := 0; i < 2; i++ {
				out[it.End-1-i] = 0
			}
			binary.BigEndian.PutUint16(out[it.End-2:], CRC16X25(out[it.Start:it.End]))
		case crcType == 2 && len(crcItem.Bytes) == 4:
			for i := 0; i < 4; i++ {
				out[it.End-1-i] = 0
			}
			binary.BigEndian.PutUint32(out[it.End-4:], CRC32C(out[it.Start:it.End]))
		}
	}
	fix(w.Primary.Item, w.Primary.CRCType, w.Primary.CRCItem)
	for i := range w.Blocks {
		fix(w.Blocks[i].Item, w.Blocks[i].CRCType, w.Blocks[i].CRCItem)
	}
	return out
}

// CountNodes returns the number of items in the encoding raw (0 if undecodable), and for
// every byte-string node whose content is itself one CBOR item the number of items inside.
func CountNodes(raw []byte) (outer int, inner []int) {
	top, err := DecodeItem(raw, 0)
	if err != nil {
		return 0, nil
	}
	var nodes []*Item
	collect(top, &nodes)
	for _, x := range nodes {
		if x.Major == MajBytes && len(x.Bytes) > 0 {
			if in, err := DecodeItem(x.Bytes, 0); err == nil && in.End == len(x.Bytes) {
				var sub []*Item
				collect(in, &sub)
				inner = append(inner, len(sub))
			}
		}
	}
	return len(nodes), inner
}

// LengthBoundaries are the values every length/count field is set to (C04).
var LengthBoundaries = []uint64{0, 1, 23, 24, 1 << 16, 1<<31 - 1, 1 << 31, 1<<32 - 1, 1 << 62, 1 << 63, 1<<64 - 1}

// retypeItems are the replacements of the "retype" mutation.
var retypeItems = []*Item{
	{Major: MajUint, Arg: 0},
	{Major: MajUint, Arg: 1 << 40},
	{Major: MajNeg, Arg: 0},
	{Major: MajBytes, Arg: 0},
	{Major: MajBytes, Arg: 3, Bytes: []byte{1, 2, 3}},
	{Major: MajText, Arg: 0},
	{Major: MajText, Arg: 5, Bytes: []byte("dtn:x")},
	{Major: MajArray, Arg: 0},
	{Major: MajArray, Arg: 2, Items: []*Item{{Major: MajUint, Arg: 1}, {Major: MajUint, Arg: 0}}},
	{Major: MajMap, Arg: 0},
	{Major: MajOther, Info: 20}, // false
	{Major: MajOther, Info: 22}, // null
}

// TypeMutants enumerates: every item of raw (outer items, and items inside byte strings that contain CBOR)
// replaced by an item of another type, one at a time, with the CRCs re-computed so that the mutant is judged
// by the code behind the CRC check.
func TypeMutants(raw []byte) [][]byte {
	var out [][]byte
	outer, inner := CountNodes(raw)
	for k := 1; k < outer; k++ {
		for v := range retypeItems {
			if m, _, ok := applyMutations(raw, []Mutation{{Op: "retype", Node: k, A: uint64(v)}}, true); ok {
				out = append(out, m)
			}
		}
	}
	for bi, n := range inner {
		for k := 0; k < n; k++ {
			for v := range retypeItems {
				if m, _, ok := applyMutations(raw, []Mutation{{Op: "inner-retype", Node: bi, A: uint64(v), B: k}}, true); ok {
					out = append(out, m)
				}
			}
		}
	}
	return out
}

// LengthMutants enumerates: every head of raw (outer items, and items inside byte strings
// that contain CBOR) with its argument set to each boundary value, one at a time; CRCs are
// not repaired (allocation happens before a CRC is checked).
func LengthMutants(raw []byte) [][]byte {
	var out [][]byte
	outer, inner := CountNodes(raw)
	for k := 0; k < outer; k++ {
		for _, v := range LengthBoundaries {
			if m, _, ok := applyMutations(raw, []Mutation{{Op: "setarg", Node: k, A: v}}, false); ok {
				out = append(out, m)
			}
		}
	}
	for bi, n := range inner {
		for k := 0; k < n; k++ {
			for _, v := range LengthBoundaries {
				if m, _, ok := applyMutations(raw, []Mutation{{Op: "inner-setarg", Node: bi, A: v, B: k}}, false); ok {
					out = append(out, m)
				}
			}
		}
	}
	return out
}

// SmallValueMutants enumerates every head of raw with its argument set to each of 0..40, one at a time:
// enumerations, type codes and flag fields are small numbers, and the boundary values of LengthMutants step
// over the value just behind the last defined one.
func SmallValueMutants(raw []byte) [][]byte {
	var out [][]byte
	outer, inner := CountNodes(raw)
	for k := 0; k < outer; k++ {
		for v := uint64(0); v <= 40; v++ {
			if m, _, ok := applyMutations(raw, []Mutation{{Op: "setarg", Node: k, A: v}}, false); ok {
				out = append(out, m)
			}
		}
	}
	for bi, n := range inner {
		for k := 0; k < n; k++ {
			for v := uint64(0); v <= 40; v++ {
				if m, _, ok := applyMutations(raw, []Mutation{{Op: "inner-setarg", Node: bi, A: v, B: k}}, false); ok {
					out = append(out, m)
				}
			}
		}
	}
	return out
}

// Truncations returns every proper prefix of raw.
func Truncations(raw []byte) [][]byte {
	var out [][]byte
	for i := 0; i < len(raw); i++ {
		out = append(out, append([]byte(nil), raw[:i]...))
	}
	return out
}
