package verifkit

import (
	"math"

	"pgregory.net/rapid"
)

// GenOpts tunes the valid-bundle generator.
type GenOpts struct {
	MaxPayload   int  // upper bound for the payload length classes (0 = 70000)
	AllCRC       bool // every block (and the primary block) carries CRC16 or CRC32
	NoMultiMap   bool // PRoPHET / DTLSR blocks with at most one map entry
	NoFragment   bool // never set the fragment flag
	NoNoFragment bool // never set must-not-fragment (source is then never dtn:none)
	NoUnknown    bool // no unknown block types
	NoCustom     bool // no spray/dtlsr/prophet/signature blocks
	SmallPayload bool // payload <= 300 bytes
	MaxExt       int  // max extension blocks (0 = 7)
	PrimaryCRC   bool // primary block always has a CRC (as every constructor guarantees)
	NoTsZero     bool
}

// Boundary returns a generator of uint64 values concentrated on CBOR width boundaries.
func Boundary() *rapid.Generator[uint64] {
	return rapid.OneOf(
		rapid.SampledFrom([]uint64{0, 1, 2, 22, 23, 24, 25, 254, 255, 256, 257, 65534, 65535, 65536, 65537,
			1<<32 - 2, 1<<32 - 1, 1 << 32, 1<<32 + 1, 1<<62 - 1, 1 << 62, 1<<63 - 1, 1 << 63, math.MaxUint64 - 1, math.MaxUint64}),
		rapid.Uint64(),
		rapid.Uint64Range(0, 300),
	)
}

// BoundaryMax is Boundary restricted to [lo, hi].
func BoundaryMax(lo, hi uint64) *rapid.Generator[uint64] {
	return rapid.Custom(func(t *rapid.T) uint64 {
		v := Boundary().Draw(t, "v")
		if v < lo || v > hi {
			v = rapid.Uint64Range(lo, hi).Draw(t, "v2")
		}
		return v
	})
}

var nodeAlphabet = []rune("abcdefghijklmnopqrstuvwxyzABCDEFGHIJKLMNOPQRSTUVWXYZ0123456789._-")

// GenNodeName generates a dtn node name over the documented alphabet.
func GenNodeName() *rapid.Generator[string] {
	return rapid.Custom(func(t *rapid.T) string {
		if rapid.IntRange(0, 9).Draw(t, "long") == 0 {
			n := rapid.SampledFrom([]int{20, 21, 22, 23, 24, 250, 251, 252, 253, 254, 300}).Draw(t, "n")
			return rapid.StringOfN(rapid.SampledFrom(nodeAlphabet), n, n, -1).Draw(t, "node")
		}
		return rapid.StringOfN(rapid.SampledFrom(nodeAlphabet), 1, 12, -1).Draw(t, "node")
	})
}

// GenDemux generates a demux part (may be empty, may start with ~, may be non-ASCII, no line break).
func GenDemux() *rapid.Generator[string] {
	return rapid.Custom(func(t *rapid.T) string {
		switch rapid.IntRange(0, 5).Draw(t, "dk") {
		case 0:
			return ""
		case 1:
			return "~" + rapid.StringMatching(`[a-z0-9/]{0,8}`).Draw(t, "d")
		case 2:
			s := rapid.StringN(0, 12, -1).Draw(t, "d")
			out := make([]rune, 0, len(s))
			for _, r := range s {
				if r == '\n' || r == '\r' || r == 0xFFFD {
					r = '_'
				}
				out = append(out, r)
			}
			return string(out)
		default:
			return rapid.StringMatching(`[a-zA-Z0-9/._~-]{1,16}`).Draw(t, "d")
		}
	})
}

// GenEID generates a valid non-none endpoint.
func GenEID() *rapid.Generator[EIDSpec] {
	return rapid.Custom(func(t *rapid.T) EIDSpec {
		if rapid.IntRange(0, 2).Draw(t, "ipn") == 0 {
			return EIDSpec{Kind: "ipn", N: BoundaryMax(1, math.MaxUint64).Draw(t, "N"), S: BoundaryMax(1, math.MaxUint64).Draw(t, "S")}
		}
		return EIDSpec{Kind: "dtn", Node: GenNodeName().Draw(t, "node"), Demux: GenDemux().Draw(t, "demux")}
	})
}

// GenEIDOrNone generates a valid endpoint, sometimes dtn:none.
func GenEIDOrNone() *rapid.Generator[EIDSpec] {
	return rapid.Custom(func(t *rapid.T) EIDSpec {
		if rapid.IntRange(0, 5).Draw(t, "none") == 0 {
			return EIDSpec{Kind: "none"}
		}
		return GenEID().Draw(t, "eid")
	})
}

// admissible bundle-flag combinations are constructed, not filtered.
func genFlags(t *rapid.T, o GenOpts, srcNone bool) uint64 {
	var f uint64
	admin := rapid.IntRange(0, 3).Draw(t, "admin") == 0
	if admin {
		f |= FAdmin
	}
	if srcNone {
		f |= FNoFragment
	} else {
		switch rapid.IntRange(0, 2).Draw(t, "fragkind") {
		case 0:
			if !o.NoFragment {
				f |= FIsFragment
			}
		case 1:
			if !o.NoNoFragment {
				f |= FNoFragment
			}
		}
	}
	if !admin && !srcNone {
		f |= rapid.SampledFrom([]uint64{0, FReqRecv, FReqFwd, FReqDeliv, FReqDel, FReqAll, FReqRecv | FReqDel, FReqFwd | FReqDeliv}).Draw(t, "req")
	}
	f |= rapid.SampledFrom([]uint64{0, 0, FAppAck, FStatusTime, FAppAck | FStatusTime}).Draw(t, "misc")
	// unassigned / reserved bits are carried transparently
	if rapid.IntRange(0, 7).Draw(t, "resv") == 0 {
		f |= rapid.SampledFrom([]uint64{0x8, 0x10, 0x80, 0x100, 0x8000, 0x80000, 1 << 21, 1 << 32, 1 << 63}).Draw(t, "resvbit")
	}
	return f
}

var payloadClasses = []int{0, 1, 2, 22, 23, 24, 25, 100, 255, 256, 257, 1000, 65535, 65536, 65537, 1<<20 - 1, 1<<20 + 1, 2<<20 + 3}

func genPayloadLen(t *rapid.T, o GenOpts) int {
	max := o.MaxPayload
	if max == 0 {
		max = 70000
	}
	if o.SmallPayload && max > 300 {
		max = 300
	}
	k := rapid.IntRange(0, 99).Draw(t, "payk")
	var n int
	switch {
	case k < 50:
		n = rapid.IntRange(0, 64).Draw(t, "paylen")
	case k < 97:
		n = rapid.SampledFrom(payloadClasses[:15]).Draw(t, "paylen")
	default:
		n = rapid.SampledFrom(payloadClasses).Draw(t, "paylen")
	}
	if n > max {
		n = rapid.IntRange(0, max).Draw(t, "paylen2")
	}
	return n
}

var specialBits = []uint64{
	0,                  // +0
	0x3FF0000000000000, // 1
	0x0000000000000001, // smallest denormal
	0x3FEFFFFFFFFFFFFF, // 1-2^-53
	0x3FE0000000000000, // 0.5
	0x0010000000000000, // smallest normal
	0x3FB999999999999A, // 0.1
}

func genCRC(t *rapid.T, o GenOpts, label string) uint64 {
	if o.AllCRC {
		return uint64(rapid.IntRange(1, 2).Draw(t, label))
	}
	return uint64(rapid.IntRange(0, 2).Draw(t, label))
}

func genBlockNum(t *rapid.T, used map[uint64]bool) uint64 {
	for i := 0; ; i++ {
		var v uint64
		if i < 3 {
			v = rapid.OneOf(rapid.Uint64Range(2, 30), rapid.SampledFrom([]uint64{2, 23, 24, 255, 256, 65535, 65536, 1<<32 - 1, 1 << 32, math.MaxUint64})).Draw(t, "blocknum")
		} else {
			v = uint64(100 + i)
		}
		if v >= 2 && !used[v] {
			used[v] = true
			return v
		}
	}
}

var unknownTypes = []uint64{2, 3, 4, 5, 8, 9, 11, 12, 23, 24, 100, 191, 196, 255, 256, 65535, 65536, 1 << 32, math.MaxUint64,
	// unknown codes that equal a known code in their low 8, 16 or 32 bits (payload 1, previous node 6, age 7, hop count 10, the routing blocks 192..195)
	257, 262, 263, 266, 448, 449, 450, 451, 65537, 65542, 65543, 65546, 65728, 1<<32 + 1, 1<<32 + 7, 1<<32 + 10, 1<<32 + 194}

// GenBundle generates a valid bundle description.
func GenBundle(o GenOpts) *rapid.Generator[BundleSpec] {
	return rapid.Custom(func(t *rapid.T) BundleSpec {
		var s BundleSpec
		srcNone := !o.NoNoFragment && rapid.IntRange(0, 7).Draw(t, "srcnone") == 0
		if srcNone {
			s.Src = EIDSpec{Kind: "none"}
		} else {
			s.Src = GenEID().Draw(t, "src")
		}
		s.Dst = GenEIDOrNone().Draw(t, "dst")
		s.Rpt = GenEIDOrNone().Draw(t, "rpt")
		s.Flags = genFlags(t, o, srcNone)
		if o.PrimaryCRC || o.AllCRC {
			s.CRC = uint64(rapid.IntRange(1, 2).Draw(t, "pcrc"))
		} else {
			s.CRC = uint64(rapid.IntRange(0, 2).Draw(t, "pcrc"))
		}
		s.TsZero = !o.NoTsZero && rapid.IntRange(0, 3).Draw(t, "tszero") == 0
		s.TsAgoMs = rapid.SampledFrom([]uint64{0, 1, 5, 1000, 60000}).Draw(t, "tsago")
		s.TsSeq = Boundary().Draw(t, "seq")
		// lifetime: at least one hour, up to 2^40 ms
		s.Lifetime = rapid.SampledFrom([]uint64{3600000, 3600001, 86400000, 1<<32 - 1, 1 << 32, 1<<32 + 1, 1 << 40}).Draw(t, "lifetime")

		paylen := genPayloadLen(t, o)
		if s.Flags&FIsFragment != 0 {
			s.FragOff = Boundary().Draw(t, "fragoff")
			s.Total = Boundary().Draw(t, "total")
		}

		maxExt := o.MaxExt
		if maxExt == 0 {
			maxExt = 7
		}
		kinds := []uint64{BTPrev, BTAge, BTHop}
		if !o.NoCustom {
			kinds = append(kinds, BTSpray, BTDTLSR, BTProphet, BTSig)
		}
		if !o.NoUnknown {
			kinds = append(kinds, 0, 0) // two slots for unknown types
		}
		perm := rapid.Permutation(kinds).Draw(t, "kinds")
		nExt := rapid.IntRange(0, maxExt).Draw(t, "next")
		if nExt > len(perm) {
			nExt = len(perm)
		}
		chosen := perm[:nExt]
		if s.TsZero {
			has := false
			for _, k := range chosen {
				if k == BTAge {
					has = true
				}
			}
			if !has {
				chosen = append(append([]uint64{}, chosen...), BTAge)
			}
		}
		usedNum := map[uint64]bool{1: true}
		usedType := map[uint64]bool{}
		noReportFlag := s.Flags&FAdmin != 0 || srcNone
		for _, k := range chosen {
			var b BlockSpec
			b.Type = k
			b.Num = genBlockNum(t, usedNum)
			b.Flags = uint64(rapid.SampledFrom([]uint64{0, BFReplicate, BFReport, BFDeleteBndl, BFRemove, BFReplicate | BFRemove, 0x17, 0x08, 0x20, 0x40}).Draw(t, "bflags"))
			if noReportFlag {
				b.Flags &^= BFReport
			}
			b.CRC = genCRC(t, o, "bcrc")
			switch k {
			case BTPrev:
				e := GenEIDOrNone().Draw(t, "prev")
				b.EID = &e
			case BTAge:
				// age <= lifetime so that a zero-time bundle is alive
				b.U = BoundaryMax(0, 3600000).Draw(t, "age")
			case BTHop:
				b.Limit = rapid.SampledFrom([]uint64{0, 1, 23, 24, 30, 254, 255}).Draw(t, "limit")
				b.Count = rapid.Uint64Range(0, b.Limit).Draw(t, "count")
				if rapid.IntRange(0, 3).Draw(t, "cnteq") == 0 {
					b.Count = b.Limit
				}
			case BTSpray:
				b.U = Boundary().Draw(t, "copies")
			case BTDTLSR:
				e := GenEIDOrNone().Draw(t, "did")
				b.EID = &e
				b.U = Boundary().Draw(t, "dts")
				max := 5
				if o.NoMultiMap {
					max = 1
				}
				n := rapid.IntRange(0, max).Draw(t, "dn")
				seen := map[string]bool{}
				for i := 0; i < n; i++ {
					pe := GenEIDOrNone().Draw(t, "dpe")
					if seen[pe.String()] {
						continue
					}
					seen[pe.String()] = true
					b.DPeers = append(b.DPeers, DPeer{EID: pe, Ts: Boundary().Draw(t, "dpt")})
				}
			case BTProphet:
				max := 5
				if o.NoMultiMap {
					max = 1
				}
				n := rapid.IntRange(0, max).Draw(t, "pn")
				seen := map[string]bool{}
				for i := 0; i < n; i++ {
					pe := GenEIDOrNone().Draw(t, "ppe")
					if seen[pe.String()] {
						continue
					}
					seen[pe.String()] = true
					var bits uint64
					if rapid.Bool().Draw(t, "special") {
						bits = rapid.SampledFrom(specialBits).Draw(t, "bits")
					} else {
						bits = math.Float64bits(rapid.Float64Range(0, 1).Draw(t, "pval"))
					}
					b.PPeers = append(b.PPeers, PPeer{EID: pe, Bits: bits})
				}
			case BTSig:
				b.Pub = rapid.SliceOfN(rapid.Byte(), 32, 32).Draw(t, "pub")
				b.Sig = rapid.SliceOfN(rapid.Byte(), 64, 64).Draw(t, "sig")
			default:
				for {
					ty := rapid.SampledFrom(unknownTypes).Draw(t, "utype")
					if !usedType[ty] {
						b.Type = ty
						break
					}
				}
				n := rapid.SampledFrom([]int{0, 1, 5, 23, 24, 100, 255, 256, 300}).Draw(t, "ulen")
				b.Data = rapid.SliceOfN(rapid.Byte(), n, n).Draw(t, "udata")
			}
			usedType[b.Type] = true
			s.Blocks = append(s.Blocks, b)
		}
		pflags := uint64(rapid.SampledFrom([]uint64{0, 0, 0, BFReplicate, BFDeleteBndl, BFReport}).Draw(t, "pflags"))
		if noReportFlag {
			pflags &^= BFReport
		}
		s.Blocks = append(s.Blocks, BlockSpec{Type: BTPayload, Num: 1, Flags: pflags, CRC: genCRC(t, o, "paycrc"),
			PayLen: paylen, PaySeed: rapid.Uint64Range(0, 1<<20).Draw(t, "payseed")})
		return s
	})
}
