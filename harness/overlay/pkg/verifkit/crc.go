package verifkit

// Independent bit-by-bit CRCs (no tables, no third-party code).

// CRC16X25 computes CRC-16/X-25: poly 0x1021 reflected (0x8408), init 0xFFFF, refin/refout, xorout 0xFFFF.
func CRC16X25(data []byte) uint16 {
	crc := uint16(0xFFFF)
	for _, b := range data {
		crc ^= uint16(b)
		for i := 0; i < 8; i++ {
			if crc&1 != 0 {
				crc = (crc >> 1) ^ 0x8408
			} else {
				crc >>= 1
			}
		}
	}
	return ^crc
}

// CRC32C computes CRC-32C (Castagnoli): poly 0x1EDC6F41 reflected (0x82F63B78), init/xorout 0xFFFFFFFF.
func CRC32C(data []byte) uint32 {
	crc := uint32(0xFFFFFFFF)
	for _, b := range data {
		crc ^= uint32(b)
		for i := 0; i < 8; i++ {
			if crc&1 != 0 {
				crc = (crc >> 1) ^ 0x82F63B78
			} else {
				crc >>= 1
			}
		}
	}
	return ^crc
}

func init() {
	// self-test against the published check values for "123456789"
	if CRC16X25([]byte("123456789")) != 0x906E {
		panic("verifkit: CRC16X25 self-test failed")
	}
	if CRC32C([]byte("123456789")) != 0xE3069283 {
		panic("verifkit: CRC32C self-test failed")
	}
}
