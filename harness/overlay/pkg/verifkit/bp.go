package verifkit

import (
	"encoding/binary"
	"fmt"
	"regexp"
	"strings"
	"unicode/utf8"
)

// ----- independent description of a bundle (the generated "case") and its encoder -----

// EIDSpec describes an endpoint ID.
type EIDSpec struct {
	Kind  string `json:"k"`           // "dtn", "none", "ipn", "raw" (dtn scheme, Demux is the raw SSP text)
	Node  string `json:"n,omitempty"` // dtn
	Demux string `json:"d,omitempty"` // dtn
	N     uint64 `json:"N,omitempty"` // ipn node
	S     uint64 `json:"S,omitempty"` // ipn service
}

// String renders the URI form.
func (e EIDSpec) String() string {
	switch e.Kind {
	case "none":
		return "dtn:none"
	case "ipn":
		return fmt.Sprintf("ipn:%d.%d", e.N, e.S)
	case "raw":
		return "dtn:" + e.Demux
	default:
		return "dtn://" + e.Node + "/" + e.Demux
	}
}

// Encode appends the CBOR form.
func (e EIDSpec) Encode(enc *Enc) {
	switch e.Kind {
	case "none":
		enc.Arr(2).Uint(1).Uint(0)
	case "ipn":
		enc.Arr(2).Uint(2).Arr(2).Uint(e.N).Uint(e.S)
	case "raw":
		enc.Arr(2).Uint(1).Tstr(e.Demux)
	default:
		enc.Arr(2).Uint(1).Tstr("//" + e.Node + "/" + e.Demux)
	}
}

var dtnNodeRe = regexp.MustCompile(`^[A-Za-z0-9._-]+$`)

// Valid reports whether the EID is valid by the documented grammar.
func (e EIDSpec) Valid() bool {
	switch e.Kind {
	case "none":
		return true
	case "ipn":
		return e.N >= 1 && e.S >= 1
	case "dtn":
		return dtnNodeRe.MatchString(e.Node) && !strings.ContainsAny(e.Demux, "\n") && utf8.ValidString(e.Demux)
	case "raw":
		return dtnSspRe.MatchString(e.Demux)
	}
	return false
}

// DPeer is one DTLSR map entry.
type DPeer struct {
	EID EIDSpec `json:"e"`
	Ts  uint64  `json:"t"`
}

// PPeer is one PRoPHET map entry (float by bit pattern).
type PPeer struct {
	EID  EIDSpec `json:"e"`
	Bits uint64  `json:"b"`
}

// Block type codes.
const (
	BTPayload = 1
	BTPrev    = 6
	BTAge     = 7
	BTHop     = 10
	BTSpray   = 192
	BTDTLSR   = 193
	BTProphet = 194
	BTSig     = 195
)

// BlockSpec describes a canonical block.
type BlockSpec struct {
	Type  uint64 `json:"type"`
	Num   uint64 `json:"num"`
	Flags uint64 `json:"flags"`
	CRC   uint64 `json:"crc"`

	// payload: generated deterministically from (PayLen, PaySeed) unless Data is set
	PayLen  int    `json:"paylen,omitempty"`
	PaySeed uint64 `json:"payseed,omitempty"`
	Data    []byte `json:"data,omitempty"` // generic block data / explicit payload

	EID    *EIDSpec `json:"eid,omitempty"` // previous node / dtlsr id
	U      uint64   `json:"u,omitempty"`   // age, spray copies, dtlsr timestamp
	Limit  uint64   `json:"limit,omitempty"`
	Count  uint64   `json:"count,omitempty"`
	DPeers []DPeer  `json:"dpeers,omitempty"`
	PPeers []PPeer  `json:"ppeers,omitempty"`
	Pub    []byte   `json:"pub,omitempty"`
	Sig    []byte   `json:"sig,omitempty"`
}

// PayloadBytes generates position-dependent pseudo-random payload bytes.
func PayloadBytes(n int, seed uint64) []byte {
	b := make([]byte, n)
	x := seed*0x9E3779B97F4A7C15 + 0x1234567
	for i := 0; i+8 <= n; i += 8 {
		x ^= x << 13
		x ^= x >> 7
		x ^= x << 17
		binary.LittleEndian.PutUint64(b[i:], x+uint64(i))
	}
	for i := n &^ 7; i < n; i++ {
		x ^= x << 13
		x ^= x >> 7
		x ^= x << 17
		b[i] = byte(x) + byte(i)
	}
	return b
}

// Payload returns the payload bytes of a payload block spec.
func (b *BlockSpec) Payload() []byte {
	if b.Data != nil || b.PayLen == 0 {
		if b.Data == nil {
			return []byte{}
		}
		return b.Data
	}
	return PayloadBytes(b.PayLen, b.PaySeed)
}

// DataBytes returns the block-type-specific data (the content of the byte string).
func (b *BlockSpec) DataBytes() []byte {
	var e Enc
	switch b.Type {
	case BTPayload:
		return b.Payload()
	case BTPrev:
		b.EID.Encode(&e)
	case BTAge, BTSpray:
		e.Uint(b.U)
	case BTHop:
		e.Arr(2).Uint(b.Limit).Uint(b.Count)
	case BTDTLSR:
		e.Arr(3)
		b.EID.Encode(&e)
		e.Uint(b.U)
		e.Map(uint64(len(b.DPeers)))
		for _, p := range b.DPeers {
			p.EID.Encode(&e)
			e.Uint(p.Ts)
		}
	case BTProphet:
		e.Map(uint64(len(b.PPeers)))
		for _, p := range b.PPeers {
			p.EID.Encode(&e)
			// dtn7's CBOR library writes the IEEE-754 bit pattern as a major-7 argument of
			// minimal width (and reads any width back as float64 bits). This is mirrored
			// here; see DESIGN.md (interoperability remark, not part of C01's statement).
			e.Head(MajOther, p.Bits)
		}
	case BTSig:
		e.Arr(2).Bstr(b.Pub).Bstr(b.Sig)
	default:
		if b.Data == nil {
			return []byte{}
		}
		return b.Data
	}
	return e.B
}

// Encode appends the block, computing its CRC independently.
func (b *BlockSpec) Encode(enc *Enc) {
	start := len(enc.B)
	n := uint64(5)
	if b.CRC != 0 {
		n = 6
	}
	enc.Arr(n).Uint(b.Type).Uint(b.Num).Uint(b.Flags).Uint(b.CRC).Bstr(b.DataBytes())
	appendCRC(enc, start, b.CRC)
}

func appendCRC(enc *Enc, start int, crcType uint64) {
	switch crcType {
	case 1:
		enc.Bstr([]byte{0, 0})
		c := CRC16X25(enc.B[start:])
		binary.BigEndian.PutUint16(enc.B[len(enc.B)-2:], c)
	case 2:
		enc.Bstr([]byte{0, 0, 0, 0})
		c := CRC32C(enc.B[start:])
		binary.BigEndian.PutUint32(enc.B[len(enc.B)-4:], c)
	}
}

// Bundle control flags.
const (
	FIsFragment  = 0x000001
	FAdmin       = 0x000002
	FNoFragment  = 0x000004
	FAppAck      = 0x000020
	FStatusTime  = 0x000040
	FReqRecv     = 0x004000
	FReqFwd      = 0x010000
	FReqDeliv    = 0x020000
	FReqDel      = 0x040000
	FReqAll      = FReqRecv | FReqFwd | FReqDeliv | FReqDel
	BFReplicate  = 0x01
	BFReport     = 0x02
	BFDeleteBndl = 0x04
	BFRemove     = 0x10
)

// BundleSpec describes a whole bundle.
type BundleSpec struct {
	Ver      *uint64     `json:"version,omitempty"` // nil = 7
	Flags    uint64      `json:"flags"`
	CRC      uint64      `json:"crc"`
	Dst      EIDSpec     `json:"dst"`
	Src      EIDSpec     `json:"src"`
	Rpt      EIDSpec     `json:"rpt"`
	TsZero   bool        `json:"tszero,omitempty"`
	TsAgoMs  uint64      `json:"tsago"` // creation time = now - TsAgoMs (ignored when TsZero or TsAbs != 0)
	TsAbs    uint64      `json:"tsabs,omitempty"`
	TsSeq    uint64      `json:"seq"`
	Lifetime uint64      `json:"lifetime"`
	FragOff  uint64      `json:"fragoff,omitempty"`
	Total    uint64      `json:"total,omitempty"`
	Blocks   []BlockSpec `json:"blocks"` // wire order, payload last
}

// DtnEpochUnixMs is 2000-01-01T00:00:00Z in Unix milliseconds.
const DtnEpochUnixMs = 946684800000

// CreationTime resolves the creation time for the given "now" (DTN ms).
func (s *BundleSpec) CreationTime(nowDtnMs uint64) uint64 {
	if s.TsZero {
		return 0
	}
	if s.TsAbs != 0 {
		return s.TsAbs
	}
	if s.TsAgoMs >= nowDtnMs {
		return 1
	}
	return nowDtnMs - s.TsAgoMs
}

// IsFragment tells whether the fragment flag is set.
func (s *BundleSpec) IsFragment() bool { return s.Flags&FIsFragment != 0 }

// EncodePrimary appends the primary block.
func (s *BundleSpec) EncodePrimary(enc *Enc, nowDtnMs uint64) {
	start := len(enc.B)
	n := uint64(8)
	if s.IsFragment() {
		n += 2
	}
	if s.CRC != 0 {
		n++
	}
	ver := uint64(7)
	if s.Ver != nil {
		ver = *s.Ver
	}
	enc.Arr(n).Uint(ver).Uint(s.Flags).Uint(s.CRC)
	s.Dst.Encode(enc)
	s.Src.Encode(enc)
	s.Rpt.Encode(enc)
	enc.Arr(2).Uint(s.CreationTime(nowDtnMs)).Uint(s.TsSeq)
	enc.Uint(s.Lifetime)
	if s.IsFragment() {
		enc.Uint(s.FragOff).Uint(s.Total)
	}
	appendCRC(enc, start, s.CRC)
}

// Encode returns the full encoding.
func (s *BundleSpec) Encode(nowDtnMs uint64) []byte {
	var enc Enc
	enc.Raw(0x9f)
	s.EncodePrimary(&enc, nowDtnMs)
	for i := range s.Blocks {
		s.Blocks[i].Encode(&enc)
	}
	enc.Raw(0xff)
	return enc.B
}

// PayloadSpec returns the payload block spec (nil if none).
func (s *BundleSpec) PayloadSpec() *BlockSpec {
	for i := range s.Blocks {
		if s.Blocks[i].Type == BTPayload {
			return &s.Blocks[i]
		}
	}
	return nil
}

// ----- independent structural decoder of an encoding -----

// WEID is an endpoint ID read from the wire.
type WEID struct {
	Scheme uint64
	None   bool   // dtn scheme with an unsigned integer SSP
	NoneV  uint64 // the integer
	SSP    string // dtn text SSP
	N, S   uint64 // ipn
	OK     bool   // structurally decodable
	Valid  bool   // valid by the documented grammar
}

var dtnSspRe = regexp.MustCompile(`^//([A-Za-z0-9._-]+)/([^\n]*)$`)

// String renders the URI.
func (e WEID) String() string {
	switch {
	case e.Scheme == 1 && e.None:
		return "dtn:none"
	case e.Scheme == 1:
		return "dtn:" + e.SSP
	case e.Scheme == 2:
		return fmt.Sprintf("ipn:%d.%d", e.N, e.S)
	}
	return "?"
}

// ReadEID interprets an item as an endpoint ID.
func ReadEID(it *Item) WEID {
	var e WEID
	if it.Major != MajArray || it.Indef || len(it.Items) != 2 || !it.Items[0].IsUint() {
		return e
	}
	e.Scheme = it.Items[0].Arg
	ssp := it.Items[1]
	switch e.Scheme {
	case 1:
		if ssp.IsUint() {
			e.None, e.NoneV, e.OK, e.Valid = true, ssp.Arg, true, true
		} else if ssp.Major == MajText {
			e.SSP = string(ssp.Bytes)
			e.OK = true
			e.Valid = dtnSspRe.MatchString(e.SSP)
		}
	case 2:
		if ssp.Major == MajArray && !ssp.Indef && len(ssp.Items) == 2 && ssp.Items[0].IsUint() && ssp.Items[1].IsUint() {
			e.N, e.S = ssp.Items[0].Arg, ssp.Items[1].Arg
			e.OK = true
			e.Valid = e.N >= 1 && e.S >= 1
		}
	}
	return e
}

// WBlock is a canonical block read from the wire.
type WBlock struct {
	Item     *Item
	ArrLen   int
	Type     uint64
	Num      uint64
	Flags    uint64
	CRCType  uint64
	Data     []byte
	DataItem *Item
	CRCItem  *Item // nil when the array has 5 elements
}

// WPrimary is the primary block read from the wire.
type WPrimary struct {
	Item     *Item
	ArrLen   int
	Version  uint64
	Flags    uint64
	CRCType  uint64
	Dst      WEID
	Src      WEID
	Rpt      WEID
	TsTime   uint64
	TsSeq    uint64
	Lifetime uint64
	HasFrag  bool
	FragOff  uint64
	Total    uint64
	CRCItem  *Item
}

// WBundle is a bundle read from the wire.
type WBundle struct {
	Raw     []byte
	Primary WPrimary
	Blocks  []WBlock
	End     int
}

func uintAt(items []*Item, i int) (uint64, error) {
	if i >= len(items) || !items[i].IsUint() {
		return 0, fmt.Errorf("element %d is not an unsigned integer", i)
	}
	return items[i].Arg, nil
}

// ReadBundle decodes the structure of an encoded bundle. It only checks shapes (arrays of
// the right length, integers where integers belong); it does not judge BPv7 rules.
func ReadBundle(raw []byte) (*WBundle, error) {
	top, err := DecodeItem(raw, 0)
	if err != nil {
		return nil, err
	}
	if top.Major != MajArray || !top.Indef {
		return nil, fmt.Errorf("bundle is not an indefinite-length array")
	}
	if len(top.Items) < 1 {
		return nil, fmt.Errorf("no primary block")
	}
	w := &WBundle{Raw: raw, End: top.End}
	p := top.Items[0]
	if p.Major != MajArray || p.Indef || len(p.Items) < 8 || len(p.Items) > 11 {
		return nil, fmt.Errorf("primary block is not an array of 8..11 elements")
	}
	pr := &w.Primary
	pr.Item, pr.ArrLen = p, len(p.Items)
	if pr.Version, err = uintAt(p.Items, 0); err != nil {
		return nil, err
	}
	if pr.Flags, err = uintAt(p.Items, 1); err != nil {
		return nil, err
	}
	if pr.CRCType, err = uintAt(p.Items, 2); err != nil {
		return nil, err
	}
	pr.Dst, pr.Src, pr.Rpt = ReadEID(p.Items[3]), ReadEID(p.Items[4]), ReadEID(p.Items[5])
	if !pr.Dst.OK || !pr.Src.OK || !pr.Rpt.OK {
		return nil, fmt.Errorf("undecodable endpoint id in primary block")
	}
	ts := p.Items[6]
	if ts.Major != MajArray || ts.Indef || len(ts.Items) != 2 || !ts.Items[0].IsUint() || !ts.Items[1].IsUint() {
		return nil, fmt.Errorf("bad creation timestamp")
	}
	pr.TsTime, pr.TsSeq = ts.Items[0].Arg, ts.Items[1].Arg
	if pr.Lifetime, err = uintAt(p.Items, 7); err != nil {
		return nil, err
	}
	idx := 8
	if pr.ArrLen >= 10 {
		pr.HasFrag = true
		if pr.FragOff, err = uintAt(p.Items, 8); err != nil {
			return nil, err
		}
		if pr.Total, err = uintAt(p.Items, 9); err != nil {
			return nil, err
		}
		idx = 10
	}
	if pr.ArrLen == 9 || pr.ArrLen == 11 {
		c := p.Items[idx]
		if c.Major != MajBytes {
			return nil, fmt.Errorf("primary CRC is not a byte string")
		}
		pr.CRCItem = c
	}
	for _, it := range top.Items[1:] {
		if it.Major != MajArray || it.Indef || (len(it.Items) != 5 && len(it.Items) != 6) {
			return nil, fmt.Errorf("canonical block is not an array of 5 or 6 elements")
		}
		var b WBlock
		b.Item, b.ArrLen = it, len(it.Items)
		if b.Type, err = uintAt(it.Items, 0); err != nil {
			return nil, err
		}
		if b.Num, err = uintAt(it.Items, 1); err != nil {
			return nil, err
		}
		if b.Flags, err = uintAt(it.Items, 2); err != nil {
			return nil, err
		}
		if b.CRCType, err = uintAt(it.Items, 3); err != nil {
			return nil, err
		}
		if it.Items[4].Major != MajBytes {
			return nil, fmt.Errorf("block data is not a byte string")
		}
		b.DataItem, b.Data = it.Items[4], it.Items[4].Bytes
		if b.ArrLen == 6 {
			if it.Items[5].Major != MajBytes {
				return nil, fmt.Errorf("block CRC is not a byte string")
			}
			b.CRCItem = it.Items[5]
		}
		w.Blocks = append(w.Blocks, b)
	}
	return w, nil
}

// crcOK recomputes the CRC of raw[start:end] with the CRC field (crcItem) zeroed.
func crcOK(raw []byte, start, end int, crcType uint64, crcItem *Item) (bool, string) {
	switch crcType {
	case 0:
		return true, ""
	case 1, 2:
	default:
		return false, fmt.Sprintf("unknown CRC type %d", crcType)
	}
	if crcItem == nil {
		return false, "CRC type declared but no CRC field"
	}
	want := 2
	if crcType == 2 {
		want = 4
	}
	if len(crcItem.Bytes) != want {
		return false, fmt.Sprintf("CRC field has %d bytes, want %d", len(crcItem.Bytes), want)
	}
	if crcItem.End != end {
		return false, "CRC field is not the last element"
	}
	buf := make([]byte, end-start)
	copy(buf, raw[start:end])
	for i := 0; i < want; i++ {
		buf[len(buf)-1-i] = 0
	}
	if crcType == 1 {
		c := CRC16X25(buf)
		if binary.BigEndian.Uint16(crcItem.Bytes) != c {
			return false, fmt.Sprintf("CRC16 mismatch: field %x computed %04x", crcItem.Bytes, c)
		}
	} else {
		c := CRC32C(buf)
		if binary.BigEndian.Uint32(crcItem.Bytes) != c {
			return false, fmt.Sprintf("CRC32 mismatch: field %x computed %08x", crcItem.Bytes, c)
		}
	}
	return true, ""
}

// CheckCRCs verifies every declared CRC independently. It returns the list of problems.
func (w *WBundle) CheckCRCs() []string {
	var out []string
	p := &w.Primary
	if ok, why := crcOK(w.Raw, p.Item.Start, p.Item.End, p.CRCType, p.CRCItem); !ok {
		out = append(out, "primary: "+why)
	}
	for i := range w.Blocks {
		b := &w.Blocks[i]
		if ok, why := crcOK(w.Raw, b.Item.Start, b.Item.End, b.CRCType, b.CRCItem); !ok {
			out = append(out, fmt.Sprintf("block #%d (type %d): %s", i, b.Type, why))
		}
	}
	return out
}

// ID renders the bundle ID string the way dtn7 does ("src-time-seq[-off-total]").
func (w *WBundle) ID() string {
	p := &w.Primary
	s := fmt.Sprintf("%s-%d-%d", p.Src.String(), p.TsTime, p.TsSeq)
	if p.Flags&FIsFragment != 0 {
		s += fmt.Sprintf("-%d-%d", p.FragOff, p.Total)
	}
	return s
}

// Payload returns the data of the (first) payload block.
func (w *WBundle) Payload() ([]byte, bool) {
	for i := range w.Blocks {
		if w.Blocks[i].Type == BTPayload {
			return w.Blocks[i].Data, true
		}
	}
	return nil, false
}
