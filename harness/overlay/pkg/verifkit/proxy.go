package verifkit

import (
	"net"
	"sync"
	"time"
)

// Proxy forwards TCP connections to a target and can cut them.
type Proxy struct {
	ln     net.Listener
	mu     sync.Mutex
	target string
	pairs  [][2]net.Conn
	armed  bool
	dir    int   // 0: dialer -> listener, 1: listener -> dialer
	left   int64 // bytes still to forward in that direction before the cut
	rst    bool
	cuts   int
	fwd    [2]int64
	closed bool
}

func NewProxy() (*Proxy, error) {
	ln, err := net.Listen("tcp", "127.0.0.1:0")
	if err != nil {
		return nil, err
	}
	p := &Proxy{ln: ln}
	go p.accept()
	return p, nil
}

func (p *Proxy) Addr() string { return p.ln.Addr().String() }

func (p *Proxy) SetTarget(t string) {
	p.mu.Lock()
	p.target = t
	p.mu.Unlock()
}

func (p *Proxy) accept() {
	for {
		c, err := p.ln.Accept()
		if err != nil {
			return
		}
		p.mu.Lock()
		target := p.target
		p.mu.Unlock()
		t, err := net.DialTimeout("tcp", target, 2*time.Second)
		if err != nil {
			_ = c.Close()
			continue
		}
		p.mu.Lock()
		p.pairs = append(p.pairs, [2]net.Conn{c, t})
		p.mu.Unlock()
		go p.pump(c, t, 0)
		go p.pump(t, c, 1)
	}
}

func (p *Proxy) pump(from, to net.Conn, dir int) {
	buf := make([]byte, 2048)
	for {
		n, err := from.Read(buf)
		if n > 0 {
			chunk := buf[:n]
			cut := false
			p.mu.Lock()
			if p.armed && p.dir == dir {
				if int64(n) >= p.left {
					chunk = chunk[:p.left]
					cut = true
					p.armed = false
					p.cuts++
				} else {
					p.left -= int64(n)
				}
			}
			p.fwd[dir] += int64(len(chunk))
			rst := p.rst
			p.mu.Unlock()
			if len(chunk) > 0 {
				if _, werr := to.Write(chunk); werr != nil {
					err = werr
				}
			}
			if cut {
				p.Kill(rst)
				return
			}
		}
		if err != nil {
			_ = from.Close()
			_ = to.Close()
			return
		}
	}
}

// kill closes every forwarded connection (both ends).
func (p *Proxy) Kill(rst bool) {
	p.mu.Lock()
	pairs := p.pairs
	p.pairs = nil
	p.mu.Unlock()
	for _, pr := range pairs {
		for _, c := range pr {
			if rst {
				if tc, ok := c.(*net.TCPConn); ok {
					_ = tc.SetLinger(0)
				}
			}
			_ = c.Close()
		}
	}
}

func (p *Proxy) Arm(dir int, after int64, rst bool) {
	p.mu.Lock()
	p.armed, p.dir, p.left, p.rst = true, dir, after, rst
	p.mu.Unlock()
}

func (p *Proxy) Disarm() {
	p.mu.Lock()
	p.armed = false
	p.mu.Unlock()
}

func (p *Proxy) Cuts() int {
	p.mu.Lock()
	defer p.mu.Unlock()
	return p.cuts
}

// Close stops the forwarder and closes every connection.
func (p *Proxy) Close() {
	_ = p.ln.Close()
	p.Kill(false)
}


// Forwarded returns the number of bytes forwarded so far in one direction (0: dialer -> listener).
func (p *Proxy) Forwarded(dir int) int64 {
	p.mu.Lock()
	defer p.mu.Unlock()
	return p.fwd[dir]
}
