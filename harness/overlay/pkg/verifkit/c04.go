package verifkit

import (
	"fmt"
	"testing"
	"time"
)

// C04Case is one hostile input for one decoder target.
type C04Case struct {
	Target string `json:"target"`
	Class  string `json:"class"`
	Input  []byte `json:"input"`
	Idx    int    `json:"idx"`
}

// C04Spec configures a C04 unit.
type C04Spec struct {
	Unit        Unit
	Target      string
	C0          uint64 // constant part of the allocation budget
	RecoveredOK bool   // a panic recovered by the code's own handler is not a violation (it is not visible here anyway)
	Hang        time.Duration
}

// RunC04 runs all inputs through the target in disposable children and judges each.
func RunC04(t *testing.T, sp C04Spec, cases []C04Case) {
	if sp.Hang == 0 {
		sp.Hang = 20 * time.Second
	}
	if sp.C0 == 0 {
		sp.C0 = 4 << 20
	}
	var results []ChildResult
	if !Replaying() {
		var own []C04Case
		for i := range cases {
			if ShardOwns(i) {
				c := cases[i]
				c.Idx = len(own)
				c.Target = sp.Target
				own = append(own, c)
			}
		}
		cases = own
		inputs := make([][]byte, len(cases))
		for i := range cases {
			inputs[i] = cases[i].Input
		}
		var err error
		results, err = RunBatch(sp.Target, inputs, sp.Hang)
		if err != nil {
			t.Fatalf("verifkit: child batch failed: %v", err)
		}
	}
	Enumerate(t, sp.Unit, false, func(yield func(C04Case) bool) {
		for _, c := range cases {
			if !yield(c) {
				return
			}
		}
	}, func(c *Ctx, cs C04Case) {
		var r ChildResult
		if results != nil && cs.Idx < len(results) {
			r = results[cs.Idx]
		} else {
			rs, err := RunBatch(sp.Target, [][]byte{cs.Input}, sp.Hang)
			if err != nil || len(rs) != 1 {
				c.Failf("c04.harness", "cannot run the child: %v", err)
			}
			r = rs[0]
		}
		c.Class(cs.Class)
		if r.Note != "" {
			c.Class(cs.Class + ": " + r.Note)
		}
		c.NonTrivial(fmt.Sprintf("%s/%x", sp.Target, hash64(cs.Input)))
		if r.Hung {
			// confirm in isolation before reporting
			rs, err := RunBatch(sp.Target, [][]byte{cs.Input}, sp.Hang)
			if err != nil || len(rs) != 1 || !rs[0].Hung {
				c.Note("a hang bound was hit once but did not reproduce in isolation (inconclusive, not reported)")
				return
			}
		}
		if tag, msg := JudgeChild(&r, cs.Input, sp.C0, sp.RecoveredOK); tag != "" {
			c.Failf(tag+"."+sp.Target, "%s: %s", sp.Target, msg)
		}
	})
}

// C04Inputs builds the structured input set from valid seeds: every length/count field set
// to every boundary value, every truncation, and the seeds themselves.
func C04Inputs(seeds [][]byte, cbor bool) []C04Case {
	var out []C04Case
	seen := map[uint64]bool{}
	add := func(class string, in []byte) {
		h := hash64(in)
		if seen[h] {
			return
		}
		seen[h] = true
		out = append(out, C04Case{Class: class, Input: in})
	}
	for _, s := range seeds {
		add("valid seed", s)
		if cbor {
			for _, m := range LengthMutants(s) {
				add("length/count field at a boundary value", m)
			}
			for _, m := range TypeMutants(s) {
				add("item replaced by an item of another type (CRCs re-computed)", m)
			}
			if len(s) <= 96 {
				for _, m := range SmallValueMutants(s) {
					add("a field set to a small value 0..40 (enumerations, type codes, flags)", m)
				}
			}
		}
		for _, m := range Truncations(s) {
			add("truncation", m)
		}
	}
	return out
}

// FuzzC04 registers seeds and the in-process fuzz body for a decoder target: panic, or an
// allocation beyond the budget, fails the input. (Hangs are bounded by go's own fuzz worker
// timeout; process death is reported by the fuzzing engine as a crasher.)
// FuzzExclude, if set, tells for an input that it belongs to the class of a finding listed in
// known_findings.json (it is only consulted by harnesses that checked VERIF_KNOWN).
var FuzzExclude func(in []byte) bool

func FuzzC04(f *testing.F, name string, tg Target, c0 uint64, seeds [][]byte) {
	for _, s := range seeds {
		f.Add(s)
	}
	f.Fuzz(func(t *testing.T, in []byte) {
		if len(in) > 65536 {
			return
		}
		if FuzzExclude != nil && FuzzExclude(in) {
			return // an input of a recorded finding's class: excluded so that the campaign goes on behind it
		}
		var m0, m1 runtimeMemStats
		readMem(&m0)
		_, pan := runChildTarget(tg, in)
		readMem(&m1)
		if pan != "" {
			t.Fatalf("[c04.panic.%s] %s", name, tailOf(pan, 1500))
		}
		if d := m1.TotalAlloc - m0.TotalAlloc; d > allocBudgetFor(in, c0) {
			t.Fatalf("[c04.alloc.%s] %d bytes allocated for an input of %d bytes", name, d, len(in))
		}
	})
}
