// Package verifkit is the shared part of the /verif property-based-testing harness.
// It is compiled into the dtn7-go module through `go test -overlay`; nothing of it
// lives in /repo.
//
// It provides: the case runner (rapid-driven, exhaustive, or replay), evidence
// recording, failure tagging / known-finding handling, an independent CBOR
// reader/writer and independent CRC implementations.
package verifkit

import (
	"encoding/json"
	"flag"
	"fmt"
	"hash/fnv"
	"os"
	"reflect"
	"runtime/debug"
	"sort"
	"strconv"
	"strings"
	"sync"
	"testing"
	"time"

	"pgregory.net/rapid"
)

// Failure is one oracle failure.
type Failure struct {
	Tag   string          `json:"tag"`
	Msg   string          `json:"msg"`
	Case  json.RawMessage `json:"case"`
	Unit  string          `json:"unit"`
	Known bool            `json:"known"`
}

// Report is what one run of one unit (one test function, one shard) writes.
type Report struct {
	Unit        string            `json:"unit"`
	Property    string            `json:"property"`
	Tier        string            `json:"tier"`
	Seed        int64             `json:"seed"`
	Shard       int               `json:"shard"`
	Shards      int               `json:"shards"`
	Requested   int               `json:"requested"`
	Evaluations int               `json:"evaluations"`
	NonTrivial  []string          `json:"nontrivial_hashes"`
	Rule        string            `json:"rule"`
	Classes     map[string]int    `json:"classes"`
	Samples     []json.RawMessage `json:"samples"`
	Failure     *Failure          `json:"failure,omitempty"`
	KnownHits   map[string]int    `json:"known_hits"`
	KnownSample map[string]string `json:"known_samples"`
	Exhaustive  bool              `json:"exhaustive"`
	Excluded    map[string]int    `json:"excluded"`
	WallS       float64           `json:"wall_s"`
	Completed   bool              `json:"completed"`
	Notes       []string          `json:"notes,omitempty"`
}

// Unit describes one check unit.
type Unit struct {
	Property string // "C01"
	Name     string // unique unit name, e.g. "c01.valid"
	Rule     string // how cases are generated and what counts as non-trivial
	Quick    int    // number of generated cases in the quick tier (all shards together)
	Thorough int    // same, thorough tier
}

// Ctx is handed to the property body for one case.
type Ctx struct {
	r        *runner
	caseJSON json.RawMessage
	caseFn   func() json.RawMessage
	nt       bool
	ntKey    string
	rt       *rapid.T
	classes  []string
}

type abortCase struct{ known bool }

type runner struct {
	mu      sync.Mutex
	u       Unit
	rep     Report
	nt      map[uint64]struct{}
	known   map[string]bool
	start   time.Time
	maxSamp int
	t       *testing.T
}

// Tier returns "quick" or "thorough".
func Tier() string {
	if os.Getenv("VERIF_TIER") == "thorough" {
		return "thorough"
	}
	return "quick"
}

// Seed returns the effective PRNG seed for this shard (never 0).
func Seed() int64 {
	s, _ := strconv.ParseInt(os.Getenv("VERIF_SEED"), 10, 64)
	if s == 0 {
		s = 1
	}
	sh, n := Shard()
	if n > 1 {
		s = s*1000003 + int64(sh)
	}
	if s == 0 {
		s = 1
	}
	if s < 0 {
		s = -s
	}
	return s
}

// BaseSeed is VERIF_SEED as given (0 remapped to 1).
func BaseSeed() int64 {
	s, _ := strconv.ParseInt(os.Getenv("VERIF_SEED"), 10, 64)
	if s == 0 {
		s = 1
	}
	return s
}

// Shard returns (index, count).
func Shard() (int, int) {
	i, _ := strconv.Atoi(os.Getenv("VERIF_SHARD"))
	n, _ := strconv.Atoi(os.Getenv("VERIF_SHARDS"))
	if n < 1 {
		n = 1
	}
	return i, n
}

// Scale multiplies case counts (VERIF_SCALE, default 1.0); used for sensitivity runs.
func scale() float64 {
	if s := os.Getenv("VERIF_SCALE"); s != "" {
		if f, err := strconv.ParseFloat(s, 64); err == nil && f > 0 {
			return f
		}
	}
	return 1
}

// N returns the number of cases this shard has to generate.
func (u Unit) N() int {
	n := u.Quick
	if Tier() == "thorough" {
		n = u.Thorough
	}
	n = int(float64(n) * scale())
	_, sh := Shard()
	n = (n + sh - 1) / sh
	if n < 1 {
		n = 1
	}
	return n
}

func newRunner(t *testing.T, u Unit) *runner {
	r := &runner{u: u, nt: map[uint64]struct{}{}, known: map[string]bool{}, start: time.Now(), maxSamp: 4, t: t}
	for _, k := range strings.Split(os.Getenv("VERIF_KNOWN"), ",") {
		if k = strings.TrimSpace(k); k != "" {
			r.known[k] = true
		}
	}
	sh, n := Shard()
	r.rep = Report{Unit: u.Name, Property: u.Property, Tier: Tier(), Seed: Seed(), Shard: sh, Shards: n,
		Rule: u.Rule, Classes: map[string]int{}, KnownHits: map[string]int{}, KnownSample: map[string]string{},
		Excluded: map[string]int{}}
	return r
}

func (r *runner) flush(completed bool) {
	r.mu.Lock()
	defer r.mu.Unlock()
	r.rep.Completed = completed
	r.rep.WallS = time.Since(r.start).Seconds()
	r.rep.NonTrivial = r.rep.NonTrivial[:0]
	keys := make([]uint64, 0, len(r.nt))
	for k := range r.nt {
		keys = append(keys, k)
	}
	sort.Slice(keys, func(i, j int) bool { return keys[i] < keys[j] })
	for _, k := range keys {
		r.rep.NonTrivial = append(r.rep.NonTrivial, strconv.FormatUint(k, 16))
	}
	path := os.Getenv("VERIF_REPORT")
	if path == "" {
		return
	}
	data, err := json.Marshal(&r.rep)
	if err != nil {
		r.t.Logf("verifkit: cannot marshal report: %v", err)
		return
	}
	tmp := path + ".tmp"
	if err := os.WriteFile(tmp, data, 0o644); err == nil {
		_ = os.Rename(tmp, path)
	}
}

func hash64(b []byte) uint64 {
	h := fnv.New64a()
	_, _ = h.Write(b)
	return h.Sum64()
}

func (r *runner) finishCase(c *Ctx) {
	r.mu.Lock()
	defer r.mu.Unlock()
	r.rep.Evaluations++
	for _, cl := range c.classes {
		r.rep.Classes[cl]++
	}
	if c.nt {
		key := c.ntKey
		var h uint64
		if key != "" {
			h = hash64([]byte(key))
		} else {
			h = hash64(c.CaseJSON())
		}
		if _, ok := r.nt[h]; !ok {
			r.nt[h] = struct{}{}
			if len(r.rep.Samples) < r.maxSamp {
				r.rep.Samples = append(r.rep.Samples, truncJSON(c.CaseJSON()))
			}
		}
	}
}

func truncJSON(j json.RawMessage) json.RawMessage {
	if len(j) <= 3000 {
		return j
	}
	s, _ := json.Marshal(string(j[:3000]) + "...(truncated)")
	return s
}

// CaseJSON returns the JSON of the current case.
func (c *Ctx) CaseJSON() json.RawMessage {
	if c.caseJSON == nil && c.caseFn != nil {
		c.caseJSON = c.caseFn()
	}
	if c.caseJSON == nil {
		return json.RawMessage("null")
	}
	return c.caseJSON
}

// Class adds the case to a named class (histogram in the evidence).
func (c *Ctx) Class(name string) { c.classes = append(c.classes, name) }

// Classf is Class with formatting.
func (c *Ctx) Classf(format string, a ...interface{}) { c.Class(fmt.Sprintf(format, a...)) }

// NonTrivial marks the case as non-trivial by the unit's rule. key, if not
// empty, identifies the case for distinctness instead of its JSON.
func (c *Ctx) NonTrivial(key ...string) {
	c.nt = true
	if len(key) > 0 {
		c.ntKey = key[0]
	}
}

// Rapid returns the rapid.T of the current case (nil in replay/exhaustive mode).
func (c *Ctx) Rapid() *rapid.T { return c.rt }

// Excluded counts a (sub)case that was excluded by construction because of a known finding.
func (c *Ctx) Excluded(tag string) {
	c.r.mu.Lock()
	c.r.rep.Excluded[tag]++
	c.r.mu.Unlock()
}

// IsKnown tells whether tag is listed in known_findings.json for this property.
func (c *Ctx) IsKnown(tag string) bool { return c.r.known[tag] }

// Note adds a free-text note to the report (kept once).
func (c *Ctx) Note(s string) {
	c.r.mu.Lock()
	defer c.r.mu.Unlock()
	for _, n := range c.r.rep.Notes {
		if n == s {
			return
		}
	}
	if len(c.r.rep.Notes) < 20 {
		c.r.rep.Notes = append(c.r.rep.Notes, s)
	}
}

// Failf records an oracle failure with a stable tag and aborts the case. If the tag is a
// listed known finding the hit is counted and the case ends as passed.
func (c *Ctx) Failf(tag, format string, a ...interface{}) {
	msg := fmt.Sprintf(format, a...)
	r := c.r
	r.mu.Lock()
	if r.known[tag] {
		r.rep.KnownHits[tag]++
		if _, ok := r.rep.KnownSample[tag]; !ok {
			r.rep.KnownSample[tag] = msg
		}
		r.mu.Unlock()
		panic(abortCase{known: true})
	}
	r.rep.Failure = &Failure{Tag: tag, Msg: msg, Case: c.CaseJSON(), Unit: r.u.Name}
	r.mu.Unlock()
	r.flush(false)
	if c.rt != nil {
		c.rt.Fatalf("[%s] %s", tag, msg)
	}
	panic(abortCase{})
}

// KnownHit records a hit of a known finding without aborting the case. It returns false
// (and does nothing) if the tag is not listed, so the caller can fall through to Failf.
func (c *Ctx) KnownHit(tag, format string, a ...interface{}) bool {
	r := c.r
	r.mu.Lock()
	defer r.mu.Unlock()
	if !r.known[tag] {
		return false
	}
	r.rep.KnownHits[tag]++
	if _, ok := r.rep.KnownSample[tag]; !ok {
		r.rep.KnownSample[tag] = fmt.Sprintf(format, a...)
	}
	return true
}

func isRapidPanic(v interface{}) bool {
	if v == nil {
		return false
	}
	t := reflect.TypeOf(v)
	for t.Kind() == reflect.Ptr {
		t = t.Elem()
	}
	return t.PkgPath() == "pgregory.net/rapid"
}

// writeCaseFile stores the case that is about to run, so that the driver can name it when
// the whole process dies (a panic in a goroutine of the code under test cannot be recovered).
func (r *runner) writeCaseFile(c *Ctx) {
	p := os.Getenv("VERIF_CASEFILE")
	if p == "" {
		return
	}
	doc := replayDoc{Property: r.u.Property, Unit: r.u.Name, Tag: "crash", Msg: "process died while running this case", Case: c.CaseJSON()}
	if data, err := json.Marshal(&doc); err == nil {
		_ = os.WriteFile(p, data, 0o644)
	}
}

// runCase runs body on one case; converts foreign panics to failures tagged "panic".
func (r *runner) runCase(c *Ctx, body func(*Ctx)) (failed bool) {
	r.writeCaseFile(c)
	defer func() {
		v := recover()
		switch x := v.(type) {
		case nil:
			r.finishCase(c)
		case abortCase:
			if x.known {
				r.finishCase(c)
			} else {
				failed = true
			}
		default:
			if isRapidPanic(v) {
				// rapid's own control flow (failure after Failf, invalid data, ...)
				panic(v)
			}
			stack := string(debug.Stack())
			if len(stack) > 4000 {
				stack = stack[:4000]
			}
			tag := "panic"
			msg := fmt.Sprintf("panic: %v\n%s", v, stack)
			r.mu.Lock()
			if r.known[tag+"."+r.u.Name] {
				r.mu.Unlock()
				r.finishCase(c)
				return
			}
			r.rep.Failure = &Failure{Tag: tag, Msg: msg, Case: c.CaseJSON(), Unit: r.u.Name}
			r.mu.Unlock()
			r.flush(false)
			failed = true
			if c.rt != nil {
				panic(v) // let rapid see the failure and shrink it
			}
		}
	}()
	body(c)
	return false
}

func replayFile() string { return os.Getenv("VERIF_REPLAY") }

// Replaying tells whether this run replays a stored case.
func Replaying() bool { return replayFile() != "" }

type replayDoc struct {
	Property string          `json:"property"`
	Unit     string          `json:"unit"`
	Tag      string          `json:"tag"`
	Msg      string          `json:"msg"`
	Case     json.RawMessage `json:"case"`
}

// loadReplay returns the case to replay for unit, or nil.
func loadReplay(t *testing.T, unit string) json.RawMessage {
	p := replayFile()
	if p == "" {
		return nil
	}
	data, err := os.ReadFile(p)
	if err != nil {
		t.Fatalf("verifkit: cannot read replay file: %v", err)
	}
	var d replayDoc
	if err := json.Unmarshal(data, &d); err != nil {
		t.Fatalf("verifkit: bad replay file: %v", err)
	}
	if d.Unit != unit {
		t.Skipf("replay file is for unit %s", d.Unit)
	}
	return d.Case
}

// Check runs the unit: u.N() cases drawn by gen through rapid and judged by body; or, in
// replay mode, body on the case stored in the replay file, bypassing rapid.
func Check[C any](t *testing.T, u Unit, gen func(*rapid.T) C, body func(*Ctx, C)) {
	r := newRunner(t, u)
	if raw := loadReplay(t, u.Name); raw != nil {
		var cs C
		if err := json.Unmarshal(raw, &cs); err != nil {
			t.Fatalf("verifkit: replay case does not fit unit %s: %v", u.Name, err)
		}
		c := &Ctx{r: r, caseJSON: raw}
		failed := r.runCase(c, func(c *Ctx) { body(c, cs) })
		r.flush(true)
		if failed {
			t.Fatalf("replay reproduces: [%s] %s", r.rep.Failure.Tag, r.rep.Failure.Msg)
		}
		return
	}
	n := u.N()
	r.rep.Requested = n
	_ = flag.Set("rapid.checks", strconv.Itoa(n))
	_ = flag.Set("rapid.seed", strconv.FormatInt(Seed(), 10))
	_ = flag.Set("rapid.nofailfile", "true")
	if st := os.Getenv("VERIF_SHRINKTIME"); st != "" {
		_ = flag.Set("rapid.shrinktime", st)
	} else {
		_ = flag.Set("rapid.shrinktime", "20s")
	}
	defer func() { r.flush(!t.Failed()) }()
	rapid.Check(t, func(rt *rapid.T) {
		cs := gen(rt)
		c := &Ctx{r: r, rt: rt}
		c.caseFn = func() json.RawMessage {
			j, err := json.Marshal(cs)
			if err != nil {
				j, _ = json.Marshal(fmt.Sprintf("unmarshalable case: %v", err))
			}
			return j
		}
		r.runCase(c, func(c *Ctx) { body(c, cs) })
	})
}

// Enumerate runs body over an explicitly enumerated space. each is called with a yield
// function; yield returns false when enumeration must stop (a failure happened).
func Enumerate[C any](t *testing.T, u Unit, exhaustive bool, each func(yield func(C) bool), body func(*Ctx, C)) {
	r := newRunner(t, u)
	if raw := loadReplay(t, u.Name); raw != nil {
		var cs C
		if err := json.Unmarshal(raw, &cs); err != nil {
			t.Fatalf("verifkit: replay case does not fit unit %s: %v", u.Name, err)
		}
		c := &Ctx{r: r, caseJSON: raw}
		failed := r.runCase(c, func(c *Ctx) { body(c, cs) })
		r.flush(true)
		if failed {
			t.Fatalf("replay reproduces: [%s] %s", r.rep.Failure.Tag, r.rep.Failure.Msg)
		}
		return
	}
	r.rep.Exhaustive = exhaustive
	failed := false
	defer func() { r.flush(!failed) }()
	each(func(cs C) bool {
		c := &Ctx{r: r}
		c.caseFn = func() json.RawMessage {
			j, err := json.Marshal(cs)
			if err != nil {
				j, _ = json.Marshal(fmt.Sprintf("unmarshalable case: %v", err))
			}
			return j
		}
		if r.runCase(c, func(c *Ctx) { body(c, cs) }) {
			failed = true
			return false
		}
		return true
	})
	r.rep.Requested = r.rep.Evaluations
	if failed {
		t.Fatalf("[%s] %s", r.rep.Failure.Tag, r.rep.Failure.Msg)
	}
}

// ShardOwns tells an exhaustive enumeration whether index i belongs to this shard.
func ShardOwns(i int) bool {
	sh, n := Shard()
	return i%n == sh
}

// ScratchCtx returns a context that belongs to no unit and writes no report: for helper processes that use
// harness code which wants a Ctx. A failure reported through it panics with the message.
func ScratchCtx() *Ctx {
	r := &runner{u: Unit{Name: "scratch"}, nt: map[uint64]struct{}{}, known: map[string]bool{}, start: time.Now()}
	r.rep = Report{Classes: map[string]int{}, KnownHits: map[string]int{}, KnownSample: map[string]string{}, Excluded: map[string]int{}}
	return &Ctx{r: r, caseFn: func() json.RawMessage { return json.RawMessage("null") }}
}
