package agent

import (
	"bytes"
	"encoding/base64"
	"encoding/json"
	"fmt"
	"io"
	"net/http"
	"net/http/httptest"
	"sort"
	"strings"
	"sync"
	"testing"
	"time"

	"github.com/gorilla/mux"
	log "github.com/sirupsen/logrus"

	"github.com/dtn7/dtn7-go/pkg/bpv7"
	"github.com/dtn7/dtn7-go/pkg/verifhook"
	vk "github.com/dtn7/dtn7-go/pkg/verifkit"
	"pgregory.net/rapid"
)

// C07 (agent level) — local delivery reaches exactly the registered recipients, once.

var c07Endpoints = []string{"dtn://node/a", "dtn://node/b", "dtn://node/c"}

type c07Op struct {
	Op string `json:"op"` // rest-reg, rest-unreg, fetch, deliver, ws-open, ws-close
	C  int    `json:"c"`  // client index
	E  int    `json:"e"`  // endpoint index
}

type c07Case struct {
	Mocks []int   `json:"mocks"` // endpoints of mock agents registered from the start
	Ping  int     `json:"ping"`  // endpoint index of a ping agent (-1 none)
	Ops   []c07Op `json:"ops"`
}

// vfMock is a mock application agent.
type vfMock struct {
	eid      bpv7.EndpointID
	receiver chan Message
	sender   chan Message
	mu       sync.Mutex
	got      []string
	sig      chan struct{}
}

func newVfMock(e string) *vfMock {
	m := &vfMock{eid: bpv7.MustNewEndpointID(e), receiver: make(chan Message), sender: make(chan Message), sig: make(chan struct{}, 4096)}
	go func() {
		for msg := range m.receiver {
			if bm, ok := msg.(BundleMessage); ok {
				m.mu.Lock()
				m.got = append(m.got, c07Payload(&bm.Bundle))
				m.mu.Unlock()
				m.sig <- struct{}{}
			}
			if _, ok := msg.(ShutdownMessage); ok {
				return
			}
		}
	}()
	return m
}
func (m *vfMock) Endpoints() []bpv7.EndpointID { return []bpv7.EndpointID{m.eid} }
func (m *vfMock) MessageReceiver() chan Message { return m.receiver }
func (m *vfMock) MessageSender() chan Message   { return m.sender }

func c07Payload(b *bpv7.Bundle) string {
	pb, err := b.PayloadBlock()
	if err != nil {
		return "?"
	}
	return string(pb.Value.(*bpv7.PayloadBlock).Data())
}

func c07Bundle(dest string, payload string, seq uint64) bpv7.Bundle {
	b, err := bpv7.Builder().CRC(bpv7.CRC32).Source("dtn://sender/app").Destination(dest).CreationTimestampNow().Lifetime("1h").
		BundleCtrlFlags(bpv7.MustNotFragmented).PayloadBlock([]byte(payload)).Build()
	if err != nil {
		panic(err)
	}
	b.PrimaryBlock.CreationTimestamp[1] = seq
	return b
}

type c07World struct {
	c      *vk.Ctx
	top    *MuxAgent
	rest   *RestAgent
	router *mux.Router
	ws     *WebSocketAgent
	srv    *httptest.Server
	mocks  []*vfMock

	restUUID map[int]string // client -> uuid
	restEP   map[int]int    // client -> endpoint
	restQ    map[int][]string
	wsConn   map[int]*WebSocketAgentConnector
	wsEP     map[int]int
	wsQ      map[int][]string // expected
	wsGot    map[int][]string
	mockQ    [][]string
	seq      uint64
	trace    []string

	barMock *vfMock                  // last child of the multiplexer
	barRest string                   // uuid of a permanent REST client
	barWS   *WebSocketAgentConnector // a permanent WebSocket client
}

const (
	c07BarMock = "dtn://node/vfbarrier-mock"
	c07BarRest = "dtn://node/vfbarrier-rest"
	c07BarWS   = "dtn://node/vfbarrier-ws"
)

func (w *c07World) fail(tag, format string, a ...interface{}) {
	w.c.Failf(tag, "%s\nhistory: %v", fmt.Sprintf(format, a...), w.trace)
}

// vfHookedWriter is a ResponseWriter that runs a callback when the handler first touches the response
// (Header, WriteHeader or Write): the moment between a handler's work on its state and its answer.
type vfHookedWriter struct {
	*httptest.ResponseRecorder
	hook func()
	once sync.Once
}

func (h *vfHookedWriter) Header() http.Header         { h.once.Do(h.hook); return h.ResponseRecorder.Header() }
func (h *vfHookedWriter) WriteHeader(code int)        { h.once.Do(h.hook); h.ResponseRecorder.WriteHeader(code) }
func (h *vfHookedWriter) Write(b []byte) (int, error) { h.once.Do(h.hook); return h.ResponseRecorder.Write(b) }

func (w *c07World) post(path string, req interface{}, resp interface{}) {
	w.postHooked(path, req, resp, nil)
}

func (w *c07World) postHooked(path string, req interface{}, resp interface{}, hook func()) {
	body, _ := json.Marshal(req)
	rec := httptest.NewRecorder()
	if hook != nil {
		w.router.ServeHTTP(&vfHookedWriter{ResponseRecorder: rec, hook: hook}, httptest.NewRequest(http.MethodPost, path, bytes.NewReader(body)))
	} else {
		w.router.ServeHTTP(rec, httptest.NewRequest(http.MethodPost, path, bytes.NewReader(body)))
	}
	if rec.Code != 200 {
		w.fail("c07.harness", "POST %s -> %d", path, rec.Code)
	}
	if err := json.Unmarshal(rec.Body.Bytes(), resp); err != nil {
		w.fail("c07.harness", "POST %s: bad response %q: %v", path, rec.Body.String(), err)
	}
}

// fetchPayloads fetches a REST client's mailbox and returns the payloads.
func (w *c07World) fetchPayloads(uuid string) []string { return w.fetchPayloadsHooked(uuid, nil) }

func (w *c07World) fetchPayloadsHooked(uuid string, hook func()) []string {
	var raw struct {
		Error   string `json:"error"`
		Bundles []struct {
			CanonicalBlocks []struct {
				BlockTypeCode uint64          `json:"blockTypeCode"`
				Data          json.RawMessage `json:"data"`
			} `json:"canonicalBlocks"`
		} `json:"bundles"`
	}
	w.postHooked("/fetch", RestFetchRequest{UUID: uuid}, &raw, hook)
	var out []string
	for _, b := range raw.Bundles {
		for _, cb := range b.CanonicalBlocks {
			if cb.BlockTypeCode == 1 {
				var s string
				if err := json.Unmarshal(cb.Data, &s); err == nil {
					if dec, err := base64.StdEncoding.DecodeString(s); err == nil {
						out = append(out, string(dec))
					}
				}
			}
		}
	}
	return out
}

func newC07World(c *vk.Ctx, cs *c07Case) *c07World {
	w := &c07World{c: c, top: NewMuxAgent(), restUUID: map[int]string{}, restEP: map[int]int{}, restQ: map[int][]string{},
		wsConn: map[int]*WebSocketAgentConnector{}, wsEP: map[int]int{}, wsQ: map[int][]string{}, wsGot: map[int][]string{}}
	go func() {
		for range w.top.MessageSender() {
		}
	}()
	w.router = mux.NewRouter()
	w.rest = NewRestAgent(w.router)
	w.top.Register(w.rest)
	w.ws = NewWebSocketAgent()
	w.top.Register(w.ws)
	w.srv = httptest.NewServer(w.ws)
	for _, e := range cs.Mocks {
		m := newVfMock(c07Endpoints[e%len(c07Endpoints)])
		w.mocks = append(w.mocks, m)
		w.mockQ = append(w.mockQ, nil)
		w.top.Register(m)
	}
	if cs.Ping >= 0 {
		p := NewPing(bpv7.MustNewEndpointID(c07Endpoints[cs.Ping%len(c07Endpoints)]))
		w.top.Register(p)
	}
	// permanent barrier clients (not part of the model)
	w.barMock = newVfMock(c07BarMock)
	w.top.Register(w.barMock)
	var resp RestRegisterResponse
	w.post("/register", RestRegisterRequest{EndpointId: c07BarRest}, &resp)
	w.barRest = resp.UUID
	conn, err := NewWebSocketAgentConnector("ws"+strings.TrimPrefix(w.srv.URL, "http"), c07BarWS)
	if err != nil {
		w.fail("c07.harness", "barrier websocket: %v", err)
	}
	w.barWS = conn
	for i := 0; i < 20000; i++ {
		ok := false
		for _, x := range w.ws.Endpoints() {
			if x.String() == c07BarWS {
				ok = true
			}
		}
		if ok {
			break
		}
		time.Sleep(100 * time.Microsecond)
	}
	return w
}

// flush waits until the multiplexers and the REST agent have completely processed everything
// delivered so far: barrier bundles to three permanent clients follow on the same paths.
func (w *c07World) flush() {
	w.seq++
	tag := fmt.Sprintf("flush-%d", w.seq)
	send := func(dest string) {
		w.seq++
		select {
		case w.top.MessageReceiver() <- BundleMessage{Bundle: c07Bundle(dest, tag, w.seq)}:
		case <-time.After(10 * time.Second):
			w.fail("c07.stuck", "the agents do not take a bundle any more (10 s)")
		}
	}
	send(c07BarRest)
	send(c07BarWS)
	send(c07BarMock)
	deadline := time.Now().Add(10 * time.Second)
	// mock: the top multiplexer has dispatched everything before
	for {
		w.barMock.mu.Lock()
		ok := len(w.barMock.got) > 0 && w.barMock.got[len(w.barMock.got)-1] == tag
		w.barMock.mu.Unlock()
		if ok {
			break
		}
		if time.Now().After(deadline) {
			w.fail("c07.stuck", "the multiplexer does not deliver any more")
		}
		time.Sleep(100 * time.Microsecond)
	}
	// REST agent: it has processed everything it took before
	for {
		found := false
		if v, ok := w.rest.mailbox.Load(w.barRest); ok {
			for _, b := range v.([]bpv7.Bundle) {
				if c07Payload(&b) == tag {
					found = true
				}
			}
		}
		if found {
			w.rest.mailbox.Delete(w.barRest)
			break
		}
		if time.Now().After(deadline) {
			w.fail("c07.stuck", "the REST agent does not process bundles any more")
		}
		time.Sleep(100 * time.Microsecond)
	}
	// WebSocket agent: its client multiplexer has dispatched everything before
	for {
		ch := make(chan string, 1)
		go func() {
			b, err := w.barWS.ReadBundle()
			if err != nil {
				ch <- "!error"
				return
			}
			ch <- c07Payload(&b)
		}()
		var p string
		select {
		case p = <-ch:
		case <-time.After(10 * time.Second):
			w.fail("c07.stuck", "the WebSocket agent does not deliver any more")
		}
		if p == tag {
			break
		}
		if p == "!error" {
			w.fail("c07.stuck", "the barrier WebSocket client lost its connection")
		}
	}
}

func (w *c07World) close() {
	verifhook.Set(nil)
	for _, c := range w.wsConn {
		c.Close()
	}
	w.closeBarriers()
	w.srv.Close()
	// (the multiplexer is not shut down: closing it while the ping agent still answers is not part of C07)
}

// deliver hands a bundle for endpoint e to the agents (what the node does for a local bundle) and updates the model.
func (w *c07World) deliver(e int, payload string) {
	w.seq++
	b := c07Bundle(c07Endpoints[e], payload, w.seq)
	select {
	case w.top.MessageReceiver() <- BundleMessage{Bundle: b}:
	case <-time.After(10 * time.Second):
		w.fail("c07.stuck", "the agents do not take a bundle any more (10 s)")
	}
	for c, ep := range w.restEP {
		if ep == e {
			w.restQ[c] = append(w.restQ[c], payload)
		}
	}
	for c, ep := range w.wsEP {
		if ep == e {
			w.wsQ[c] = append(w.wsQ[c], payload)
		}
	}
	for i, m := range w.mocks {
		if m.eid.String() == c07Endpoints[e] {
			w.mockQ[i] = append(w.mockQ[i], payload)
		}
	}
}

// settle sends one marker bundle per endpoint; every client registered for an endpoint gets
// that marker after everything delivered before, so reading up to the marker is a barrier.
func (w *c07World) settle() {
	w.seq++
	tag := fmt.Sprintf("marker-%d", w.seq)
	for e := range c07Endpoints {
		w.deliver(e, tag+"-"+c07Endpoints[e])
	}
	w.flush()
	// WebSocket clients: read until the marker
	for c, conn := range w.wsConn {
		want := tag + "-" + c07Endpoints[w.wsEP[c]]
		for {
			type res struct {
				b   bpv7.Bundle
				err error
			}
			ch := make(chan res, 1)
			go func() { b, err := conn.ReadBundle(); ch <- res{b, err} }()
			var r res
			select {
			case r = <-ch:
			case <-time.After(5 * time.Second):
				w.fail("c07.not-delivered", "WebSocket client %d (endpoint %s) did not receive the bundles delivered to its endpoint within 5 s: got %v, expected %v", c, c07Endpoints[w.wsEP[c]], w.wsGot[c], w.wsQ[c])
			}
			if r.err != nil {
				w.fail("c07.not-delivered", "WebSocket client %d lost its connection: %v", c, r.err)
			}
			p := c07Payload(&r.b)
			w.wsGot[c] = append(w.wsGot[c], p)
			if p == want {
				break
			}
		}
	}
	// mock agents
	for i, m := range w.mocks {
		want := tag + "-" + m.eid.String()
		deadline := time.After(5 * time.Second)
		for {
			m.mu.Lock()
			done := len(m.got) > 0 && m.got[len(m.got)-1] == want
			m.mu.Unlock()
			if done {
				break
			}
			select {
			case <-m.sig:
			case <-time.After(time.Millisecond):
			case <-deadline:
				w.fail("c07.not-delivered", "mock agent %d (%s) did not receive what was delivered to its endpoint within 5 s", i, m.eid)
			}
		}
	}
	// REST clients: poll their mailbox (in package) until the marker is in; then everything before it is in as well
	for c, uuid := range w.restUUID {
		want := tag + "-" + c07Endpoints[w.restEP[c]]
		deadline := time.Now().Add(5 * time.Second)
		for {
			found := false
			if v, ok := w.rest.mailbox.Load(uuid); ok {
				for _, b := range v.([]bpv7.Bundle) {
					if c07Payload(&b) == want {
						found = true
					}
				}
			}
			if found {
				break
			}
			if time.Now().After(deadline) {
				w.fail("c07.not-delivered", "REST client %d (endpoint %s) did not get the bundles delivered to its endpoint into its mailbox within 5 s; %d REST clients are registered", c, c07Endpoints[w.restEP[c]], len(w.restUUID))
			}
			time.Sleep(200 * time.Microsecond)
		}
	}
}

func (w *c07World) closeBarriers() {
	if w.barWS != nil {
		w.barWS.Close()
	}
}

func sameMultiset(a, b []string) bool {
	x := append([]string(nil), a...)
	y := append([]string(nil), b...)
	sort.Strings(x)
	sort.Strings(y)
	return fmt.Sprint(x) == fmt.Sprint(y)
}

func (w *c07World) checkAll(step string) {
	for c := range w.wsConn {
		if !sameMultiset(w.wsGot[c], w.wsQ[c]) {
			w.fail("c07.wrong-recipients", "after %s: WebSocket client %d (endpoint %s) received %v, bundles delivered to its endpoint while it was registered: %v", step, c, c07Endpoints[w.wsEP[c]], w.wsGot[c], w.wsQ[c])
		}
	}
	for i, m := range w.mocks {
		m.mu.Lock()
		got := append([]string(nil), m.got...)
		m.mu.Unlock()
		if !sameMultiset(got, w.mockQ[i]) {
			w.fail("c07.wrong-recipients", "after %s: mock agent %d (%s) received %v, delivered to its endpoint: %v", step, i, m.eid, got, w.mockQ[i])
		}
	}
	// the agents' endpoint lists decide whether the node treats a bundle as local at all
	var wantEPs []string
	for _, ep := range w.restEP {
		wantEPs = append(wantEPs, c07Endpoints[ep])
	}
	var gotEPs []string
	for _, e := range w.rest.Endpoints() {
		if e.String() != c07BarRest {
			gotEPs = append(gotEPs, e.String())
		}
	}
	if !sameMultiset(gotEPs, wantEPs) {
		w.fail("c07.endpoints", "after %s: the REST agent reports the endpoints %v, its registered clients have %v", step, gotEPs, wantEPs)
	}
}

func (w *c07World) fetch(c int, step string) {
	uuid := w.restUUID[c]
	got := w.fetchPayloads(uuid)
	if !sameMultiset(got, w.restQ[c]) {
		w.fail("c07.rest-mailbox", "after %s: REST client %d (endpoint %s) fetched %v, bundles put into its mailbox since its last fetch: %v", step, c, c07Endpoints[w.restEP[c]], got, w.restQ[c])
	}
	w.restQ[c] = nil
}

func c07Body(c *vk.Ctx, cs c07Case) {
	w := newC07World(c, &cs)
	defer w.close()
	n := 0
	for k, op := range cs.Ops {
		e := op.E % len(c07Endpoints)
		cl := op.C % 4
		step := fmt.Sprintf("#%d %s(client %d, endpoint %s)", k, op.Op, cl, c07Endpoints[e])
		switch op.Op {
		case "rest-reg":
			if _, ok := w.restUUID[cl]; ok {
				continue
			}
			w.flush() // deliveries made before the registration are completely through
			var resp RestRegisterResponse
			w.post("/register", RestRegisterRequest{EndpointId: c07Endpoints[e]}, &resp)
			if resp.Error != "" || resp.UUID == "" {
				w.fail("c07.harness", "register: %v", resp.Error)
			}
			w.restUUID[cl], w.restEP[cl] = resp.UUID, e
		case "rest-unreg":
			uuid, ok := w.restUUID[cl]
			if !ok {
				continue
			}
			w.settle()
			var resp RestUnregisterResponse
			w.post("/unregister", RestUnregisterRequest{UUID: uuid}, &resp)
			delete(w.restUUID, cl)
			delete(w.restEP, cl)
			delete(w.restQ, cl)
		case "fetch":
			if _, ok := w.restUUID[cl]; !ok {
				continue
			}
			w.trace = append(w.trace, step)
			w.settle()
			w.fetch(cl, step)
			w.checkAll(step)
			continue
		case "deliver":
			n++
			w.deliver(e, fmt.Sprintf("bundle-%d-for-%s", n, c07Endpoints[e]))
		case "ws-open":
			if _, ok := w.wsConn[cl]; ok {
				continue
			}
			w.flush() // deliveries made before the registration are completely through
			url := "ws" + strings.TrimPrefix(w.srv.URL, "http")
			conn, err := NewWebSocketAgentConnector(url, c07Endpoints[e])
			if err != nil {
				w.fail("c07.harness", "websocket connect: %v", err)
			}
			// the client is registered at the multiplexer before its endpoint is known; wait until the agent lists it
			deadline := time.Now().Add(5 * time.Second)
			for {
				cnt := 0
				for _, x := range w.ws.Endpoints() {
					if x.String() == c07Endpoints[e] {
						cnt++
					}
				}
				want := 1
				for c2, e2 := range w.wsEP {
					if e2 == e && c2 != cl {
						want++
					}
				}
				if cnt >= want {
					break
				}
				if time.Now().After(deadline) {
					w.fail("c07.endpoints", "a WebSocket client registered %s but the agent does not list the endpoint", c07Endpoints[e])
				}
				time.Sleep(200 * time.Microsecond)
			}
			w.wsConn[cl], w.wsEP[cl] = conn, e
		case "ws-close":
			conn, ok := w.wsConn[cl]
			if !ok {
				continue
			}
			w.settle()
			if !sameMultiset(w.wsGot[cl], w.wsQ[cl]) {
				w.fail("c07.wrong-recipients", "before closing: WebSocket client %d received %v, expected %v", cl, w.wsGot[cl], w.wsQ[cl])
			}
			conn.Close()
			// wait until the agent has dropped the client
			ep := w.wsEP[cl]
			delete(w.wsConn, cl)
			delete(w.wsEP, cl)
			delete(w.wsQ, cl)
			delete(w.wsGot, cl)
			deadline := time.Now().Add(5 * time.Second)
			for {
				cnt, want := 0, 0
				for _, x := range w.ws.Endpoints() {
					if x.String() == c07Endpoints[ep] {
						cnt++
					}
				}
				for _, e2 := range w.wsEP {
					if e2 == ep {
						want++
					}
				}
				if cnt <= want || time.Now().After(deadline) {
					break
				}
				time.Sleep(200 * time.Microsecond)
			}
		default:
			continue
		}
		w.trace = append(w.trace, step)
		c.Class("op=" + op.Op)
	}
	// final: everything settles, every REST client fetches, everybody has exactly its bundles
	w.settle()
	for cl := range w.restUUID {
		w.fetch(cl, "the final fetch")
	}
	w.checkAll("the end of the history")
	perEP := map[int]int{}
	for _, e := range w.restEP {
		perEP[e]++
	}
	for _, e := range w.wsEP {
		perEP[e]++
	}
	for _, m := range w.mocks {
		for i, s := range c07Endpoints {
			if s == m.eid.String() {
				perEP[i]++
			}
		}
	}
	for _, k := range perEP {
		if k >= 2 {
			c.NonTrivial()
		}
	}
	if len(w.restEP) >= 2 || len(w.wsEP) >= 2 {
		c.NonTrivial()
	}
}

func TestVerifC07Agents(t *testing.T) {
	log.SetOutput(io.Discard)
	u := vk.Unit{Property: "C07", Name: "c07.agents", Quick: 800, Thorough: 10000,
		Rule: "a real MuxAgent with the real RestAgent (HTTP handlers via httptest), the real WebSocketAgent (real WebSocket connections to an httptest server), 0..2 mock agents and optionally the PingAgent; histories of 1..16 operations over {REST register / unregister / fetch, WebSocket connect / close, deliver a bundle for one of three endpoints}; a marker bundle per endpoint serves as barrier; oracle = reference mailbox model: after every fetch and at the end the multiset each WebSocket client and mock agent received and each REST client fetched equals exactly the bundles delivered to its endpoint while it was registered, and the REST agent's endpoint list equals its clients' endpoints; non-trivial = >= 2 clients on one endpoint or >= 2 endpoints on one agent type; distinct by case hash"}
	ops := []string{"rest-reg", "rest-reg", "rest-reg", "rest-unreg", "fetch", "fetch", "deliver", "deliver", "deliver", "deliver", "ws-open", "ws-open", "ws-close"}
	vk.Check(t, u, func(t *rapid.T) c07Case {
		return c07Case{
			Mocks: rapid.SliceOfN(rapid.IntRange(0, 2), 0, 2).Draw(t, "mocks"),
			Ping:  rapid.SampledFrom([]int{-1, -1, 0, 2}).Draw(t, "ping"),
			Ops: rapid.SliceOfN(rapid.Custom(func(t *rapid.T) c07Op {
				return c07Op{Op: rapid.SampledFrom(ops).Draw(t, "op"), C: rapid.IntRange(0, 3).Draw(t, "c"), E: rapid.IntRange(0, 2).Draw(t, "e")}
			}), 1, 16).Draw(t, "ops"),
		}
	}, c07Body)
}

// ---- deliver and fetch on one mailbox at the same time, both orders forced ----

type c07RaceCase struct {
	Kind   string `json:"kind"`   // "fetch-parked" (fetch loads, delivery completes, fetch clears) or "deliver-parked"
	Before int    `json:"before"` // bundles in the mailbox beforehand
	Forced bool   `json:"forced"`
}

func c07RaceBody(c *vk.Ctx, cs c07RaceCase) {
	w := newC07World(c, &c07Case{Ping: -1})
	defer w.close()
	var resp RestRegisterResponse
	w.post("/register", RestRegisterRequest{EndpointId: c07Endpoints[0]}, &resp)
	uuid := resp.UUID
	w.restUUID[0], w.restEP[0] = uuid, 0
	var want []string
	for i := 0; i < cs.Before; i++ {
		p := fmt.Sprintf("before-%d", i)
		w.deliver(0, p)
		want = append(want, p)
	}
	w.flush()
	point := "agent.rest.fetch"
	if cs.Kind == "deliver-parked" {
		point = "agent.rest.deliver"
	}
	arrived := make(chan struct{})
	resume := make(chan struct{})
	var once sync.Once
	if cs.Forced {
		verifhook.Set(func(name string) {
			if name != point {
				return
			}
			first := false
			once.Do(func() { first = true; close(arrived) })
			if !first {
				return
			}
			select {
			case <-resume:
			case <-time.After(200 * time.Millisecond):
			}
		})
	}
	var got []string
	achieved := false
	switch cs.Kind {
	case "fetch-parked":
		done := make(chan []string, 1)
		go func() { done <- w.fetchPayloads(uuid) }()
		if cs.Forced {
			select {
			case <-arrived:
			case <-time.After(time.Second):
			}
		}
		// a bundle arrives while the fetch is between reading and clearing the mailbox
		w.seq++
		w.top.MessageReceiver() <- BundleMessage{Bundle: c07Bundle(c07Endpoints[0], "during", w.seq)}
		want = append(want, "during")
		if cs.Forced {
			dl := time.Now().Add(50 * time.Millisecond)
			for time.Now().Before(dl) {
				if v, ok := w.rest.mailbox.Load(uuid); ok {
					for _, b := range v.([]bpv7.Bundle) {
						if c07Payload(&b) == "during" {
							achieved = true
						}
					}
				}
				if achieved {
					break
				}
				time.Sleep(100 * time.Microsecond)
			}
		}
		close(resume)
		got = append(got, <-done...)
	case "response-slow":
		// a bundle arrives after the fetch has dealt with the mailbox and before its answer is written
		got = append(got, w.fetchPayloadsHooked(uuid, func() {
			w.seq++
			sent := make(chan struct{})
			go func() {
				w.top.MessageReceiver() <- BundleMessage{Bundle: c07Bundle(c07Endpoints[0], "during", w.seq)}
				close(sent)
			}()
			dl := time.Now().Add(200 * time.Millisecond)
			for time.Now().Before(dl) && !achieved {
				if v, ok := w.rest.mailbox.Load(uuid); ok {
					for _, b := range v.([]bpv7.Bundle) {
						if c07Payload(&b) == "during" {
							achieved = true
						}
					}
				}
				time.Sleep(100 * time.Microsecond)
			}
		})...)
		want = append(want, "during")
	case "deliver-parked":
		w.seq++
		w.top.MessageReceiver() <- BundleMessage{Bundle: c07Bundle(c07Endpoints[0], "during", w.seq)}
		want = append(want, "during")
		if cs.Forced {
			select {
			case <-arrived:
				achieved = true
			case <-time.After(time.Second):
			}
		}
		// the client fetches while the delivery is between reading and writing the mailbox
		got = append(got, w.fetchPayloads(uuid)...)
		close(resume)
	}
	verifhook.Set(nil)
	w.flush()
	got = append(got, w.fetchPayloads(uuid)...)
	w.flush()
	got = append(got, w.fetchPayloads(uuid)...)
	if achieved {
		c.NonTrivial()
		c.Class("interleaving achieved: " + cs.Kind)
	} else if cs.Forced {
		c.Class("interleaving not achieved (mailbox access is serialised): " + cs.Kind)
	}
	if !sameMultiset(got, want) {
		c.Failf("c07.rest-mailbox-race", "%s (forced: %v, achieved: %v): all fetches together returned %v, put into the mailbox: %v", cs.Kind, cs.Forced, achieved, got, want)
	}
}

func TestVerifC07MailboxRace(t *testing.T) {
	log.SetOutput(io.Discard)
	u := vk.Unit{Property: "C07", Name: "c07.mailbox-race",
		Rule: "one REST mailbox with 0..3 bundles; a delivery and a fetch overlap; with schedule hooks the two lost-update orders are forced (fetch reads - delivery completes - fetch clears; delivery reads - fetch completes - delivery writes) and, unforced, left to the scheduler; in a third scenario the delivery is made from inside the fetch's ResponseWriter, i.e. after the handler dealt with the mailbox and before it encodes its answer; oracle: all fetches together return every bundle put into the mailbox exactly once; non-trivial = forced interleaving achieved; distinct by case"}
	reps := 2
	if vk.Tier() == "thorough" {
		reps = 30
	}
	vk.Enumerate(t, u, false, func(yield func(c07RaceCase) bool) {
		n := 0
		for r := 0; r < reps; r++ {
			for _, k := range []string{"fetch-parked", "deliver-parked", "response-slow"} {
				for before := 0; before <= 3; before++ {
					for _, f := range []bool{true, false} {
						n++
						if !vk.ShardOwns(n) {
							continue
						}
						if !yield(c07RaceCase{Kind: k, Before: before, Forced: f}) {
							return
						}
					}
				}
			}
		}
	}, c07RaceBody)
}

// ---- agents leaving while a bundle is being handed over (multiplexer fan-out) ----

type c07MuxCase struct {
	N       int   `json:"n"`       // children, all registered for the same endpoint
	Slow    int   `json:"slow"`    // child that accepts its message only after the others have reacted
	Leave   []int `json:"leave"`   // children that close their sender while the fan-out waits for the slow child
	Bundles int   `json:"bundles"` // bundles delivered one after the other (children leave during the first)
}

// vfGatedMock accepts messages only while its gate is open.
type vfGatedMock struct {
	eid      bpv7.EndpointID
	receiver chan Message
	sender   chan Message
	gate     chan struct{}
	mu       sync.Mutex
	got      []string
	closed   bool
}

func newVfGatedMock(e string, gated bool) *vfGatedMock {
	m := &vfGatedMock{eid: bpv7.MustNewEndpointID(e), receiver: make(chan Message), sender: make(chan Message), gate: make(chan struct{})}
	if !gated {
		close(m.gate)
	}
	go func() {
		<-m.gate
		for msg := range m.receiver {
			if bm, ok := msg.(BundleMessage); ok {
				m.mu.Lock()
				m.got = append(m.got, c07Payload(&bm.Bundle))
				m.mu.Unlock()
			}
		}
		m.mu.Lock()
		m.closed = true
		m.mu.Unlock()
	}()
	return m
}
func (m *vfGatedMock) Endpoints() []bpv7.EndpointID { return []bpv7.EndpointID{m.eid} }
func (m *vfGatedMock) MessageReceiver() chan Message { return m.receiver }
func (m *vfGatedMock) MessageSender() chan Message   { return m.sender }
func (m *vfGatedMock) count(p string) int {
	m.mu.Lock()
	defer m.mu.Unlock()
	n := 0
	for _, g := range m.got {
		if g == p {
			n++
		}
	}
	return n
}

func TestVerifC07MuxLeave(t *testing.T) {
	log.SetOutput(io.Discard)
	u := vk.Unit{Property: "C07", Name: "c07.mux-leave", Quick: 600, Thorough: 6000,
		Rule: "a real MuxAgent with 3..6 mock agents registered for one endpoint; a bundle is handed over while one child (any position) accepts its message only later, and meanwhile 1..3 other children (any positions) leave by closing their sender channel, as a disconnecting WebSocket/REST client does; then the slow child accepts, and 0..2 further bundles follow. Oracle: every agent that stayed registered receives every bundle exactly once, an agent that left receives each bundle at most once, nothing panics or blocks; non-trivial = a child positioned after the slow one leaves; distinct by case hash"}
	vk.Check(t, u, func(t *rapid.T) c07MuxCase {
		n := rapid.IntRange(3, 6).Draw(t, "n")
		cs := c07MuxCase{N: n, Slow: rapid.IntRange(0, n-1).Draw(t, "slow"), Bundles: rapid.IntRange(1, 3).Draw(t, "bundles")}
		perm := rapid.Permutation(func() []int {
			var o []int
			for i := 0; i < n; i++ {
				if i != cs.Slow {
					o = append(o, i)
				}
			}
			return o
		}()).Draw(t, "perm")
		k := rapid.IntRange(1, 3).Draw(t, "k")
		if k > len(perm) {
			k = len(perm)
		}
		cs.Leave = perm[:k]
		return cs
	}, func(c *vk.Ctx, cs c07MuxCase) {
		mux := NewMuxAgent()
		var kids []*vfGatedMock
		for i := 0; i < cs.N; i++ {
			k := newVfGatedMock("dtn://node/shared", i == cs.Slow)
			kids = append(kids, k)
			mux.Register(k)
		}
		leaves := map[int]bool{}
		after := false
		for _, l := range cs.Leave {
			leaves[l] = true
			if l > cs.Slow {
				after = true
			}
		}
		if after {
			c.NonTrivial()
		}
		crashed := make(chan string, 1)
		send := func(p string, seq uint64) bool {
			done := make(chan struct{})
			go func() {
				defer close(done)
				mux.MessageReceiver() <- BundleMessage{c07Bundle("dtn://node/shared", p, seq)}
			}()
			select {
			case <-done:
				return true
			case <-time.After(10 * time.Second):
				return false
			}
		}
		_ = crashed
		if !send("mux-0", 1) {
			c.Failf("c07.mux-blocked", "the multiplexer does not take the bundle")
		}
		// the fan-out now waits for the slow child (or has passed it); the others react
		time.Sleep(2 * time.Millisecond)
		for _, l := range cs.Leave {
			close(kids[l].sender)
		}
		time.Sleep(2 * time.Millisecond)
		close(kids[cs.Slow].gate)
		for b := 1; b < cs.Bundles; b++ {
			if !send(fmt.Sprintf("mux-%d", b), uint64(1+b)) {
				c.Failf("c07.mux-blocked", "the multiplexer does not take bundle %d after %d children left during the previous hand-over", b, len(cs.Leave))
			}
		}
		// a marker through the multiplexer: when the last staying child has it, everything before is through
		var last *vfGatedMock
		for i := cs.N - 1; i >= 0; i-- {
			if !leaves[i] {
				last = kids[i]
				break
			}
		}
		if !send("mux-marker", 99) {
			c.Failf("c07.mux-blocked", "the multiplexer does not take the marker bundle")
		}
		deadline := time.Now().Add(10 * time.Second)
		for last.count("mux-marker") == 0 && time.Now().Before(deadline) {
			time.Sleep(100 * time.Microsecond)
		}
		if last.count("mux-marker") == 0 {
			c.Failf("c07.mux-blocked", "a bundle sent after the hand-over never reaches the last registered agent (multiplexer stuck or dead)")
		}
		for i, k := range kids {
			for b := 0; b < cs.Bundles; b++ {
				p := fmt.Sprintf("mux-%d", b)
				n := k.count(p)
				switch {
				case leaves[i] && n > 1:
					c.Failf("c07.duplicate-delivery", "agent %d (which left during the first hand-over) received bundle %d %d times; children %d, slow child %d, leaving %v", i, b, n, cs.N, cs.Slow, cs.Leave)
				case !leaves[i] && n != 1:
					c.Failf("c07.mux-delivery-count", "agent %d stayed registered for the endpoint but received bundle %d %d times instead of once; children %d, slow child %d, leaving %v", i, b, n, cs.N, cs.Slow, cs.Leave)
				}
			}
		}
	})
}
