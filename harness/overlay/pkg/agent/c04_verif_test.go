package agent

import (
	"strings"
	"bytes"
	"encoding/json"
	"io"
	"net/http"
	"net/http/httptest"
	"sync"
	"testing"

	"github.com/gorilla/mux"
	log "github.com/sirupsen/logrus"

	"github.com/dtn7/dtn7-go/pkg/bpv7"
	vk "github.com/dtn7/dtn7-go/pkg/verifkit"
)

// C04 (application agents) — WebSocket-agent messages and REST requests from clients.

var (
	c04RestOnce sync.Once
	c04Rest     *RestAgent
	c04Router   *mux.Router
	c04UUID     string
)

func c04RestSetup() {
	c04RestOnce.Do(func() {
		c04Router = mux.NewRouter()
		c04Rest = NewRestAgent(c04Router)
		go func() {
			for range c04Rest.MessageSender() {
			}
		}()
		body, _ := json.Marshal(RestRegisterRequest{EndpointId: "dtn://a/b"})
		rec := httptest.NewRecorder()
		c04Router.ServeHTTP(rec, httptest.NewRequest(http.MethodPost, "/register", bytes.NewReader(body)))
		var resp RestRegisterResponse
		_ = json.Unmarshal(rec.Body.Bytes(), &resp)
		c04UUID = resp.UUID
	})
}

func c04Post(path string, body []byte) string {
	c04RestSetup()
	rec := httptest.NewRecorder()
	c04Router.ServeHTTP(rec, httptest.NewRequest(http.MethodPost, path, bytes.NewReader(body)))
	if rec.Code != 200 {
		return "http error"
	}
	return "answered"
}

func TestVerifChild(t *testing.T) {
	log.SetOutput(io.Discard)
	vk.ChildMain(t, map[string]vk.Target{
		"wam": func(in []byte) string {
			if _, err := unmarshalCbor(bytes.NewReader(in)); err != nil {
				return "rejected"
			}
			return "accepted"
		},
		"rest-build": func(in []byte) string {
			c04RestSetup()
			// the request body: {"uuid": <registered>, "arguments": <input>}
			body := append([]byte(`{"uuid":"`+c04UUID+`","arguments":`), in...)
			body = append(body, '}')
			return c04Post("/build", body)
		},
		"rest-raw": func(in []byte) string {
			if len(in) == 0 {
				return "empty"
			}
			paths := []string{"/register", "/unregister", "/fetch", "/build"}
			return c04Post(paths[int(in[0])%4], in[1:])
		},
	})
}

func TestVerifC04Wam(t *testing.T) {
	if vk.IsChild() {
		t.Skip()
	}
	b, _ := bpv7.Builder().CRC(bpv7.CRC32).Source("dtn://src/app").Destination("dtn://dst/app").CreationTimestampNow().Lifetime("1h").
		HopCountBlock(30).PayloadBlock([]byte("payload of the bundle")).Build()
	var seeds [][]byte
	for _, m := range []webAgentMessage{newStatusMessage(nil), newRegisterMessage("dtn://a/b"), newBundleMessage(b), newSyscallRequestMessage("node_id"), newSyscallResponseMessage("node_id", []byte("dtn://x/"))} {
		var buf bytes.Buffer
		_ = marshalCbor(m, &buf)
		seeds = append(seeds, buf.Bytes())
	}
	cases := vk.C04Inputs(seeds, true)
	vk.RunC04(t, vk.C04Spec{Target: "wam", Unit: vk.Unit{Property: "C04", Name: "c04.wam",
		Rule: "WebSocket-agent unmarshalCbor on the five message kinds (incl. one carrying a bundle) with every CBOR head at the 11 boundary values and every truncation; in child processes; violation = process death, panic, hang, allocation > 4 MiB + 256 x len(input); distinct by input hash"}}, cases)
}

func TestVerifC04Rest(t *testing.T) {
	if vk.IsChild() {
		t.Skip()
	}
	keys := []string{"destination", "source", "report_to", "creation_timestamp_epoch", "creation_timestamp_now", "creation_timestamp_time", "lifetime",
		"bundle_ctrl_flags", "canonical", "bundle_age_block", "hop_count_block", "payload_block", "previous_node_block", "unknown_key"}
	vals := []string{`null`, `true`, `false`, `0`, `-1`, `1.5`, `1e308`, `18446744073709551616`, `""`, `"dtn://a/b"`, `"1h"`, `"x"`, `[]`, `[1,2,3]`, `[null]`, `{}`, `{"a":null}`, `[[[[]]]]`}
	var cases []vk.C04Case
	base := `"source":"dtn://a/b","destination":"dtn://c/d","creation_timestamp_now":true,"lifetime":"1h","payload_block":"x"`
	for _, k := range keys {
		for _, v := range vals {
			cases = append(cases, vk.C04Case{Target: "rest-build", Class: "build: single key", Input: []byte(`{"` + k + `":` + v + `}`)})
			cases = append(cases, vk.C04Case{Target: "rest-build", Class: "build: valid request + key", Input: []byte(`{` + base + `,"` + k + `":` + v + `}`)})
		}
	}
	for _, v := range vals {
		cases = append(cases, vk.C04Case{Target: "rest-build", Class: "build: arguments of another JSON type", Input: []byte(v)})
	}
	// every subset of the keys of a valid, rich request (incomplete requests: no payload, no lifetime, ...)
	pairs := []string{`"source":"dtn://a/b"`, `"destination":"dtn://c/d"`, `"report_to":"dtn://a/r"`, `"creation_timestamp_now":true`, `"lifetime":"1h"`,
		`"payload_block":"x"`, `"hop_count_block":30`, `"bundle_age_block":0`}
	for m := 0; m < 1<<len(pairs); m++ {
		var sel []string
		for i, p := range pairs {
			if m&(1<<i) != 0 {
				sel = append(sel, p)
			}
		}
		cases = append(cases, vk.C04Case{Target: "rest-build", Class: "build: subset of a valid request", Input: []byte("{" + strings.Join(sel, ",") + "}")})
	}
	vk.RunC04(t, vk.C04Spec{Target: "rest-build", Unit: vk.Unit{Property: "C04", Name: "c04.rest-build",
		Rule: "POST /rest/build through the RestAgent's HTTP handler (httptest) for a registered client: 'arguments' with every documented key x values of every JSON type, alone and added to a valid request, every subset of the keys of a valid request, and non-object arguments; in child processes; violation = process death, panic escaping the handler, hang, allocation > 4 MiB + 256 x len(input); distinct by input hash"}}, cases)
}

func TestVerifC04RestRaw(t *testing.T) {
	if vk.IsChild() {
		t.Skip()
	}
	bodies := []string{``, `{`, `}`, `null`, `[]`, `0`, `"x"`, `{"endpoint_id":null}`, `{"endpoint_id":5}`, `{"endpoint_id":"dtn://a/b"}`, `{"endpoint_id":"ipn:0.0"}`, `{"endpoint_id":""}`,
		`{"uuid":null}`, `{"uuid":5}`, `{"uuid":"x"}`, `{"uuid":"x","arguments":null}`, `{"uuid":"x","arguments":[]}`, `{"uuid":{},"arguments":{}}`, `{"endpoint_id":"` + string(bytes.Repeat([]byte("a"), 60000)) + `"}`,
		string(bytes.Repeat([]byte("["), 60000)), string(bytes.Repeat([]byte(`{"a":`), 10000))}
	var cases []vk.C04Case
	for p := 0; p < 4; p++ {
		for _, b := range bodies {
			cases = append(cases, vk.C04Case{Class: "raw request body", Input: append([]byte{byte(p)}, b...)})
		}
	}
	vk.RunC04(t, vk.C04Spec{Target: "rest-raw", Unit: vk.Unit{Property: "C04", Name: "c04.rest-raw",
		Rule: "POST /register, /unregister, /fetch, /build with malformed, wrongly typed, deeply nested and 60 KB bodies through the RestAgent's HTTP handler; in child processes; violation as c04.rest-build; distinct by input hash"}}, cases)
}

func FuzzVerifC04Wam(f *testing.F) {
	var seeds [][]byte
	for _, m := range []webAgentMessage{newStatusMessage(nil), newRegisterMessage("dtn://a/b"), newSyscallRequestMessage("node_id"), newSyscallResponseMessage("node_id", []byte("dtn://x/"))} {
		var buf bytes.Buffer
		_ = marshalCbor(m, &buf)
		seeds = append(seeds, buf.Bytes())
	}
	vk.FuzzC04(f, "wam", func(in []byte) string {
		if _, err := unmarshalCbor(bytes.NewReader(in)); err != nil {
			return "rejected"
		}
		return "accepted"
	}, 4<<20, seeds)
}
