package agent

import (
	"bytes"
	"io"
	"reflect"
	"testing"

	"github.com/dtn7/dtn7-go/pkg/bpv7"
	vk "github.com/dtn7/dtn7-go/pkg/verifkit"
	"pgregory.net/rapid"
)

// C17 (WebSocket agent part) — the five agent message kinds round-trip and stay aligned.

type vfWam struct {
	Kind   int    `json:"kind"`
	Text   string `json:"text"`
	BinLen int    `json:"binlen"`
	Seed   uint64 `json:"seed"`
	Pay    int    `json:"pay"`
}

func (m vfWam) build() (webAgentMessage, error) {
	switch m.Kind {
	case 0:
		return &wamStatus{m.Text}, nil
	case 1:
		return newRegisterMessage(m.Text), nil
	case 2:
		b, err := bpv7.Builder().CRC(bpv7.CRC32).Source("dtn://src/app").Destination("dtn://dst/app").CreationTimestampNow().Lifetime("1h").
			HopCountBlock(30).PayloadBlock(vk.PayloadBytes(m.Pay, m.Seed)).Build()
		if err != nil {
			return nil, err
		}
		// normalise through the wire form, so that cached CRC fields are comparable
		var buf bytes.Buffer
		if err := b.WriteBundle(&buf); err != nil {
			return nil, err
		}
		b2, err := bpv7.ParseBundle(&buf)
		if err != nil {
			return nil, err
		}
		return newBundleMessage(b2), nil
	case 3:
		return newSyscallRequestMessage(m.Text), nil
	default:
		return newSyscallResponseMessage(m.Text, vk.PayloadBytes(m.BinLen, m.Seed)), nil
	}
}

func vfWamNorm(w webAgentMessage) webAgentMessage {
	if r, ok := w.(*wamSyscallResponse); ok && len(r.response) == 0 {
		c := *r
		c.response = nil
		return &c
	}
	return w
}

func TestVerifC17Wam(t *testing.T) {
	u := vk.Unit{Property: "C17", Name: "c17.wam", Quick: 3000, Thorough: 150000,
		Rule: "1..8 WebSocket-agent messages (status, register, bundle, syscall request, syscall response; texts of length 0/1/23/24/255/256/65535/65536, binary of the same lengths, bundles with payload 0..70000) marshalled into one buffer + sentinel and read back with unmarshalCbor; equal values, reader ends at the sentinel; unknown type codes are rejected; non-trivial = >= 2 messages; distinct by case hash"}
	lens := []int{0, 1, 23, 24, 255, 256, 65535, 65536}
	vk.Check(t, u, func(t *rapid.T) []vfWam {
		return rapid.SliceOfN(rapid.Custom(func(t *rapid.T) vfWam {
			m := vfWam{Kind: rapid.IntRange(0, 4).Draw(t, "kind"), Seed: rapid.Uint64Range(0, 999).Draw(t, "seed")}
			n := rapid.OneOf(rapid.SampledFrom(lens), rapid.IntRange(0, 40)).Draw(t, "tlen")
			m.Text = string(bytes.Map(func(r rune) rune { return 'a' + r%26 }, vk.PayloadBytes(n, m.Seed)))
			m.BinLen = rapid.OneOf(rapid.SampledFrom(lens), rapid.IntRange(0, 40)).Draw(t, "blen")
			m.Pay = rapid.OneOf(rapid.SampledFrom([]int{0, 1, 23, 24, 255, 256, 65535, 65536, 70000}), rapid.IntRange(0, 100)).Draw(t, "pay")
			return m
		}), 1, 8).Draw(t, "msgs")
	}, func(c *vk.Ctx, ms []vfWam) {
		if len(ms) >= 2 {
			c.NonTrivial()
		}
		var buf bytes.Buffer
		var want []webAgentMessage
		for _, m := range ms {
			w, err := m.build()
			if err != nil {
				c.Failf("c17.harness", "cannot build message: %v", err)
			}
			want = append(want, w)
			c.Classf("kind=%d", m.Kind)
			if err := marshalCbor(w, &buf); err != nil {
				c.Failf("c17.marshal-error", "marshalCbor kind %d: %v", m.Kind, err)
			}
		}
		buf.WriteByte(0xA5)
		r := bytes.NewReader(buf.Bytes())
		for i, w := range want {
			got, err := unmarshalCbor(r)
			if err != nil {
				c.Failf("c17.decode-error", "message %d (kind %d) cannot be read back: %v", i, ms[i].Kind, err)
			}
			if got.typeCode() != w.typeCode() || !reflect.DeepEqual(vfWamNorm(got), vfWamNorm(w)) {
				c.Failf("c17.roundtrip-differs", "message %d (kind %d) differs after round trip", i, ms[i].Kind)
			}
		}
		if rest, _ := io.ReadAll(r); !bytes.Equal(rest, []byte{0xA5}) {
			c.Failf("c17.misaligned", "after %d messages %d bytes remain instead of the sentinel", len(want), len(rest))
		}
		// unknown type codes
		for _, code := range []uint64{5, 6, 23, 24, 255, 1 << 32} {
			var e vk.Enc
			e.Arr(2).Uint(code).Tstr("x")
			if m, err := unmarshalCbor(bytes.NewReader(e.B)); err == nil {
				c.Failf("c17.invalid-accepted", "agent message with type code %d is accepted as %T", code, m)
			}
		}
	})
}
