package storage

import (
	"bytes"
	"fmt"
	"io"
	"os"
	"testing"
	"time"

	log "github.com/sirupsen/logrus"

	"github.com/dtn7/dtn7-go/pkg/bpv7"
	vk "github.com/dtn7/dtn7-go/pkg/verifkit"
	"pgregory.net/rapid"
)

// C10 (store side) — the store's completeness test and Load agree with an independent coverage
// computation for any collection of fragments pushed in any order.

type c10StoreCase struct {
	K     int   `json:"k"`
	Picks []int `json:"picks"` // indices into the fragment pool of bundle K
}

type c10PoolEntry struct {
	b      bpv7.Bundle
	off, n uint64
	level  int
}

var c10Pools [c08Bases][]c10PoolEntry

func c10Pool(k int) []c10PoolEntry {
	if c10Pools[k] != nil {
		return c10Pools[k]
	}
	if c08ThePool == nil {
		c08ThePool = c08MakePool(time.Now())
	}
	var out []c10PoolEntry
	for f := 0; f < 3; f++ {
		for _, fr := range c08ThePool.frags[k][f] {
			off, n := fragInfo(&fr)
			out = append(out, c10PoolEntry{fr, off, n, 1})
		}
	}
	// second level: every first-level fragment of fragmentation 0 is cut again
	for _, fr := range c08ThePool.frags[k][0] {
		e := enc(&fr)
		_, n := fragInfo(&fr)
		if n < 40 {
			continue
		}
		subs, err := fr.Fragment(len(e) - int(n) + int(n)/2 + 6)
		if err != nil || len(subs) < 2 {
			continue
		}
		for _, s := range subs {
			off, m := fragInfo(&s)
			out = append(out, c10PoolEntry{s, off, m, 2})
		}
	}
	c10Pools[k] = out
	return out
}

func TestVerifC10Store(t *testing.T) {
	log.SetOutput(io.Discard)
	u := vk.Unit{Property: "C10", Name: "c10.store", Quick: 500, Thorough: 30000,
		Rule: "1..12 fragments drawn with repetition from three fragmentations (different limits) of one bundle and from second-level fragments are pushed to a real store in the drawn order; after EVERY push the record's IsComplete must equal an independent interval-union coverage of the fragments pushed so far, every listed part must load byte-identically to a pushed fragment, and once complete Load must return a bundle that serialises byte-identically to the original; non-trivial = the pushed collection contains an overlap or a second-level fragment and becomes complete; distinct by case hash"}
	vk.Check(t, u, func(t *rapid.T) c10StoreCase {
		k := rapid.IntRange(0, c08Bases-1).Draw(t, "k")
		n := len(c10Pool(k))
		mode := rapid.IntRange(0, 2).Draw(t, "mode")
		cs := c10StoreCase{K: k}
		switch mode {
		case 0: // anything
			cs.Picks = rapid.SliceOfN(rapid.IntRange(0, n-1), 1, 12).Draw(t, "picks")
		default: // one complete fragmentation, permuted, plus extras in between
			f := rapid.IntRange(0, 2).Draw(t, "f")
			start := 0
			for g := 0; g < f; g++ {
				start += len(c08ThePool.frags[k][g])
			}
			var base []int
			for i := range c08ThePool.frags[k][f] {
				base = append(base, start+i)
			}
			base = append(base, rapid.SliceOfN(rapid.IntRange(0, n-1), 0, 4).Draw(t, "extra")...)
			cs.Picks = rapid.Permutation(base).Draw(t, "perm")
		}
		return cs
	}, func(c *vk.Ctx, cs c10StoreCase) {
		pool := c10Pool(cs.K)
		dir := c08Scratch()
		defer os.RemoveAll(dir)
		s, err := NewStore(dir)
		if err != nil {
			c.Failf("c10.harness", "NewStore: %v", err)
		}
		defer s.Close()
		total := uint64(len(c08ThePool.payload[cs.K]))
		var pushed []c08Part
		pushedEnc := map[string]bool{}
		overlap, second, completed := false, false, false
		var trace []string
		for step, pi := range cs.Picks {
			e := pool[pi%len(pool)]
			trace = append(trace, fmt.Sprintf("push [%d,%d) level %d", e.off, e.off+e.n, e.level))
			if err := s.Push(e.b); err != nil {
				c.Failf("c10.store-push-error", "Push of fragment [%d,%d): %v\nhistory: %v", e.off, e.off+e.n, err, trace)
			}
			for _, p := range pushed {
				if e.off < p.off+p.n && p.off < e.off+e.n {
					overlap = true
				}
			}
			if e.level == 2 {
				second = true
			}
			pushed = append(pushed, c08Part{e.off, e.n, nil})
			pushedEnc[string(enc(&e.b))] = true
			bi, err := s.QueryId(c08ThePool.base[cs.K].ID())
			if err != nil {
				c.Failf("c10.store-lookup", "after push %d the record cannot be found: %v\nhistory: %v", step, err, trace)
			}
			for _, part := range bi.Parts {
				pb, err := part.Load()
				if err != nil {
					c.Failf("c10.store-part-unreadable", "a listed part [%d,+%d) does not load: %v\nhistory: %v", part.FragmentOffset, part.PayloadLength, err, trace)
				}
				if !pushedEnc[string(enc(&pb))] {
					off, n := fragInfo(&pb)
					c.Failf("c10.store-part-differs", "the part listed as [%d,+%d) loads as a fragment [%d,%d) that was never pushed in this form\nhistory: %v", part.FragmentOffset, part.PayloadLength, off, off+n, trace)
				}
			}
			want := c08Covers(pushed, total)
			got := bi.IsComplete()
			if want != got {
				c.Failf("c10.store-completeness", "after push %d: the pushed fragments cover the payload = %v, IsComplete = %v\nhistory: %v", step, want, got, trace)
			}
			if want {
				completed = true
				b, err := bi.Load()
				if err != nil {
					c.Failf("c10.store-load-error", "complete record does not load: %v\nhistory: %v", err, trace)
				}
				if !bytes.Equal(enc(&b), c08ThePool.enc[cs.K]) {
					c.Failf("c10.store-load-differs", "the bundle loaded from a complete record differs from the original\nhistory: %v", trace)
				}
			} else if _, err := bi.Load(); err == nil {
				c.Failf("c10.store-load-incomplete", "Load of an incomplete record returns a bundle instead of an error\nhistory: %v", trace)
			}
		}
		if completed && (overlap || second) {
			c.NonTrivial()
		}
		if overlap {
			c.Class("overlapping fragments")
		}
		if second {
			c.Class("second-level fragment")
		}
		if completed {
			c.Class("became complete")
		}
	})
}
