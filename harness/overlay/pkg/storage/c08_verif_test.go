package storage

import (
	"bufio"
	"bytes"
	"encoding/hex"
	"encoding/json"
	"fmt"
	"io"
	"os"
	"os/exec"
	"sort"
	"strconv"
	"strings"
	"sync"
	"syscall"
	"testing"
	"time"

	"github.com/dtn7/dtn7-go/pkg/verifhook"

	log "github.com/sirupsen/logrus"

	"github.com/dtn7/dtn7-go/pkg/bpv7"
	vk "github.com/dtn7/dtn7-go/pkg/verifkit"
	"pgregory.net/rapid"
)

// C08 — the bundle store behaves like a durable map and survives restarts and crashes.

const c08Bases = 4

type c08Op struct {
	Op    string `json:"op"` // push, frag, pending, prop, expire, delete, sweep, reopen
	K     int    `json:"k"`
	F     int    `json:"f,omitempty"`
	I     int    `json:"i,omitempty"`
	Flag  bool   `json:"flag,omitempty"`
	Shift int    `json:"shift,omitempty"`
}

type c08Pool struct {
	base    [c08Bases]bpv7.Bundle
	enc     [c08Bases][]byte
	payload [c08Bases][]byte
	frags   [c08Bases][3][]bpv7.Bundle
}

func enc(b *bpv7.Bundle) []byte {
	var buf bytes.Buffer
	if err := b.WriteBundle(&buf); err != nil {
		panic(err)
	}
	return buf.Bytes()
}

func c08MakePool(t0 time.Time) *c08Pool {
	p := &c08Pool{}
	for k := 0; k < c08Bases; k++ {
		p.payload[k] = vk.PayloadBytes(240+k*17, uint64(k+1))
		b, err := bpv7.Builder().CRC(bpv7.CRC32).Source(fmt.Sprintf("dtn://src%d/app", k)).Destination("dtn://dst/app").
			CreationTimestampTime(t0.Add(-time.Duration(k+1) * time.Second)).Lifetime("1h").BundleCtrlFlags(0).
			HopCountBlock(30).PayloadBlock(p.payload[k]).Build()
		if err != nil {
			panic(err)
		}
		p.base[k] = b
		p.enc[k] = enc(&b)
		over := len(p.enc[k]) - len(p.payload[k])
		for f, chunk := range []int{130, 90, 64} {
			frs, err := b.Fragment(over + 40 + chunk)
			if err != nil || len(frs) < 2 {
				panic(fmt.Sprintf("pool fragmentation failed: %v (%d)", err, len(frs)))
			}
			p.frags[k][f] = frs
		}
	}
	return p
}

type c08Part struct {
	off, n uint64
	enc    []byte
}

type c08Rec struct {
	exists     bool
	fragmented bool
	parts      []c08Part
	pending    bool
	prop       int
	hasProp    bool
	expires    time.Time
}

type c08World struct {
	modelOnly bool
	c         *vk.Ctx
	dir       string
	s         *Store
	pool      *c08Pool
	model     [c08Bases]c08Rec
	stale     [c08Bases]*BundleItem // the item as a caller fetched it before the record was deleted / swept
	trace     []string
}

func (w *c08World) fail(tag, format string, a ...interface{}) {
	if w.c == nil {
		panic(fmt.Sprintf("[%s] %s", tag, fmt.Sprintf(format, a...)))
	}
	w.c.Failf(tag, "%s\nhistory: %v", fmt.Sprintf(format, a...), w.trace)
}

func c08Covers(parts []c08Part, total uint64) bool {
	cov := make([]bool, total)
	for _, p := range parts {
		for i := p.off; i < p.off+p.n && i < total; i++ {
			cov[i] = true
		}
	}
	for _, v := range cov {
		if !v {
			return false
		}
	}
	return true
}

func fragInfo(b *bpv7.Bundle) (off, n uint64) {
	pb, _ := b.PayloadBlock()
	return b.PrimaryBlock.FragmentOffset, uint64(len(pb.Value.(*bpv7.PayloadBlock).Data()))
}

// apply performs one operation on the store and on the model. It returns false if the operation was skipped.
func (w *c08World) apply(op c08Op) bool {
	k := op.K % c08Bases
	if k < 0 {
		k = -k
	}
	m := &w.model[k]
	id := w.pool.base[k].ID()
	switch op.Op {
	case "push":
		if m.exists && m.fragmented {
			return false // a whole bundle pushed onto a fragment record: not covered by the statement
		}
		if !w.modelOnly {
			if err := w.s.Push(w.pool.base[k]); err != nil {
				w.fail("c08.push-error", "Push(bundle %d): %v", k, err)
			}
		}
		if !m.exists {
			*m = c08Rec{exists: true, parts: []c08Part{{0, uint64(len(w.pool.payload[k])), w.pool.enc[k]}}, expires: calcExpirationDate(w.pool.base[k])}
		}
	case "frag":
		frs := w.pool.frags[k][op.F%3]
		fr := frs[op.I%len(frs)]
		if !w.modelOnly {
			if err := w.s.Push(fr); err != nil {
				w.fail("c08.push-error", "Push(fragment): %v", err)
			}
		}
		off, n := fragInfo(&fr)
		switch {
		case !m.exists:
			*m = c08Rec{exists: true, fragmented: true, parts: []c08Part{{off, n, enc(&fr)}}, expires: calcExpirationDate(fr)}
		case !m.fragmented:
			// the whole bundle is already there
		default:
			known := false
			for _, p := range m.parts {
				if p.off == off && p.n == n {
					known = true
				}
			}
			if !known {
				m.parts = append(m.parts, c08Part{off, n, enc(&fr)})
			}
		}
	case "pending", "prop", "expire":
		if !m.exists {
			return false
		}
		var bi BundleItem
		if !w.modelOnly {
			var err error
			if bi, err = w.s.QueryId(id); err != nil {
				w.fail("c08.lost-record", "record %d cannot be queried for an update: %v", k, err)
			}
		} else {
			bi.Properties = map[string]interface{}{}
		}
		switch op.Op {
		case "pending":
			bi.Pending, m.pending = op.Flag, op.Flag
		case "prop":
			bi.Properties["verif/k"] = op.Shift
			m.prop, m.hasProp = op.Shift, true
		case "expire":
			h := 2
			if op.Shift%2 == 0 {
				h = -2
			}
			bi.Expires = time.Now().Add(time.Duration(h) * time.Hour)
			m.expires = bi.Expires
		}
		if !w.modelOnly {
			if err := w.s.Update(bi); err != nil {
				w.fail("c08.update-error", "Update(record %d): %v", k, err)
			}
		}
	case "staleupdate":
		// a caller that fetched the item before it was deleted writes its copy back afterwards
		// (routing's BundleDescriptor.Sync does exactly this); the record must stay deleted
		if w.modelOnly || m.exists || w.stale[k] == nil {
			return false
		}
		bi := *w.stale[k]
		bi.Pending = op.Flag
		_ = w.s.Update(bi) // an error is the expected answer; the lookup below is the oracle
	case "delete":
		if !w.modelOnly && m.exists {
			if bi, err := w.s.QueryId(id); err == nil {
				w.stale[k] = &bi
			}
		}
		if !w.modelOnly {
			if err := w.s.Delete(id); err != nil {
				w.fail("c08.delete-error", "Delete(record %d): %v", k, err)
			}
		}
		*m = c08Rec{}
	case "sweep":
		if !w.modelOnly {
			now := time.Now()
			for i := range w.model {
				if w.model[i].exists && w.model[i].expires.Before(now) {
					if bi, err := w.s.QueryId(w.pool.base[i].ID()); err == nil {
						w.stale[i] = &bi
					}
				}
			}
			w.s.DeleteExpired()
		}
		now := time.Now()
		for i := range w.model {
			if w.model[i].exists && w.model[i].expires.Before(now) {
				w.model[i] = c08Rec{}
			}
		}
	case "reopen":
		if w.modelOnly {
			return true
		}
		if err := w.s.Close(); err != nil {
			w.fail("c08.close-error", "Close: %v", err)
		}
		s, err := NewStore(w.dir)
		if err != nil {
			w.fail("c08.reopen-error", "NewStore on the same directory fails: %v", err)
		}
		w.s = s
	default:
		return false
	}
	return true
}

// check compares every observable of the store with the model.
func (w *c08World) check(step string) {
	var wantPending []string
	for k := 0; k < c08Bases; k++ {
		m := &w.model[k]
		id := w.pool.base[k].ID()
		bi, err := w.s.QueryId(id)
		knows := w.s.KnowsBundle(id)
		if m.exists != (err == nil) || m.exists != knows {
			w.fail("c08.lookup", "after %s: record %d exists in the model = %v, QueryId error = %v, KnowsBundle = %v", step, k, m.exists, err, knows)
		}
		if !m.exists {
			continue
		}
		if m.pending {
			wantPending = append(wantPending, bi.Id)
		}
		if bi.Pending != m.pending {
			w.fail("c08.metadata", "after %s: record %d has Pending=%v, want %v", step, k, bi.Pending, m.pending)
		}
		if v, ok := bi.Properties["verif/k"]; ok != m.hasProp || (ok && v.(int) != m.prop) {
			w.fail("c08.metadata", "after %s: record %d has property %v (%v), want %v (%v)", step, k, v, ok, m.prop, m.hasProp)
		}
		if bi.Fragmented != m.fragmented {
			w.fail("c08.metadata", "after %s: record %d Fragmented=%v, want %v", step, k, bi.Fragmented, m.fragmented)
		}
		// parts: each distinct fragment once, byte-identical
		var got, want []string
		for _, p := range bi.Parts {
			b, err := p.Load()
			if err != nil {
				w.fail("c08.part-unreadable", "after %s: a part of record %d does not load: %v", step, k, err)
			}
			got = append(got, string(enc(&b)))
		}
		for _, p := range m.parts {
			want = append(want, string(p.enc))
		}
		sort.Strings(got)
		sort.Strings(want)
		if len(got) != len(want) {
			w.fail("c08.parts", "after %s: record %d holds %d parts, %d distinct fragments were pushed", step, k, len(got), len(want))
		}
		for i := range got {
			if got[i] != want[i] {
				w.fail("c08.parts", "after %s: record %d: a stored part does not read back byte-identical to what was pushed", step, k)
			}
		}
		// completeness
		if m.fragmented {
			total := uint64(len(w.pool.payload[k]))
			cov := c08Covers(m.parts, total)
			if bi.IsComplete() != cov {
				w.fail("c08.completeness", "after %s: record %d IsComplete()=%v, the pushed fragments cover the payload: %v", step, k, bi.IsComplete(), cov)
			}
			if cov {
				b, err := bi.Load()
				if err != nil {
					w.fail("c08.completeness", "after %s: complete record %d does not load: %v", step, k, err)
				}
				pb, _ := b.PayloadBlock()
				if !bytes.Equal(pb.Value.(*bpv7.PayloadBlock).Data(), w.pool.payload[k]) {
					w.fail("c08.completeness", "after %s: record %d reassembles to a different payload", step, k)
				}
			}
		} else if !bi.IsComplete() {
			w.fail("c08.completeness", "after %s: whole bundle %d is reported incomplete", step, k)
		}
	}
	bis, err := w.s.QueryPending()
	if err != nil {
		w.fail("c08.pending", "QueryPending: %v", err)
	}
	var gotPending []string
	for _, bi := range bis {
		gotPending = append(gotPending, bi.Id)
	}
	sort.Strings(gotPending)
	sort.Strings(wantPending)
	if fmt.Sprint(gotPending) != fmt.Sprint(wantPending) {
		w.fail("c08.pending", "after %s: QueryPending returns %v, flagged pending are %v", step, gotPending, wantPending)
	}
}

func c08Scratch() string {
	base := os.Getenv("VERIF_SCRATCH")
	if base == "" {
		base = os.TempDir()
	}
	d, err := os.MkdirTemp(base, "vfc08-")
	if err != nil {
		panic(err)
	}
	return d
}

var c08ThePool *c08Pool

func c08Run(c *vk.Ctx, ops []c08Op) {
	if c08ThePool == nil {
		c08ThePool = c08MakePool(time.Now())
	}
	dir := c08Scratch()
	defer os.RemoveAll(dir)
	s, err := NewStore(dir)
	if err != nil {
		c.Failf("c08.harness", "NewStore: %v", err)
	}
	w := &c08World{c: c, dir: dir, s: s, pool: c08ThePool}
	defer func() { _ = w.s.Close() }()
	afterDelete, nt := false, false
	for i, op := range ops {
		step := fmt.Sprintf("#%d %s(%d,%d,%d)", i, op.Op, op.K%c08Bases, op.F%3, op.I)
		if !w.apply(op) {
			continue
		}
		w.trace = append(w.trace, step)
		c.Class("op=" + op.Op)
		if afterDelete {
			nt = true
		}
		if op.Op == "delete" || op.Op == "sweep" {
			afterDelete = true
		}
		if op.Op == "reopen" {
			for k := range w.model {
				if w.model[k].exists {
					nt = true
				}
			}
		}
		w.check(step)
	}
	if nt {
		c.NonTrivial()
	}
}

func genC08(t *rapid.T) []c08Op {
	ops := []string{"push", "push", "frag", "frag", "frag", "frag", "pending", "prop", "expire", "delete", "delete", "staleupdate", "staleupdate", "sweep", "reopen"}
	return rapid.SliceOfN(rapid.Custom(func(t *rapid.T) c08Op {
		return c08Op{Op: rapid.SampledFrom(ops).Draw(t, "op"), K: rapid.IntRange(0, c08Bases-1).Draw(t, "k"), F: rapid.IntRange(0, 2).Draw(t, "f"),
			I: rapid.IntRange(0, 7).Draw(t, "i"), Flag: rapid.Bool().Draw(t, "flag"), Shift: rapid.IntRange(0, 9).Draw(t, "shift")}
	}), 1, 16).Draw(t, "ops")
}

func TestVerifC08Histories(t *testing.T) {
	log.SetOutput(io.Discard)
	u := vk.Unit{Property: "C08", Name: "c08.histories", Quick: 400, Thorough: 6000,
		Rule: "histories of 1..16 operations over {push bundle, push fragment (of 3 fragmentations with different limits of 4 base bundles -> duplicates and overlaps), update pending flag / a property / expiry (+-2 h), delete, expiry sweep, write-back of an item fetched before its record was deleted or swept, close+reopen} on a real store (badger on tmpfs); after every step every observable (QueryId, KnowsBundle, each part loaded and re-serialised, Pending, properties, QueryPending, IsComplete, reassembled payload) is compared with an in-memory reference map; non-trivial = a delete or sweep followed by further steps, or a reopen with >= 1 record; distinct by case hash"}
	vk.Check(t, u, genC08, c08Run)
}

// ---------------------------------------------------------------------------------------
// crash points: a child process performs a history and is killed at an instrumented point

type c08Dump struct {
	OpenErr string `json:"open_err,omitempty"`
	Recs    [c08Bases]struct {
		Exists     bool     `json:"exists"`
		Pending    bool     `json:"pending"`
		Fragmented bool     `json:"fragmented"`
		Prop       int      `json:"prop"`
		HasProp    bool     `json:"has_prop"`
		Parts      []string `json:"parts"` // hex of each part's re-serialisation
		LoadErr    string   `json:"load_err,omitempty"`
		Complete   bool     `json:"complete"`
	} `json:"recs"`
	PendingIds []string `json:"pending_ids"`
	FollowUp   string   `json:"follow_up,omitempty"` // error text of the follow-up push/delete of another record
}

func c08ChildPool() *c08Pool {
	ms, _ := strconv.ParseInt(os.Getenv("VERIF_C08_T0"), 10, 64)
	return c08MakePool(time.Unix(0, ms*int64(time.Millisecond)))
}

func c08FollowUpBundle() bpv7.Bundle {
	b, err := bpv7.Builder().CRC(bpv7.CRC32).Source("dtn://followup/app").Destination("dtn://dst/app").CreationTimestampNow().Lifetime("1h").
		PayloadBlock([]byte("follow-up bundle")).Build()
	if err != nil {
		panic(err)
	}
	return b
}

// TestVerifC08CrashChild is the child side: mode "run" performs a history with a crash
// point armed, mode "verify" reopens the directory and dumps what the store reports.
func TestVerifC08CrashChild(t *testing.T) {
	mode := os.Getenv("VERIF_C08_MODE")
	if mode == "" {
		t.Skip("not a child")
	}
	log.SetOutput(io.Discard)
	out := bufio.NewWriter(os.Stdout)
	say := func(format string, a ...interface{}) { fmt.Fprintf(out, "VF8 "+format+"\n", a...); out.Flush() }
	dir := os.Getenv("VERIF_C08_DIR")
	pool := c08ChildPool()
	switch mode {
	case "run":
		var ops []c08Op
		if err := json.Unmarshal([]byte(os.Getenv("VERIF_C08_OPS")), &ops); err != nil {
			say("ERROR %v", err)
			os.Exit(3)
		}
		point := os.Getenv("VERIF_C08_POINT")
		occ, _ := strconv.Atoi(os.Getenv("VERIF_C08_OCC"))
		counts := map[string]int{}
		verifhook.Set(func(name string) {
			counts[name]++
			if point == "" {
				say("HOOK %s %d", name, counts[name])
				return
			}
			if name == point && counts[name] == occ {
				say("KILL")
				_ = syscall.Kill(os.Getpid(), syscall.SIGKILL)
				time.Sleep(time.Hour)
			}
		})
		s, err := NewStore(dir)
		if err != nil {
			say("ERROR open %v", err)
			os.Exit(3)
		}
		w := &c08World{c: nil, dir: dir, s: s, pool: pool}
		for i, op := range ops {
			say("BEGIN %d", i)
			func() {
				defer func() {
					if r := recover(); r != nil {
						say("OPFAIL %d %v", i, r)
						os.Exit(4)
					}
				}()
				w.apply(op)
			}()
			say("ACK %d", i)
		}
		_ = w.s.Close()
		say("END")
		os.Exit(0)
	case "verify":
		var d c08Dump
		s, err := NewStore(dir)
		if err != nil {
			d.OpenErr = err.Error()
		} else {
			for k := 0; k < c08Bases; k++ {
				r := &d.Recs[k]
				id := pool.base[k].ID()
				bi, err := s.QueryId(id)
				r.Exists = err == nil
				if !r.Exists {
					continue
				}
				r.Pending, r.Fragmented = bi.Pending, bi.Fragmented
				if v, ok := bi.Properties["verif/k"]; ok {
					r.Prop, r.HasProp = v.(int), true
				}
				for _, p := range bi.Parts {
					b, err := p.Load()
					if err != nil {
						r.LoadErr = err.Error()
						continue
					}
					r.Parts = append(r.Parts, hex.EncodeToString(enc(&b)))
				}
				if r.LoadErr == "" {
					r.Complete = bi.IsComplete()
				}
			}
			if bis, err := s.QueryPending(); err == nil {
				for _, bi := range bis {
					d.PendingIds = append(d.PendingIds, bi.Id)
				}
			} else {
				d.FollowUp = "QueryPending: " + err.Error()
			}
			// the node goes on working: another record, and the record the crash interrupted
			fb := c08FollowUpBundle()
			if err := s.Push(fb); err != nil {
				d.FollowUp += " push other: " + err.Error()
			} else if bi, err := s.QueryId(fb.ID()); err != nil {
				d.FollowUp += " query other: " + err.Error()
			} else if _, err := bi.Parts[0].Load(); err != nil {
				d.FollowUp += " load other: " + err.Error()
			} else if err := s.Delete(fb.ID()); err != nil {
				d.FollowUp += " delete other: " + err.Error()
			}
			if ks := os.Getenv("VERIF_C08_INFLIGHT"); ks != "" {
				k, _ := strconv.Atoi(ks)
				id := pool.base[k].ID()
				// If the interrupted operation left no record, the bundle arrives once more - over another path,
				// i.e. with the same ID and a hop count one higher: what the store acknowledges now is what it must
				// read back, whatever the interrupted operation left behind on disk
				if _, qerr := s.QueryId(id); qerr != nil {
					if v, err := bpv7.ParseBundle(bytes.NewReader(pool.enc[k])); err == nil {
						if hcb, err := v.ExtensionBlock(bpv7.ExtBlockTypeHopCountBlock); err == nil {
							hcb.Value.(*bpv7.HopCountBlock).Increment()
						}
						want := enc(&v)
						if err := s.Push(v); err != nil {
							d.FollowUp += " push other copy of the in-flight record: " + err.Error()
						} else if bi, err := s.QueryId(id); err != nil {
							d.FollowUp += " query other copy: " + err.Error()
						} else if b, err := bi.Parts[0].Load(); err != nil {
							d.FollowUp += " load other copy: " + err.Error()
						} else if !bytes.Equal(enc(&b), want) {
							d.FollowUp += " the store acknowledged another copy of the bundle (hop count one higher) but reads back other bytes"
						}
					}
				}
				if err := s.Delete(id); err != nil {
					d.FollowUp += " delete in-flight record: " + err.Error()
				} else if err := s.Push(pool.base[k]); err != nil {
					d.FollowUp += " re-push in-flight record: " + err.Error()
				} else if bi, err := s.QueryId(id); err != nil {
					d.FollowUp += " query re-pushed record: " + err.Error()
				} else if b, err := bi.Parts[0].Load(); err != nil {
					d.FollowUp += " load re-pushed record: " + err.Error()
				} else if !bytes.Equal(enc(&b), pool.enc[k]) {
					d.FollowUp += " re-pushed record reads back differently"
				}
			}
			_ = s.Close()
		}
		j, _ := json.Marshal(&d)
		say("DUMP %s", string(j))
		os.Exit(0)
	}
}

type c08ChildOut struct {
	acks   int // number of acknowledged operations
	begun  int // index of the last operation that began (-1 none)
	killed bool
	ended  bool
	hooks  []string // "name occurrence"
	dump   string
	other  string
}

func c08SpawnChild(env map[string]string) (c08ChildOut, error) {
	exe := os.Getenv("VERIF_BIN")
	if exe == "" {
		exe = os.Args[0]
	}
	cmd := exec.Command(exe, "-test.run", "^TestVerifC08CrashChild$", "-test.timeout", "0")
	cmd.Env = append(os.Environ(), "VERIF_REPORT=", "VERIF_REPLAY=", "VERIF_CASEFILE=")
	for k, v := range env {
		cmd.Env = append(cmd.Env, k+"="+v)
	}
	var errb bytes.Buffer
	cmd.Stderr = &errb
	stdout, err := cmd.StdoutPipe()
	if err != nil {
		return c08ChildOut{}, err
	}
	if err := cmd.Start(); err != nil {
		return c08ChildOut{}, err
	}
	res := c08ChildOut{begun: -1}
	done := make(chan struct{})
	go func() {
		defer close(done)
		sc := bufio.NewScanner(stdout)
		sc.Buffer(make([]byte, 1<<20), 1<<26)
		for sc.Scan() {
			ln := sc.Text()
			if !strings.HasPrefix(ln, "VF8 ") {
				continue
			}
			f := strings.SplitN(ln[4:], " ", 2)
			switch f[0] {
			case "BEGIN":
				res.begun, _ = strconv.Atoi(f[1])
			case "ACK":
				n, _ := strconv.Atoi(f[1])
				res.acks = n + 1
			case "KILL":
				res.killed = true
			case "END":
				res.ended = true
			case "HOOK":
				res.hooks = append(res.hooks, f[1])
			case "DUMP":
				res.dump = f[1]
			default:
				res.other += ln + "\n"
			}
		}
	}()
	select {
	case <-done:
	case <-time.After(120 * time.Second):
		_ = cmd.Process.Kill()
		<-done
		res.other += "child timed out\n"
	}
	_ = cmd.Wait()
	if errb.Len() > 0 {
		e := errb.String()
		if len(e) > 3000 {
			e = e[len(e)-3000:]
		}
		res.other += e
	}
	return res, nil
}

type c08CrashCase struct {
	T0    int64   `json:"t0"`
	Ops   []c08Op `json:"ops"`
	Point string  `json:"point"`
	Occ   int     `json:"occ"`
}

// c08ModelAfter replays the first n operations on a model only.
func c08ModelAfter(pool *c08Pool, ops []c08Op, n int) *c08World {
	w := &c08World{pool: pool, modelOnly: true}
	for i := 0; i < n && i < len(ops); i++ {
		w.apply(ops[i])
	}
	return w
}

func c08DumpDiff(d *c08Dump, w *c08World) string {
	for k := 0; k < c08Bases; k++ {
		m, r := &w.model[k], &d.Recs[k]
		if m.exists != r.Exists {
			return fmt.Sprintf("record %d exists=%v, expected %v", k, r.Exists, m.exists)
		}
		if !m.exists {
			continue
		}
		if r.LoadErr != "" {
			return fmt.Sprintf("record %d is reported but a part does not load: %s", k, r.LoadErr)
		}
		if r.Pending != m.pending || r.HasProp != m.hasProp || r.Prop != m.prop || r.Fragmented != m.fragmented {
			return fmt.Sprintf("record %d metadata differs", k)
		}
		var want []string
		for _, p := range m.parts {
			want = append(want, hex.EncodeToString(p.enc))
		}
		got := append([]string(nil), r.Parts...)
		sort.Strings(got)
		sort.Strings(want)
		if fmt.Sprint(got) != fmt.Sprint(want) {
			return fmt.Sprintf("record %d holds %d parts, expected %d (or their content differs)", k, len(got), len(want))
		}
	}
	return ""
}

func c08CrashBody(c *vk.Ctx, cs c08CrashCase) {
	// T0 only keeps parent and child consistent within one run; a saved case is replayed later, when
	// bundles created around the old T0 (lifetime 1 h) would have expired: re-base it
	if time.Since(time.Unix(0, cs.T0*int64(time.Millisecond))) > 10*time.Minute {
		cs.T0 = time.Now().UnixNano() / int64(time.Millisecond)
	}
	dir := c08Scratch()
	defer os.RemoveAll(dir)
	opsJSON, _ := json.Marshal(cs.Ops)
	base := map[string]string{"VERIF_C08_DIR": dir, "VERIF_C08_T0": strconv.FormatInt(cs.T0, 10)}
	env := map[string]string{"VERIF_C08_MODE": "run", "VERIF_C08_OPS": string(opsJSON), "VERIF_C08_POINT": cs.Point, "VERIF_C08_OCC": strconv.Itoa(cs.Occ)}
	for k, v := range base {
		env[k] = v
	}
	run, err := c08SpawnChild(env)
	if err != nil {
		c.Failf("c08.harness", "cannot start the crash child: %v", err)
	}
	if !run.killed {
		if run.ended {
			c.Class("crash point not reached")
			return
		}
		c.Failf("c08.harness", "crash child ended strangely: %+v", run)
	}
	c.NonTrivial()
	c.Class("killed at " + cs.Point)
	pool := c08MakePool(time.Unix(0, cs.T0*int64(time.Millisecond)))
	inflight := run.acks // index of the operation that was running
	venv := map[string]string{"VERIF_C08_MODE": "verify"}
	for k, v := range base {
		venv[k] = v
	}
	if inflight < len(cs.Ops) {
		venv["VERIF_C08_INFLIGHT"] = strconv.Itoa(cs.Ops[inflight].K % c08Bases)
	}
	ver, err := c08SpawnChild(venv)
	if err != nil || ver.dump == "" {
		c.Failf("c08.crash-restart-fails", "after a kill at %s #%d (operation %d: %+v) the store cannot be reopened: the verifying process died or printed nothing: %s", cs.Point, cs.Occ, inflight, cs.Ops[inflight], ver.other)
	}
	var d c08Dump
	if err := json.Unmarshal([]byte(ver.dump), &d); err != nil {
		c.Failf("c08.harness", "bad dump: %v", err)
	}
	what := fmt.Sprintf("kill at %s #%d during operation %d (%+v), %d operations acknowledged", cs.Point, cs.Occ, inflight, cs.Ops[inflight], run.acks)
	if d.OpenErr != "" {
		c.Failf("c08.crash-restart-fails", "%s: NewStore on the directory fails: %s", what, d.OpenErr)
	}
	before := c08ModelAfter(pool, cs.Ops, run.acks)
	after := c08ModelAfter(pool, cs.Ops, run.acks+1)
	d1, d2 := c08DumpDiff(&d, before), c08DumpDiff(&d, after)
	if d1 != "" && d2 != "" {
		c.Failf("c08.crash-state", "%s: the reopened store matches neither 'operation not applied' (%s) nor 'operation applied' (%s)", what, d1, d2)
	}
	if d.FollowUp != "" {
		c.Failf("c08.crash-follow-up", "%s: the reopened store does not work normally: %s", what, d.FollowUp)
	}
}

func TestVerifC08CrashPoints(t *testing.T) {
	log.SetOutput(io.Discard)
	if os.Getenv("VERIF_C08_MODE") != "" {
		t.Skip()
	}
	nh := 4
	if vk.Tier() == "thorough" {
		nh = 60
	}
	u := vk.Unit{Property: "C08", Name: "c08.crash-points",
		Rule: "fault enumeration: for seeded histories (quick 4, thorough 60, 16 operations each, biased to push/fragment/delete) a child process performs the history and is killed (SIGKILL) at EVERY (hook point, occurrence) pair reached inside Store.Push and Store.Delete (points: store.push.insert, store.push.update, store.delete.part, store.delete.index); a second child reopens the directory; oracle: reopening works, every acknowledged operation's effect is present, the interrupted operation is wholly applied or wholly absent, every reported record loads byte-identically, pushing/deleting another record and re-pushing the interrupted record work; non-trivial = the kill happened; distinct by (history, point, occurrence)"}
	t0 := time.Now().UnixNano() / int64(time.Millisecond)
	vk.Enumerate(t, u, true, func(yield func(c08CrashCase) bool) {
		n := 0
		for h := 0; h < nh; h++ {
			ops := genC08Crash().Example(int(vk.BaseSeed())*1000 + h)
			// dry run: which hook points does this history reach?
			dir := c08Scratch()
			opsJSON, _ := json.Marshal(ops)
			rec, err := c08SpawnChild(map[string]string{"VERIF_C08_MODE": "run", "VERIF_C08_DIR": dir, "VERIF_C08_T0": strconv.FormatInt(t0, 10), "VERIF_C08_OPS": string(opsJSON), "VERIF_C08_POINT": ""})
			os.RemoveAll(dir)
			if err != nil || !rec.ended {
				t.Fatalf("dry run of history %d failed: %v %+v", h, err, rec)
			}
			for _, hk := range rec.hooks {
				f := strings.Fields(hk)
				occ, _ := strconv.Atoi(f[1])
				n++
				if !vk.ShardOwns(n) {
					continue
				}
				if !yield(c08CrashCase{T0: t0, Ops: ops, Point: f[0], Occ: occ}) {
					return
				}
			}
		}
	}, c08CrashBody)
}

func genC08Crash() *rapid.Generator[[]c08Op] {
	ops := []string{"push", "push", "frag", "frag", "frag", "frag", "delete", "delete", "pending", "prop", "reopen"}
	return rapid.SliceOfN(rapid.Custom(func(t *rapid.T) c08Op {
		return c08Op{Op: rapid.SampledFrom(ops).Draw(t, "op"), K: rapid.IntRange(0, c08Bases-1).Draw(t, "k"), F: rapid.IntRange(0, 2).Draw(t, "f"),
			I: rapid.IntRange(0, 7).Draw(t, "i"), Flag: rapid.Bool().Draw(t, "flag"), Shift: rapid.IntRange(0, 9).Draw(t, "shift")}
	}), 16, 16)
}

// ---------------------------------------------------------------------------------------
// concurrent pushes of different fragments of one bundle

type c08ConcCase struct {
	K      int   `json:"k"`
	First  int   `json:"first"`  // fragment pushed beforehand (index into fragmentation 0), -1 = none
	Pushes []int `json:"pushes"` // fragments (fragmentation 0 / 1 mixed: index*2+f) pushed concurrently
	Forced bool  `json:"forced"` // park the pushing goroutines at the schedule point until all have done their lookup
}

func TestVerifC08Concurrent(t *testing.T) {
	log.SetOutput(io.Discard)
	u := vk.Unit{Property: "C08", Name: "c08.concurrent", Quick: 120, Thorough: 5000,
		Rule: "2..3 goroutines push different fragments of one bundle at the same time onto a record that already holds one fragment (or onto an empty store); in 'forced' cases a schedule hook between the record lookup and the write-back parks each pushing goroutine until all have done their lookup (50 ms grace, which only decides coverage, never the verdict); oracle: afterwards the record lists every pushed fragment exactly once and each loads byte-identically; non-trivial = forced case in which all goroutines reached the schedule point before any write; distinct by case hash"}
	vk.Check(t, u, func(t *rapid.T) c08ConcCase {
		n := rapid.IntRange(2, 3).Draw(t, "n")
		perm := rapid.Permutation([]int{0, 1, 2, 3, 4, 5}).Draw(t, "perm")
		return c08ConcCase{K: rapid.IntRange(0, c08Bases-1).Draw(t, "k"), First: rapid.SampledFrom([]int{-1, 0, 0, 0}).Draw(t, "first"),
			Pushes: perm[:n], Forced: rapid.IntRange(0, 3).Draw(t, "forced") > 0}
	}, func(c *vk.Ctx, cs c08ConcCase) {
		if c08ThePool == nil {
			c08ThePool = c08MakePool(time.Now())
		}
		pool := c08ThePool
		dir := c08Scratch()
		defer os.RemoveAll(dir)
		s, err := NewStore(dir)
		if err != nil {
			c.Failf("c08.harness", "NewStore: %v", err)
		}
		defer s.Close()
		pick := func(x int) bpv7.Bundle {
			frs := pool.frags[cs.K][x%2]
			return frs[(x/2)%len(frs)]
		}
		want := map[string]bool{}
		if cs.First >= 0 {
			f := pool.frags[cs.K][2][cs.First%len(pool.frags[cs.K][2])]
			if err := s.Push(f); err != nil {
				c.Failf("c08.push-error", "Push: %v", err)
			}
			want[string(enc(&f))] = true
		}
		var frs []bpv7.Bundle
		for _, x := range cs.Pushes {
			f := pick(x)
			if !want[string(enc(&f))] {
				want[string(enc(&f))] = true
				frs = append(frs, f)
			}
		}
		arrived := make(chan struct{}, 16)
		release := make(chan struct{})
		if cs.Forced {
			verifhook.Set(func(name string) {
				if name != "store.push.update" && name != "store.push.insert" {
					return
				}
				arrived <- struct{}{}
				<-release
			})
		}
		errs := make([]error, len(frs))
		done := make(chan int, len(frs))
		for i := range frs {
			go func(i int) { errs[i] = s.Push(frs[i]); done <- i }(i)
		}
		all := false
		if cs.Forced {
			n := 0
			grace := time.After(50 * time.Millisecond)
		wait:
			for n < len(frs) {
				select {
				case <-arrived:
					n++
				case <-grace:
					break wait
				}
			}
			all = n == len(frs) && len(frs) >= 2
			close(release)
		}
		for range frs {
			<-done
		}
		verifhook.Set(nil)
		if all {
			c.NonTrivial()
			c.Class("all lookups before any write")
		} else if cs.Forced {
			c.Class("interleaving not achieved (pushes are serialised)")
		}
		for i, e := range errs {
			if e != nil {
				c.Failf("c08.concurrent-push-error", "concurrent Push of fragment %d returns an error: %v", i, e)
			}
		}
		bi, err := s.QueryId(pool.base[cs.K].ID())
		if err != nil {
			c.Failf("c08.lookup", "record not found after concurrent pushes: %v", err)
		}
		got := map[string]int{}
		for _, p := range bi.Parts {
			b, err := p.Load()
			if err != nil {
				c.Failf("c08.part-unreadable", "a part does not load after concurrent pushes: %v", err)
			}
			got[string(enc(&b))]++
		}
		for k := range want {
			if got[k] != 1 {
				c.Failf("c08.concurrent-lost-fragment", "%d fragments pushed concurrently (record had %d before): a pushed fragment is listed %d times in the record (%d parts listed, %d distinct fragments pushed)", len(frs), len(want)-len(frs), got[k], len(bi.Parts), len(want))
			}
		}
		if len(bi.Parts) != len(want) {
			c.Failf("c08.concurrent-lost-fragment", "record lists %d parts, %d distinct fragments were pushed", len(bi.Parts), len(want))
		}
	})
}

// ---------------------------------------------------------------------------------------
// concurrent pushes, unforced: several workers push runs of fragments of the same bundle

type c08StressCase struct {
	K       int   `json:"k"`
	Workers int   `json:"workers"`
	Frags   int   `json:"frags"`  // number of fragments the payload is cut into
	First   bool  `json:"first"`  // the first fragment is pushed beforehand
	Assign  []int `json:"assign"` // worker of each fragment
	Rounds  int   `json:"rounds"` // independent bundles (distinct IDs) treated this way one after the other
}

func TestVerifC08Stress(t *testing.T) {
	log.SetOutput(io.Discard)
	u := vk.Unit{Property: "C08", Name: "c08.concurrent-stress", Quick: 40, Thorough: 1500,
		Rule: "unforced schedules: 2..6 workers each push a run of fragments (6..30 fragments in total, generated assignment) of one bundle concurrently, optionally after the first fragment was pushed; repeated for 3..12 bundles per case; oracle: every Push returns nil, afterwards the record lists every fragment exactly once, each part loads byte-identically, the record is complete and reassembles to the original payload; non-trivial = >= 3 workers and >= 12 fragments; distinct by case hash. The schedule is the runtime's (GOMAXPROCS = all cores); a failure is reproducible only statistically and the case file records the parameters"}
	vk.Check(t, u, func(t *rapid.T) c08StressCase {
		cs := c08StressCase{K: rapid.IntRange(0, 3).Draw(t, "k"), Workers: rapid.IntRange(2, 6).Draw(t, "workers"), Frags: rapid.IntRange(6, 30).Draw(t, "frags"),
			First: rapid.Bool().Draw(t, "first"), Rounds: rapid.IntRange(3, 12).Draw(t, "rounds")}
		mode := rapid.IntRange(0, 2).Draw(t, "mode")
		for i := 0; i < cs.Frags; i++ {
			switch mode {
			case 0:
				cs.Assign = append(cs.Assign, i%cs.Workers)
			case 1:
				cs.Assign = append(cs.Assign, i*cs.Workers/cs.Frags)
			default:
				cs.Assign = append(cs.Assign, rapid.IntRange(0, cs.Workers-1).Draw(t, "w"))
			}
		}
		return cs
	}, func(c *vk.Ctx, cs c08StressCase) {
		if cs.Workers >= 3 && cs.Frags >= 12 {
			c.NonTrivial()
		}
		dir := c08Scratch()
		defer os.RemoveAll(dir)
		s, err := NewStore(dir)
		if err != nil {
			c.Failf("c08.harness", "NewStore: %v", err)
		}
		defer s.Close()
		for r := 0; r < cs.Rounds; r++ {
			payload := vk.PayloadBytes(cs.Frags*16, uint64(r*7+cs.K+1))
			b, err := bpv7.Builder().CRC(bpv7.CRC32).Source(fmt.Sprintf("dtn://stress%d/app", cs.K)).Destination("dtn://dst/app").
				CreationTimestampNow().Lifetime("1h").BundleCtrlFlags(0).PayloadBlock(payload).Build()
			if err != nil {
				c.Failf("c08.harness", "build: %v", err)
			}
			b.PrimaryBlock.CreationTimestamp[1] = uint64(r)
			// cut by hand into cs.Frags fragments of 16 bytes
			var frs []bpv7.Bundle
			for i := 0; i < cs.Frags; i++ {
				f := b
				f.PrimaryBlock.BundleControlFlags |= bpv7.IsFragment
				f.PrimaryBlock.FragmentOffset = uint64(i * 16)
				f.PrimaryBlock.TotalDataLength = uint64(len(payload))
				pb, _ := b.PayloadBlock()
				f.CanonicalBlocks = []bpv7.CanonicalBlock{{BlockNumber: pb.BlockNumber, BlockControlFlags: pb.BlockControlFlags, CRCType: pb.CRCType,
					Value: bpv7.NewPayloadBlock(payload[i*16 : (i+1)*16])}}
				if err := f.CheckValid(); err != nil {
					c.Failf("c08.harness", "hand-made fragment invalid: %v", err)
				}
				frs = append(frs, f)
			}
			start := 0
			if cs.First {
				if err := s.Push(frs[0]); err != nil {
					c.Failf("c08.push-error", "Push: %v", err)
				}
				start = 1
			}
			var wg sync.WaitGroup
			errs := make([]error, cs.Frags)
			gate := make(chan struct{})
			for w := 0; w < cs.Workers; w++ {
				wg.Add(1)
				go func(w int) {
					defer wg.Done()
					<-gate
					for i := start; i < cs.Frags; i++ {
						if cs.Assign[i] == w {
							errs[i] = s.Push(frs[i])
						}
					}
				}(w)
			}
			close(gate)
			wg.Wait()
			for i, e := range errs {
				if e != nil {
					c.Failf("c08.concurrent-push-error", "bundle %d: concurrent Push of fragment %d returns an error: %v", r, i, e)
				}
			}
			bi, err := s.QueryId(b.ID())
			if err != nil {
				c.Failf("c08.lookup", "bundle %d: record not found after concurrent pushes: %v", r, err)
			}
			got := map[uint64]int{}
			for _, p := range bi.Parts {
				pb, err := p.Load()
				if err != nil {
					c.Failf("c08.part-unreadable", "bundle %d: a part does not load after concurrent pushes: %v", r, err)
				}
				off, n := fragInfo(&pb)
				got[off]++
				if n != 16 || !bytes.Equal(enc(&pb), enc(&frs[off/16])) {
					c.Failf("c08.part-differs", "bundle %d: the part at offset %d does not read back identically", r, off)
				}
			}
			for i := 0; i < cs.Frags; i++ {
				if got[uint64(i*16)] != 1 {
					c.Failf("c08.concurrent-lost-fragment", "bundle %d: %d workers pushed %d fragments concurrently; the fragment at offset %d is listed %d times (%d parts listed); every Push had returned nil", r, cs.Workers, cs.Frags, i*16, got[uint64(i*16)], len(bi.Parts))
				}
			}
			if !bi.IsComplete() {
				c.Failf("c08.complete", "bundle %d: all %d fragments are stored but the record does not report complete", r, cs.Frags)
			}
		}
	})
}
