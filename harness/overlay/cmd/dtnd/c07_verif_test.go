package main

import (
	"bytes"
	"encoding/base64"
	"encoding/json"
	"fmt"
	"io"
	"net"
	"net/http"
	"os"
	"path/filepath"
	"strings"
	"testing"
	"time"

	log "github.com/sirupsen/logrus"

	"github.com/dtn7/dtn7-go/pkg/routing"
	vk "github.com/dtn7/dtn7-go/pkg/verifkit"
)

// C07 through the daemon as it is deployed: two nodes are built by dtnd's own parseCore from two TOML
// configuration files (store, node ID, routing algorithm, REST agent on a web server, a listener on B, a [[peer]]
// entry on A); applications talk to them over HTTP only (/rest/register, /rest/build, /rest/fetch). Nothing is
// scripted and nothing of the nodes is touched from inside.

type dtndCase struct {
	Algo  string `json:"algo"`
	Proto string `json:"proto"` // mtcp | tcpclv4
	N     int    `json:"n"`
	Big   bool   `json:"big"`  // one payload of 300 kB
	Ping  bool   `json:"ping"` // tcpclv4 only: B runs the ping agent, A's application pings it
	Alt   bool   `json:"alt"`  // B's listener announces a node name of its own ([[listen]] node = ...)
}

func dtndFreePort() string {
	l, err := net.Listen("tcp", "127.0.0.1:0")
	if err != nil {
		return "127.0.0.1:0"
	}
	defer l.Close()
	return l.Addr().String()
}

func dtndPost(base, path string, req interface{}, resp interface{}) error {
	body, _ := json.Marshal(req)
	client := http.Client{Timeout: 20 * time.Second}
	r, err := client.Post("http://"+base+"/rest"+path, "application/json", bytes.NewReader(body))
	if err != nil {
		return err
	}
	defer r.Body.Close()
	data, _ := io.ReadAll(r.Body)
	if err := json.Unmarshal(data, resp); err != nil {
		return fmt.Errorf("%v (%q)", err, string(data))
	}
	return nil
}

type dtndFetched struct {
	Error   string `json:"error"`
	Bundles []struct {
		PrimaryBlock struct {
			Destination string `json:"destination"`
			Source      string `json:"source"`
		} `json:"primaryBlock"`
		CanonicalBlocks []struct {
			BlockTypeCode uint64          `json:"blockTypeCode"`
			Data          json.RawMessage `json:"data"`
		} `json:"canonicalBlocks"`
	} `json:"bundles"`
}

type dtndBundle struct{ src, dst, payload string }

func dtndFetch(base, uuid string) ([]dtndBundle, error) {
	var f dtndFetched
	if err := dtndPost(base, "/fetch", map[string]string{"uuid": uuid}, &f); err != nil {
		return nil, err
	}
	if f.Error != "" {
		return nil, fmt.Errorf("%s", f.Error)
	}
	var out []dtndBundle
	for _, b := range f.Bundles {
		x := dtndBundle{src: b.PrimaryBlock.Source, dst: b.PrimaryBlock.Destination}
		for _, cb := range b.CanonicalBlocks {
			if cb.BlockTypeCode == 1 {
				var s string
				if json.Unmarshal(cb.Data, &s) == nil {
					if raw, err := base64.StdEncoding.DecodeString(s); err == nil {
						x.payload = string(raw)
					}
				}
			}
		}
		out = append(out, x)
	}
	return out, nil
}

// dtndIsDeliveredReport: [1, [[[f],[f],[true..],[f]], reason, source, timestamp ...]]
func dtndIsDeliveredReport(p []byte) bool {
	it, err := vk.DecodeItem(p, 0)
	if err != nil || it.Major != vk.MajArray || len(it.Items) != 2 || it.Items[0].Arg != 1 {
		return false
	}
	rep := it.Items[1]
	if rep.Major != vk.MajArray || len(rep.Items) < 4 || rep.Items[0].Major != vk.MajArray || len(rep.Items[0].Items) != 4 {
		return false
	}
	for i, si := range rep.Items[0].Items {
		if len(si.Items) == 0 {
			return false
		}
		v, isB := si.Items[0].IsBool()
		if !isB || v != (i == 2) {
			return false
		}
	}
	return true
}

func dtndRegister(base, eid string) (string, error) {
	var r struct {
		Error string `json:"error"`
		UUID  string `json:"uuid"`
	}
	if err := dtndPost(base, "/register", map[string]string{"endpoint_id": eid}, &r); err != nil {
		return "", err
	}
	if r.Error != "" {
		return "", fmt.Errorf("%s", r.Error)
	}
	return r.UUID, nil
}

func dtndBuild(base, uuid, src, dst, payload string) error {
	var r struct {
		Error string `json:"error"`
	}
	if err := dtndPost(base, "/build", map[string]interface{}{"uuid": uuid, "arguments": map[string]interface{}{
		"destination": dst, "source": src, "creation_timestamp_now": 1, "lifetime": "1h", "payload_block": payload}}, &r); err != nil {
		return err
	}
	if r.Error != "" {
		return fmt.Errorf("%s", r.Error)
	}
	return nil
}

func TestVerifC07Dtnd(t *testing.T) {
	u := vk.Unit{Property: "C07", Name: "c07.dtnd",
		Rule: "two nodes built by dtnd's parseCore from generated TOML files (every routing algorithm; B listens with MTCP or TCPCLv4, optionally under a node name of its own; A has the [[peer]] entry; REST agents on web servers; optionally the ping agent on B); an application registers dtn://b/inbox at B, two applications register at A; A's first application builds 1..4 bundles (one optionally of 300 kB) for dtn://b/inbox over HTTP. Oracle: B's application fetches exactly these bundles (source, destination, payload) and nothing else (a copy that A transmitted twice right after start-up and that B accepted twice is classified, not judged); A's applications get none of them - the first one gets at most one 'delivered' report per bundle handed over at B (the builder behind /rest/build requests it by default); TCPCLv4 with ping: a bundle for dtn://b/ping comes back to A's first application as a 'pong' and to nobody else. Every case non-trivial; exhaustive over algorithm x protocol, the other parameters vary with the index"}
	var cases []dtndCase
	i := 0
	for _, algo := range []string{"epidemic", "spray", "binary_spray", "prophet", "dtlsr", "sensor-mule"} {
		for _, proto := range []string{"tcpclv4", "mtcp"} {
			i++
			cases = append(cases, dtndCase{Algo: algo, Proto: proto, N: 1 + i%4, Big: i%3 == 0, Ping: proto == "tcpclv4" && i%2 == 1, Alt: i%4 == 1})
		}
	}
	vk.Enumerate(t, u, true, func(yield func(dtndCase) bool) {
		for i, cs := range cases {
			if !vk.ShardOwns(i + 1) {
				continue
			}
			if !yield(cs) {
				return
			}
		}
	}, func(c *vk.Ctx, cs dtndCase) {
		c.NonTrivial()
		dir, err := os.MkdirTemp(os.Getenv("VERIF_SCRATCH"), "dtnd-")
		if err != nil {
			c.Failf("c07.harness", "scratch: %v", err)
		}
		defer os.RemoveAll(dir)
		routingConf := func() string {
			s := fmt.Sprintf("[routing]\nalgorithm = %q\n", cs.Algo)
			switch cs.Algo {
			case "spray", "binary_spray":
				s += "[routing.sprayconf]\nmultiplicity = 4\n"
			case "prophet":
				s += "[routing.prophetconf]\npinit = 0.75\nbeta = 0.25\ngamma = 0.98\nageinterval = \"1m\"\n"
			case "dtlsr":
				s += "[routing.dtlsrconf]\nrecomputetime = \"30s\"\nbroadcasttime = \"30s\"\npurgetime = \"10m\"\n"
			case "sensor-mule":
				s += "[routing.sensor-mule-conf]\nsensor-node-regex = \"^dtn://sensor[0-9]+/.*$\"\n[routing.sensor-mule-conf.routing]\nalgorithm = \"epidemic\"\n"
			}
			return s
		}
		var coreA, coreB *routing.Core
		var webA, webB string
		listenName := ""
		if cs.Alt {
			listenName = "node = \"dtn://b-gate/\"\n"
		}
		peerNode := "dtn://b/"
		if cs.Alt {
			peerNode = "dtn://b-gate/"
		}
		for try := 0; try < 5 && coreB == nil; try++ {
			webB = dtndFreePort()
			listenB := dtndFreePort()
			ping := ""
			if cs.Ping {
				ping = "ping = \"dtn://b/ping\"\n"
			}
			conf := fmt.Sprintf("[core]\nstore = %q\nnode-id = \"dtn://b/\"\n[logging]\nlevel = \"panic\"\n[agents]\n%s[agents.webserver]\naddress = %q\nwebsocket = true\nrest = true\n[[listen]]\n%sprotocol = %q\nendpoint = %q\n%s",
				filepath.Join(dir, fmt.Sprintf("store-b-%d", try)), ping, webB, listenName, cs.Proto, listenB, routingConf())
			fn := filepath.Join(dir, fmt.Sprintf("b-%d.toml", try))
			_ = os.WriteFile(fn, []byte(conf), 0o644)
			cb, _, err := parseCore(fn)
			log.SetOutput(io.Discard)
			if err != nil {
				if strings.Contains(err.Error(), "address already in use") {
					continue
				}
				c.Failf("c07.dtnd-config", "parseCore rejects a configuration of the documented form: %v\n%s", err, conf)
			}
			// the listener must hold its port before A dials (a failed bind is only logged by the daemon)
			ok := false
			for k := 0; k < 100; k++ {
				if conn, err := net.DialTimeout("tcp", listenB, 200*time.Millisecond); err == nil {
					if cs.Proto == "mtcp" {
						_ = conn.Close()
					} else {
						// a TCPCLv4 listener holds its accept loop for a connection that says nothing; close at once
						_ = conn.Close()
					}
					ok = true
					break
				}
				time.Sleep(10 * time.Millisecond)
			}
			if !ok {
				cb.Close()
				continue
			}
			coreB = cb
			confA := fmt.Sprintf("[core]\nstore = %q\nnode-id = \"dtn://a/\"\n[logging]\nlevel = \"panic\"\n[agents]\n[agents.webserver]\naddress = %q\nwebsocket = false\nrest = true\n[[peer]]\nnode = %q\nprotocol = %q\nendpoint = %q\n%s",
				filepath.Join(dir, "store-a"), "@WEB@", peerNode, cs.Proto, listenB, routingConf())
			for tryA := 0; tryA < 5 && coreA == nil; tryA++ {
				webA = dtndFreePort()
				fnA := filepath.Join(dir, fmt.Sprintf("a-%d.toml", tryA))
				_ = os.WriteFile(fnA, []byte(strings.Replace(confA, "@WEB@", webA, 1)), 0o644)
				ca, _, err := parseCore(fnA)
				log.SetOutput(io.Discard)
				if err != nil {
					if strings.Contains(err.Error(), "address already in use") {
						continue
					}
					coreB.Close()
					c.Failf("c07.dtnd-config", "parseCore rejects a configuration of the documented form: %v\n%s", err, confA)
				}
				coreA = ca
			}
		}
		if coreA == nil || coreB == nil {
			if coreB != nil {
				coreB.Close()
			}
			c.Failf("c07.harness", "no free ports for two daemons")
		}
		defer func() {
			done := make(chan struct{})
			go func() { defer func() { _ = recover(); close(done) }(); coreA.Close(); coreB.Close() }()
			select {
			case <-done:
			case <-time.After(40 * time.Second):
			}
		}()
		fail := func(tag, f string, a ...interface{}) { c.Failf(tag, "%s (algorithm %s, %s, %d bundles, listener name of its own: %v)", fmt.Sprintf(f, a...), cs.Algo, cs.Proto, cs.N, cs.Alt) }
		inbox, err := dtndRegister(webB, "dtn://b/inbox")
		if err != nil {
			fail("c07.harness", "register at B: %v", err)
		}
		app, err := dtndRegister(webA, "dtn://a/app")
		if err != nil {
			fail("c07.harness", "register at A: %v", err)
		}
		other, err := dtndRegister(webA, "dtn://a/other")
		if err != nil {
			fail("c07.harness", "register at A: %v", err)
		}
		want := map[string]bool{}
		for k := 0; k < cs.N; k++ {
			p := fmt.Sprintf("c07 dtnd payload %d of %d", k, cs.N)
			if cs.Big && k == 0 {
				p += strings.Repeat(" 0123456789abcdef", 18000)
			}
			want[p] = true
			if err := dtndBuild(webA, app, "dtn://a/app", "dtn://b/inbox", p); err != nil {
				fail("c07.dtnd-build", "the REST agent of A refuses a documented build request: %v", err)
			}
		}
		if cs.Ping {
			if err := dtndBuild(webA, app, "dtn://a/app", "dtn://b/ping", "ping me"); err != nil {
				fail("c07.dtnd-build", "the REST agent of A refuses a documented build request: %v", err)
			}
		}
		got := map[string]int{}
		pongs := 0
		reports := 0 // "delivered" status reports (the builder behind /rest/build requests them by default; report-to defaults to the source)
		deadline := time.Now().Add(45 * time.Second)
		complete := func() bool {
			for p := range want {
				if got[p] == 0 {
					return false
				}
			}
			return !cs.Ping || pongs > 0
		}
		if cs.Alt && (cs.Algo == "dtlsr" || cs.Algo == "prophet") {
			deadline = time.Now().Add(8 * time.Second)
		}
		poll := func() {
			bs, err := dtndFetch(webB, inbox)
			if err != nil {
				fail("c07.harness", "fetch at B: %v", err)
			}
			for _, b := range bs {
				if !want[b.payload] {
					fail("c07.foreign-delivery", "B's application fetched a bundle nobody sent to it: %s -> %s, %d payload bytes", b.src, b.dst, len(b.payload))
				}
				if b.src != "dtn://a/app" || b.dst != "dtn://b/inbox" {
					fail("c07.content-changed", "a bundle built as dtn://a/app -> dtn://b/inbox arrived as %s -> %s", b.src, b.dst)
				}
				got[b.payload]++
			}
			for who, id := range map[string]string{"app": app, "other": other} {
				as, err := dtndFetch(webA, id)
				if err != nil {
					fail("c07.harness", "fetch at A: %v", err)
				}
				for _, b := range as {
					if who == "app" && cs.Ping && b.src == "dtn://b/ping" && b.dst == "dtn://a/app" {
						pongs++
						continue
					}
					if who == "app" && b.dst == "dtn://a/app" && (b.src == "dtn://b/" || b.src == "dtn://b-gate/") && dtndIsDeliveredReport([]byte(b.payload)) {
						reports++
						continue
					}
					fail("c07.foreign-delivery", "A's application %q fetched a bundle that is not for it: %s -> %s, %d payload bytes", who, b.src, b.dst, len(b.payload))
				}
			}
		}
		for time.Now().Before(deadline) {
			poll()
			if complete() {
				break
			}
			time.Sleep(50 * time.Millisecond)
		}
		// everything is there (or the time is up): nothing may arrive a second time
		time.Sleep(300 * time.Millisecond)
		poll()
		total := 0
		for _, n := range got {
			total += n
		}
		if cs.Ping {
			total++ // the ping was built through /rest/build as well: the ping agent's hand-over is reported, too
		}
		if reports > total {
			fail("c07.report-without-handover", "A's application got %d 'delivered' reports from B, B's application was handed %d bundles", reports, total)
		}
		for _, n := range got {
			if n > 1 {
				// A's agent manager and A's handler (retry on PeerAppeared right after start-up) may both dispatch a fresh
				// bundle; B then accepts two copies, and C07 counts per accepted copy
				c.Class("a bundle was transmitted and accepted twice")
			}
		}
		// behind a listener that announces a node name of its own, A cannot recognise its peer as the destination node:
		// only algorithms that hand bundles to any peer are sure to get them there
		owed := !cs.Alt || cs.Algo == "epidemic" || cs.Algo == "spray" || cs.Algo == "binary_spray" || cs.Algo == "sensor-mule"
		if !owed {
			c.Class("peer not recognisable as the destination node: delivery not owed")
		}
		for p := range want {
			if got[p] == 0 && owed {
				fail("c07.not-delivered", "45 s after A's application handed a bundle for dtn://b/inbox (payload %.30q, %d bytes) to its node, with B configured as A's peer and an application registered at B, B's application has not got it", p, len(p))
			}
		}
		if cs.Ping && pongs == 0 && owed {
			fail("c07.not-delivered", "B runs the ping agent on dtn://b/ping, A's application sent a bundle there over a TCPCLv4 session: no pong came back within 45 s")
		}
	})
}
