package main

import (
	"bytes"
	"encoding/json"
	"io"
	"os"
	"path/filepath"
	"testing"

	"github.com/dtn7/dtn7-go/pkg/bpv7"
	vk "github.com/dtn7/dtn7-go/pkg/verifkit"
	"pgregory.net/rapid"
)

// C01 (dtn-tool part) — a bundle file written by "dtn-tool create" carries exactly the given
// payload and endpoints, is accepted by the parser, and "dtn-tool show" reads it back.

type c01ToolCase struct {
	Src  vk.EIDSpec `json:"src"`
	Dst  vk.EIDSpec `json:"dst"`
	Pay  int        `json:"pay"`
	Seed uint64     `json:"seed"`
}

func vfCapture(f func()) string {
	old := os.Stdout
	r, w, err := os.Pipe()
	if err != nil {
		panic(err)
	}
	os.Stdout = w
	done := make(chan []byte)
	go func() {
		b, _ := io.ReadAll(r)
		done <- b
	}()
	f()
	_ = w.Close()
	os.Stdout = old
	return string(<-done)
}

func TestVerifC01DtnTool(t *testing.T) {
	u := vk.Unit{Property: "C01", Name: "c01.dtn-tool", Quick: 300, Thorough: 8000,
		Rule: "dtn-tool's createBundle is called with a generated valid source and destination (dtn with node names over the documented alphabet and arbitrary demux, ipn with boundary numbers) and a payload file of 0 / 1 / 23 / 24 / 255 / 256 / 65535 / 65536 / 1 MiB+1 / random < 3000 bytes; oracle: the written file is decoded by the independent reader, carries exactly the payload and the endpoints, correct CRCs, breaks no structural rule, is accepted by the parser and re-serialises byte-identically; showBundle prints JSON naming the same endpoints and payload; non-trivial = payload >= 24 bytes; distinct by case hash"}
	dir, err := os.MkdirTemp(os.Getenv("VERIF_SCRATCH"), "vf-dtntool-")
	if err != nil {
		t.Fatal(err)
	}
	defer os.RemoveAll(dir)
	vk.Check(t, u, func(t *rapid.T) c01ToolCase {
		gen := func(name string) vk.EIDSpec {
			for i := 0; ; i++ {
				e := vk.GenEID().Draw(t, name)
				if e.Kind == "dtn" || e.Kind == "ipn" {
					return e
				}
				if i > 20 {
					return vk.EIDSpec{Kind: "dtn", Node: "fallback", Demux: "x"}
				}
			}
		}
		pay := rapid.OneOf(rapid.SampledFrom([]int{0, 1, 23, 24, 255, 256, 65535, 65536, 1<<20 + 1}), rapid.IntRange(0, 3000)).Draw(t, "pay")
		return c01ToolCase{Src: gen("src"), Dst: gen("dst"), Pay: pay, Seed: rapid.Uint64Range(0, 1<<30).Draw(t, "seed")}
	}, func(c *vk.Ctx, cs c01ToolCase) {
		src, dst := cs.Src.String(), cs.Dst.String()
		// only endpoints the package itself considers valid reach the tool (an invalid one makes it exit, by design)
		if _, err := bpv7.NewEndpointID(src); err != nil {
			c.Note("generated source not accepted by NewEndpointID: " + err.Error())
			return
		}
		if _, err := bpv7.NewEndpointID(dst); err != nil {
			c.Note("generated destination not accepted by NewEndpointID: " + err.Error())
			return
		}
		if cs.Pay >= 24 {
			c.NonTrivial()
		}
		payload := vk.PayloadBytes(cs.Pay, cs.Seed)
		in := filepath.Join(dir, "payload.bin")
		out := filepath.Join(dir, "bundle.cbor")
		_ = os.Remove(out)
		if err := os.WriteFile(in, payload, 0600); err != nil {
			c.Failf("c01.harness", "write: %v", err)
		}
		createBundle([]string{src, dst, in, out})
		raw, err := os.ReadFile(out)
		if err != nil {
			c.Failf("c01.tool-no-file", "create did not write the bundle file: %v", err)
		}
		w, err := vk.ReadBundle(raw)
		if err != nil {
			c.Failf("c01.tool-undecodable", "the file written by create is not decodable independently: %v", err)
		}
		if got, _ := w.Payload(); !bytes.Equal(got, payload) {
			c.Failf("c01.tool-payload", "the file carries a payload of %d bytes, %d bytes were given (or content differs)", len(got), len(payload))
		}
		if w.Primary.Src.String() != src || w.Primary.Dst.String() != dst {
			c.Failf("c01.tool-endpoints", "file says %s -> %s, asked for %s -> %s", w.Primary.Src.String(), w.Primary.Dst.String(), src, dst)
		}
		if p := w.CheckCRCs(); len(p) > 0 {
			c.Failf("c01.tool-crc", "wrong CRC in the written file: %s", p[0])
		}
		if r := vk.ValidateRules(w, uint64(bpv7.DtnTimeNow()), 5000); len(r.Broken) > 0 {
			c.Failf("c01.tool-rules", "the written bundle breaks %v", r.Broken)
		}
		b, err := bpv7.ParseBundle(bytes.NewReader(raw))
		if err != nil {
			c.Failf("c01.valid-rejected", "the parser rejects the file written by create: %v", err)
		}
		var buf bytes.Buffer
		if err := b.WriteBundle(&buf); err != nil || !bytes.Equal(buf.Bytes(), raw) {
			c.Failf("c01.reserialise-differs", "re-serialising the parsed file differs from the file (err %v)", err)
		}
		js := vfCapture(func() { showBundle([]string{out}) })
		var shown struct {
			PrimaryBlock struct {
				Destination string `json:"destination"`
				Source      string `json:"source"`
			} `json:"primaryBlock"`
			CanonicalBlocks []struct {
				BlockTypeCode uint64          `json:"blockTypeCode"`
				Data          json.RawMessage `json:"data"`
			} `json:"canonicalBlocks"`
		}
		if err := json.Unmarshal([]byte(js), &shown); err != nil {
			c.Failf("c01.tool-show", "show does not print JSON: %v (%.80q)", err, js)
		}
		if shown.PrimaryBlock.Source != src || shown.PrimaryBlock.Destination != dst {
			c.Failf("c01.tool-show", "show names %s -> %s, the bundle is %s -> %s", shown.PrimaryBlock.Source, shown.PrimaryBlock.Destination, src, dst)
		}
		found := false
		for _, cb := range shown.CanonicalBlocks {
			if cb.BlockTypeCode == 1 {
				var data []byte
				if len(payload) == 0 {
					found = true // encoding/json prints an empty or null value
					break
				}
				if err := json.Unmarshal(cb.Data, &data); err == nil && bytes.Equal(data, payload) {
					found = true
				}
			}
		}
		if !found {
			c.Failf("c01.tool-show", "show does not print the payload block with the given %d bytes", len(payload))
		}
	})
}
