"""Property table of the /verif harness: property id -> level + check units."""

BPV7 = "pkg/bpv7"
MSGS = "pkg/cla/tcpclv4/internal/msgs"
UTILS = "pkg/cla/tcpclv4/internal/utils"
STAGES = "pkg/cla/tcpclv4/internal/stages"
TCPCL = "pkg/cla/tcpclv4"
MTCP = "pkg/cla/mtcp"
BBC = "pkg/cla/bbc"
CLA = "pkg/cla"
DISCOVERY = "pkg/discovery"
AGENT = "pkg/agent"
ROUTING = "pkg/routing"
STORAGE = "pkg/storage"
DTNTOOL = "cmd/dtn-tool"
DTND = "cmd/dtnd"

HOOK_COMMITS = ["verif hooks: named hook points for the verification harness (no-ops without the verif build tag)"]
NOT_YET = {}

PROPS = {
    "C01": {
        "level": "exploration",
        "technique": "rapid property tests: round-trip + differential against an independent CBOR encoder/decoder; item-level mutation; native coverage-guided fuzzing (thorough)",
        "level_text": "Generated valid bundles are serialised, compared byte for byte with an independent encoder, parsed, compared field-wise and re-serialised; accepted mutants and fuzz inputs go through the parse->serialise->parse fixed-point oracle. Exploration is the right level: the domain is unbounded, the oracle is exact. The same bundles are also parsed while the routing block types are unregistered (generic round trip), and dtn-tool's create/show are driven in-process. The parser's verdict and result must not depend on how the io.Reader chunks the bytes (one byte at a time, cyclic short reads). In half of the cases the codec has just failed in the same process (failed serialisation inside a block, broken writer, truncated parse); unknown type codes include codes that alias known ones in their low bits.",
        "level_note": "trusts the harness' own 300-line CBOR reader/writer and CRCs (self-tested against published check values); Go's native fuzzer cannot be seeded",
        "assumptions": [
            "custom block types (spray, DTLSR, PRoPHET, signature) are registered through the public ExtensionBlockManager, as dtnd does",
            "payloads up to ~3 MiB; lifetimes 1 h .. 2^40 ms; creation time within the last minute or zero",
        ],
        "units": [
            {"name": "c01.valid", "pkg": BPV7, "test": "TestVerifC01Valid", "shards_t": 16},
            {"name": "c01.unregistered", "pkg": BPV7, "test": "TestVerifC01Unregistered", "shards_t": 8},
            {"name": "c01.dtn-tool", "pkg": DTNTOOL, "test": "TestVerifC01DtnTool", "shards_t": 8, "crash_is_violation": True},
            {"name": "c01.mutants", "pkg": BPV7, "test": "TestVerifC01Mutants", "shards_t": 16},
            {"name": "c01.inner-eids", "pkg": BPV7, "test": "TestVerifC01InnerEIDs"},
            {"name": "c01.fuzz", "pkg": BPV7, "kind": "fuzz", "fuzz": "FuzzVerifC01", "seconds": 240, "tiers": ["thorough"]},
        ],
    },
    "C03": {
        "level": "fault_enumeration",
        "technique": "exhaustive single-bit fault enumeration per generated bundle + rapid-generated bursts, judged by an independent CRC-16/X-25 and CRC-32C implementation over independently delimited blocks",
        "level_text": "For every generated fully CRC-protected bundle every bit position is flipped (exhaustive per bundle) and random bursts up to the CRC width are injected; acceptance is judged by independent bit-wise CRCs. The serialiser's CRCs are compared with the same independent implementation, and every public constructor path is enumerated for 'primary block always carries a CRC'. Serialiser histories (in-place field changes, interrupted writes, parse-and-modify, concurrent serialisation) check 'always writes that value' for objects with a past. Every CBOR head inside every block (incl. the CRC field's own length head) is re-written in every wider form with the original, the correct and three plausibly-wrong CRC values: accepted => CRC over exactly the received bytes.",
        "level_note": "trusts the harness' bit-wise CRC implementations (self-tested with the published check values 0x906E / 0xE3069283) and CBOR reader; bundles 60..700 bytes for the exhaustive part, up to 70 KB for bursts",
        "assumptions": ["bursts are confined to one block; bursts that move a block boundary are outside the statement's premise and only checked for 'not accepted unless sound'"],
        "units": [
            {"name": "c03.write", "pkg": BPV7, "test": "TestVerifC03Write", "shards_t": 8},
            {"name": "c03.serialiser-histories", "pkg": BPV7, "test": "TestVerifC03SerialiserHistories", "shards_t": 16, "shards_q": 2},
            {"name": "c03.constructors", "pkg": BPV7, "test": "TestVerifC03Constructors"},
            {"name": "c03.bitflips", "pkg": BPV7, "test": "TestVerifC03BitFlips", "shards_t": 16},
            {"name": "c03.bursts", "pkg": BPV7, "test": "TestVerifC03Bursts", "shards_t": 16},
            {"name": "c03.accept-only-if", "pkg": BPV7, "test": "TestVerifC03AcceptOnlyIf", "shards_t": 8},
            {"name": "c03.head-widths", "pkg": BPV7, "test": "TestVerifC03HeadWidths", "shards_t": 16, "shards_q": 2},
        ],
    },
    "C02": {
        "level": "exploration",
        "technique": "rapid property tests + enumeration: rule-violating edits of valid encodings (CRCs recomputed) judged by an independent BPv7 rule validator; producer outputs (builder sequences, BuildFromMap, Fragment/Reassemble, node-generated bundles) validated and re-parsed",
        "level_text": "accept => rules: every edit kind x variant is enumerated on several seeds, pairs/triples and item-level mutants are random; produced => rules and accepted: random builder call sequences, JSON argument maps, fragmentation outputs. The validator is an independent re-implementation of exactly the rules in the statement. Node-generated bundles: on a real node per routing algorithm every bundle handed to a convergence layer or agent (status reports, pongs, routing metadata, broadcasts, forwarded bundles) is validated the same way.  Hop counts beyond 8 bit that look harmless once truncated.",
        "level_note": "trusts the harness' rule validator (about 200 lines) and CBOR reader; expiry is not judged within 5 s of the expiry instant (the code reads its own clock)",
        "assumptions": ["endpoint validity = documented grammar (dtn:none, //node/demux with node over [A-Za-z0-9._-], demux without line break; ipn numbers >= 1); checked for the three primary-block endpoints and the previous-node block"],
        "units": [
            {"name": "c02.singles", "pkg": BPV7, "test": "TestVerifC02Singles", "shards_t": 8},
            {"name": "c02.combos", "pkg": BPV7, "test": "TestVerifC02Combos", "shards_t": 8},
            {"name": "c02.accepted-clean", "pkg": BPV7, "test": "TestVerifC02AcceptedClean", "shards_t": 16},
            {"name": "c02.builder", "pkg": BPV7, "test": "TestVerifC02Builder", "shards_t": 8},
            {"name": "c02.buildfrommap", "pkg": BPV7, "test": "TestVerifC02BuildFromMap", "shards_t": 8},
            {"name": "c02.fragments", "pkg": BPV7, "test": "TestVerifC02Fragments", "shards_t": 8},
            {"name": "c02.node-generated", "pkg": ROUTING, "test": "TestVerifC02NodeGenerated", "shards_t": 16, "shards_q": 6, "crash_is_violation": True},
        ],
    },
    "C09": {
        "level": "exploration",
        "technique": "rapid property test + exhaustive (payload, MTU) grid; validity predicate over the fragment list and byte-identical reassembly in all orders, judged with the independent CBOR reader",
        "level_text": "Every (bundle, MTU) pair is judged by a validity predicate (size, identity fields, partition, block placement) evaluated on independently decoded bytes, and by byte-identical reassembly in all orders for up to 5 fragments. Small payloads x all MTUs are enumerated exhaustively for several block layouts. Fragments are fragmented again (random and exhaustive over the second limit) and judged by the same predicate relative to the original bundle.",
        "level_note": "multi-entry map blocks are excluded as the statement says; payloads up to 70 KB; for a must-not-fragment bundle that fits both refusing and returning the bundle are accepted",
        "assumptions": ["clock-less bundles are generated mostly with a replicated age block, otherwise Fragment legitimately fails"],
        "units": [
            {"name": "c09.random", "pkg": BPV7, "test": "TestVerifC09Random", "shards_t": 16},
            {"name": "c09.grid", "pkg": BPV7, "test": "TestVerifC09Grid", "shards_t": 16, "shards_q": 4},
            {"name": "c09.refragment", "pkg": BPV7, "test": "TestVerifC09Refragment", "shards_t": 16, "shards_q": 2},
            {"name": "c09.refragment-grid", "pkg": BPV7, "test": "TestVerifC09RefragmentGrid", "shards_t": 16, "shards_q": 4},
        ],
    },
    "C10": {
        "level": "exploration",
        "technique": "rapid property test + exhaustive subsets/orders for small pools; independent interval-union coverage oracle",
        "level_text": "Multisets of fragments from up to three fragmentations and second-level fragmentation are reassembled; success must coincide with an independently computed coverage of the payload and the result must equal the original. Small pools are enumerated over every subset and order. On a real store, fragments pushed in generated orders must make IsComplete equal the independent coverage after every push and Load return the original.",
        "level_note": "fragments come from the package's own Fragment (whose correctness is C09's subject); the store-side completeness test is exercised in pkg/storage",
        "assumptions": [],
        "units": [
            {"name": "c10.random", "pkg": BPV7, "test": "TestVerifC10Random", "shards_t": 16},
            {"name": "c10.small", "pkg": BPV7, "test": "TestVerifC10Small", "shards_t": 16, "shards_q": 4},
            {"name": "c10.store", "pkg": STORAGE, "test": "TestVerifC10Store", "shards_t": 8, "shards_q": 2},
        ],
    },
    "C17": {
        "level": "exploration",
        "technique": "rapid round-trip property tests with stream-alignment sentinel + exhaustive enumeration of all code-field / header-byte values; endpoint-ID grammar with near-misses",
        "level_text": "decode(encode(x)) = x and 'reader stops exactly at the end of the encoding' are checked for generated values with every field at its boundaries and for concatenated streams; every code field and header byte is enumerated over all 256 values (exhaustive) for reject-iff-invalid.",
        "level_note": "status reports are built through the constructors only; ipn leading zeros are not treated as a second spelling (see DESIGN.md)",
        "assumptions": ["SESS_INIT node IDs <= 65535 bytes", "status items only as produced by the constructors"],
        "units": [
            {"name": "c17.tcpcl-stream", "pkg": MSGS, "test": "TestVerifC17MsgsStream", "shards_t": 8},
            {"name": "c17.tcpcl-codes", "pkg": MSGS, "test": "TestVerifC17MsgsCodes"},
            {"name": "c17.eid-struct", "pkg": BPV7, "test": "TestVerifC17EIDStruct", "shards_t": 8},
            {"name": "c17.eid-nearmiss", "pkg": BPV7, "test": "TestVerifC17EIDNearMisses"},
            {"name": "c17.eid-text", "pkg": BPV7, "test": "TestVerifC17EIDText", "shards_t": 8},
            {"name": "c17.reports", "pkg": BPV7, "test": "TestVerifC17Reports", "shards_t": 8},
            {"name": "c17.announcements", "pkg": DISCOVERY, "test": "TestVerifC17Announcements", "shards_t": 4},
            {"name": "c17.wam", "pkg": AGENT, "test": "TestVerifC17Wam", "shards_t": 8},
            {"name": "c17.bbc-header", "pkg": BBC, "test": "TestVerifC17FragmentHeader"},
            {"name": "c17.bbc-short", "pkg": BBC, "test": "TestVerifC17FragmentShort"},
        ],
    },
    "C11": {
        "level": "exploration",
        "technique": "exhaustive (length, segment size) grid + rapid property tests over back-to-back TransferManagers + enumerated peer faults; validity predicate over the segment train and 'success => delivered once, identical'",
        "level_text": "All (L, m) pairs for L up to 160/400 are enumerated, so every divisor case m | L occurs; real bundles (padded to multiples of m) are transferred between two managers, also concurrently in both directions; a scripted peer enumerates every position for stopped acknowledgements, refusals, wrong acknowledgements and manager shutdown. Real TCP and WebSocket sessions on loopback (listener-created client under a real cla.Manager) carry bundles of exactly 1 and 2 segments of the 1 MiB MRU +-1 byte in both directions, sequentially and concurrently, with session loss followed by a further Send; a spin-barrier stress makes Send calls of one session overlap. The session stage between connection and transfer manager must keep the order of up to 3000 received segments whatever the pace of its consumer; every XFER_REFUSE reason code must make Send fail. The connection is cut after every number of bytes of the acknowledgements' direction (exactly behind the last XFER_ACK repeatedly): success only with every acknowledgement byte, and success implies the hand-up; over two real nodes hand-ups >= successful transmissions per bundle.",
        "level_note": "the 'stops acknowledging' fault relies on the implementation's own 10 s timeout; a missing hand-up is awaited 5 s (expected latency: microseconds). The segment MRU of a socket session is fixed at 1 MiB by Client.Start. The concurrent stress is schedule-dependent (statistical).",
        "assumptions": ["segment size >= 1 (size 0 belongs to C04)"],
        "units": [
            {"name": "c11.grid", "pkg": UTILS, "test": "TestVerifC11Grid", "shards_t": 8},
            {"name": "c11.bundle-trains", "pkg": UTILS, "test": "TestVerifC11BundleTrains", "shards_t": 8},
            {"name": "c11.managers", "pkg": UTILS, "test": "TestVerifC11Managers", "shards_t": 16, "shards_q": 4},
            {"name": "c11.faults", "pkg": UTILS, "test": "TestVerifC11Faults", "shards_t": 4},
            {"name": "c11.concurrent-stress", "pkg": UTILS, "test": "TestVerifC11ConcurrentStress", "shards_t": 4, "shards_q": 2},
            {"name": "c11.sockets", "pkg": TCPCL, "test": "TestVerifC11Sockets", "shards_t": 16, "shards_q": 4, "crash_is_violation": True},
            {"name": "c11.cut-after-ack", "pkg": TCPCL, "test": "TestVerifC11CutAfterAck", "shards_t": 16, "shards_q": 4, "crash_is_violation": True},
            {"name": "c11.two-nodes", "pkg": ROUTING, "test": "TestVerifC11TwoNodes", "shards_t": 16, "shards_q": 8, "crash_is_violation": True},
            {"name": "c11.stage-order", "pkg": STAGES, "test": "TestVerifC11StageOrder", "shards_t": 8, "shards_q": 2},
        ],
    },
    "C16": {
        "level": "exploration",
        "technique": "model-based (stateful) rapid property test: generated traces replayed on the real Manager with gated mock adapters, reference state machine as oracle",
        "level_text": "Traces over register / re-register / unregister / retry tick with scripted outcome / peer-disappeared / restart / close are executed against the real Manager.handler (4 ms retry interval); mock adapters block in Start until the harness supplies the outcome, so the retry loop advances one observable step at a time; the reference model is fed by the observed Start/Close calls and compared with Sender()/Receiver() after every step. Further ops: the address registered again while the adapter waits for its retry, another instance with the same address unregistered; a second unit uses the Manager exactly as NewManager builds it under bursts of status reports (no deadlock, restart after peer loss, one Close per successful Start).",
        "level_note": "a permanent adapter that reports 'do not retry' is modelled as the code behaves (forgotten); liveness clauses use 5 s bounds against a 4 ms retry interval",
        "assumptions": ["adapters have distinct addresses and endpoint IDs", "register-again is exercised while the first instance is started"],
        "units": [
            {"name": "c16.traces", "pkg": CLA, "test": "TestVerifC16Traces", "shards_t": 16, "shards_q": 4, "crash_is_violation": True},
            {"name": "c16.newmanager", "pkg": CLA, "test": "TestVerifC16NewManager", "shards_t": 8, "shards_q": 2, "crash_is_violation": True},
        ],
    },
    "C12": {
        "level": "fault_enumeration",
        "technique": "fault enumeration (every single drop / duplication / adjacent swap per fragment train; connection reset after k bundles) + rapid multi-fault property tests; differential against an independent reference receiver and byte-identity of delivered bundles",
        "level_text": "BBC: for each (bundle, MTU) the whole single-fault space is enumerated and random multi-fault patterns and interleaved transmissions are generated; the receiver is compared with an independent reference receiver of the link protocol and every delivery must be byte-identical. MTCP: generated bundle/keep-alive sequences over a real loopback connection must arrive identical and in order, also with 1..3 sending goroutines and a keep-alive writer racing on one client (frames above the 4 KiB write buffer); a peer that resets or closes in an orderly way makes the next Send fail, and a Send on a closed client returns an error instead of panicking; a scripted peer resets the connection after k bundles and the next Send must fail and report PeerDisappeared.",
        "level_note": "loss of the last fragment(s) and a duplicated one-fragment transmission cannot be detected by a receiver and are excluded from the 'signals failure' clause; a cut racing with a send is not decided; the rf95 modem needs hardware (only the Modem interface contract is exercised); loopback only",
        "assumptions": ["modem MTU >= 3", "every received fragment owns its buffer"],
        "units": [
            {"name": "c12.mtcp-sequences", "pkg": MTCP, "test": "TestVerifC12MTCPSequences", "shards_t": 8, "shards_q": 2},
            {"name": "c12.mtcp-concurrent", "pkg": MTCP, "test": "TestVerifC12MTCPConcurrent", "shards_t": 8, "shards_q": 2},
            {"name": "c12.mtcp-cut", "pkg": MTCP, "test": "TestVerifC12MTCPCut"},
            {"name": "c12.bbc-singles", "pkg": BBC, "test": "TestVerifC12BBCSingles", "shards_t": 8},
            {"name": "c12.bbc-multi", "pkg": BBC, "test": "TestVerifC12BBCMulti", "shards_t": 8},
        ],
    },
    "C04": {
        "level": "exploration",
        "technique": "structured boundary-value enumeration of every length/count field + truncation at every offset, run in disposable child processes with an allocation and time oracle; native coverage-guided fuzzing per decoder (thorough)",
        "level_text": "For each decoder valid messages are generated and every position at which a length or count is read is set to each of the 11 boundary values (one at a time and sampled pairs), plus every truncation; each input runs in a disposable child (6 GiB address-space limit) that reports allocation and time, so process death, escaping panics, hangs and allocation proportional to an unarrived length are all observable. Decoder targets use the decoded value as the node does (String, ID, JSON, record accessors); inputs include items replaced by items of another CBOR type with CRCs re-computed, status-item arrays of every length, and hostile records fed to a real node. One genuine finding (xz index allocation reached through BBC) is listed in known_findings.json, attributed by call site and excluded from the fuzz campaign by construction. Every subset of a valid build request; every head of small inputs at each value 0..40.",
        "level_note": "allocation budget 4 MiB + 256 x len(input) (16 MiB for BBC because of the xz dictionary); cboring's documented pre-allocation of up to 1 MiB for a declared string is inside the budget; inputs up to 64 KiB",
        "assumptions": ["a panic recovered by the code's own recover() in the MTCP handlers drops the connection as designed and is not a violation"],
        "units": [
            {"name": "c04.bundle", "pkg": BPV7, "test": "TestVerifC04Bundle", "shards_q": 4, "shards_t": 8},
            {"name": "c04.adminrecord", "pkg": BPV7, "test": "TestVerifC04AdminRecord"},
            {"name": "c04.eid", "pkg": BPV7, "test": "TestVerifC04EID"},
            {"name": "c04.buildfrommap", "pkg": BPV7, "test": "TestVerifC04BuildFromMap"},
            {"name": "c04.tcpcl-message", "pkg": MSGS, "test": "TestVerifC04Messages"},
            {"name": "c04.tcpcl-mru", "pkg": UTILS, "test": "TestVerifC04MRU", "timeout_q": 900},
            {"name": "c04.tcpcl-stream", "pkg": UTILS, "test": "TestVerifC04Stream"},
            {"name": "c04.mtcp-conn", "pkg": MTCP, "test": "TestVerifC04Conn"},
            {"name": "c04.bbc-fragments", "pkg": BBC, "test": "TestVerifC04Fragments"},
            {"name": "c04.announcements", "pkg": DISCOVERY, "test": "TestVerifC04Announcements"},
            {"name": "c04.wam", "pkg": AGENT, "test": "TestVerifC04Wam"},
            {"name": "c04.rest-build", "pkg": AGENT, "test": "TestVerifC04Rest"},
            {"name": "c04.rest-raw", "pkg": AGENT, "test": "TestVerifC04RestRaw"},
            {"name": "c04.node-records", "pkg": ROUTING, "test": "TestVerifC04NodeRecords", "shards_t": 8, "shards_q": 2, "crash_is_violation": True},
            {"name": "c04.fuzz-bundle", "pkg": BPV7, "kind": "fuzz", "fuzz": "FuzzVerifC04Bundle", "seconds": 150, "tiers": ["thorough"]},
            {"name": "c04.fuzz-adminrecord", "pkg": BPV7, "kind": "fuzz", "fuzz": "FuzzVerifC04AdminRecord", "seconds": 60, "tiers": ["thorough"]},
            {"name": "c04.fuzz-tcpcl", "pkg": MSGS, "kind": "fuzz", "fuzz": "FuzzVerifC04Messages", "seconds": 90, "tiers": ["thorough"]},
            {"name": "c04.fuzz-announcements", "pkg": DISCOVERY, "kind": "fuzz", "fuzz": "FuzzVerifC04Announcements", "seconds": 60, "tiers": ["thorough"]},
            {"name": "c04.fuzz-wam", "pkg": AGENT, "kind": "fuzz", "fuzz": "FuzzVerifC04Wam", "seconds": 60, "tiers": ["thorough"]},
            {"name": "c04.fuzz-bbc", "pkg": BBC, "kind": "fuzz", "fuzz": "FuzzVerifC04Fragments", "seconds": 90, "tiers": ["thorough"]},
        ],
    },
    "C08": {
        "level": "exploration",
        "technique": "stateful rapid property test against an in-memory reference map + crash-point fault enumeration (process killed at instrumented points, store reopened) + forced interleaving of concurrent fragment pushes",
        "level_text": "Operation histories are executed on a real store and compared with a reference map after every step, including close+reopen; for seeded histories every (hook point, occurrence) pair inside Push/Delete is enumerated by killing a child process there and reopening the directory; concurrent pushes of different fragments are forced into the lookup-lookup-write-write order by a schedule hook, and 2..6 workers push runs of fragments without a forced schedule. A write-back of an item fetched before its record was deleted is part of the histories. After a kill the store must also accept another copy of the in-flight bundle (same ID, other bytes) and read back what it acknowledged.",
        "level_note": "process kill only (no power loss: unsynced data is still in the page cache); tmpfs scratch directory; whole-bundle push onto a record that holds fragments is not generated (the statement does not define it)",
        "assumptions": ["non-zero creation times (clock-less bundles are C05's)"],
        "units": [
            {"name": "c08.histories", "pkg": STORAGE, "test": "TestVerifC08Histories", "shards_t": 16, "shards_q": 4},
            {"name": "c08.crash-points", "pkg": STORAGE, "test": "TestVerifC08CrashPoints", "shards_t": 16, "shards_q": 4},
            {"name": "c08.concurrent", "pkg": STORAGE, "test": "TestVerifC08Concurrent", "shards_t": 8},
            {"name": "c08.concurrent-stress", "pkg": STORAGE, "test": "TestVerifC08Stress", "shards_t": 8, "shards_q": 2},
        ],
    },
    "C14": {
        "level": "exploration",
        "technique": "stateful rapid property test on a real Core with scripted convergence layers and agents (node simulator); ID-uniqueness oracle over wire bytes and store contents",
        "level_text": "Groups of bundles with coinciding source and creation time are submitted through every submission path, sequentially and concurrently, with and without connected peers, across retry ticks and an orderly restart; the oracle inspects the bytes handed to the scripted convergence layers and the store after every step. 2..8 goroutines released together assign thousands of IDs for one (source, creation time) through IdKeeper.update and through Core.SendBundle. Groups also cover application-preset sequence numbers, applications submitting fragments, gaps in the stored sequence numbers (some bundles delivered before a restart) and a second group re-using the first group's creation time. Creation times stamped by the application in the past (100 s, 50 min) and in the future, a creation time used again after another one, and submissions that do not return are reported.",
        "level_note": "creation times are 'now' or the epoch (the IdKeeper forgets older non-epoch timestamps by design); node-generated status reports are covered by C15's scenarios",
        "assumptions": ["cron jobs are unregistered and played as explicit events"],
        "units": [
            {"name": "c14.groups", "pkg": ROUTING, "test": "TestVerifC14Groups", "shards_t": 16, "shards_q": 4, "crash_is_violation": True},
            {"name": "c14.concurrent-stress", "pkg": ROUTING, "test": "TestVerifC14Stress", "shards_t": 4, "shards_q": 2, "crash_is_violation": True},
        ],
    },
    "C05": {
        "level": "exploration",
        "technique": "stateful rapid property test on the node simulator with a reference model of 'accepted, not yet transmitted' + store inspection after every event; forced interleaving of concurrent failure reports through a schedule hook",
        "level_text": "Event histories (submissions, receptions, peers appearing/disappearing, send outcomes, retry and cleaning ticks, restarts) are played on a real Core per routing algorithm; after every event the store's pending items are compared with the model and the per-peer send logs are checked for the destination and epidemic clauses. Concurrent failure reports are forced into the read-read-write-write order. An exhaustive product of circumstances around a restart (creation-time kind x bundles before/after x restarts) and an unforced rendezvous of 4..12 simultaneously failing transmissions complete the histories. Status reports and unknown administrative records in transit (inspect-all option on/off) are carried like any other bundle; under epidemic routing a bundle may only leave the store once its destination node has it; histories include fragments and peers connected over two convergence layers. End to end, two real nodes joined by a real TCPCLv4 session whose connection a forwarder cuts at chosen bytes: every submitted bundle reaches the other node's application or is still pending in a store, whatever happened to the link; retry ticks that meet 'delivered' reports about the same bundles must not crash the node; one bundle in six has a lifetime that ends while it waits.",
        "level_note": "cron jobs are played as explicit events (an asynchronous tick in the middle of an event is not explored); lifetimes of one hour, so expiry never interferes; bounded-exhaustive enumeration of short histories is replaced by random histories of 3..16 events",
        "assumptions": ["a bundle may leave the store once any convergence layer reported a successful transmission (as the statement says)"],
        "units": [
            {"name": "c05.histories", "pkg": ROUTING, "test": "TestVerifC05Histories", "shards_t": 16, "shards_q": 6, "crash_is_violation": True},
            {"name": "c05.concurrent-failures", "pkg": ROUTING, "test": "TestVerifC05ConcurrentFailures", "shards_t": 4, "shards_q": 2, "crash_is_violation": True},
            {"name": "c05.simultaneous-failures", "pkg": ROUTING, "test": "TestVerifC05SimultaneousFailures", "shards_t": 4, "shards_q": 2, "crash_is_violation": True},
            {"name": "c05.directed", "pkg": ROUTING, "test": "TestVerifC05Directed", "shards_t": 16, "shards_q": 8, "crash_is_violation": True},
            {"name": "c05.reports-in-transit", "pkg": ROUTING, "test": "TestVerifC05ReportsInTransit", "shards_t": 8, "shards_q": 4, "crash_is_violation": True},
            {"name": "c05.concurrent-retry", "pkg": ROUTING, "test": "TestVerifC05ConcurrentRetry", "shards_t": 16, "shards_q": 8, "crash_is_violation": True},
            {"name": "c05.two-nodes", "pkg": ROUTING, "test": "TestVerifC05TwoNodes", "shards_t": 16, "shards_q": 8, "crash_is_violation": True},
        ],
    },
    "C13": {
        "level": "exploration",
        "technique": "stateful rapid property test on the node simulator; invariant over the per-peer send log (history oracle)",
        "level_text": "Histories with previous-node blocks, failing and succeeding transmissions, retry ticks and restarts are played per replicating algorithm; the log of what each scripted peer was handed (bundle ID on the wire + outcome) is checked against: never the previous node, never again after a success, again after a failure. An exhaustive product of circumstances around one bundle (destination connected/failing/leaving, previous node early/late, relay before/after/failing, restart, announced copies, repeated stale DTLSR broadcasts) is played per algorithm with the same oracle. Histories and scenarios include fragments and a relay connected over two convergence layers at once.",
        "level_note": "the 'eligible again' clause is evaluated at retry ticks; for PRoPHET while peers have advertised a higher predictability since the last restart, for spray-and-wait while copies remain, not asserted for binary spray (its budget is C18's subject)",
        "assumptions": ["direct delivery to the destination node is exempt (statement)", "the second copy of a duplicate reception is dropped by the node, so its previous node is not asserted"],
        "units": [
            {"name": "c13.histories", "pkg": ROUTING, "test": "TestVerifC13Histories", "shards_t": 16, "shards_q": 6, "crash_is_violation": True},
            {"name": "c13.directed", "pkg": ROUTING, "test": "TestVerifC13Directed", "shards_t": 16, "shards_q": 8},
        ],
    },
    "C06": {
        "level": "exploration",
        "technique": "rapid property test on the node simulator: block-by-block differential between the accepted encoding and the bytes serialised inside the scripted convergence layer, with the independent CBOR reader; time bracket for the age growth",
        "level_text": "Generated bundles are received by a real Core, wait for a generated residence time, and are transmitted (with 0..2 failing attempts first); every captured transmission is diffed against the accepted encoding. Refusal cases (hop limit, lifetime by time or by age, unsupported block demanding deletion) must neither be transmitted nor kept. Runs of adjacent unknown blocks flagged for removal; end to end on two real nodes the delivered copy has hop count 1, the submitter as previous node and a bracketed age.",
        "level_note": "no fake clock: residence times are real sleeps (0..1500 ms), age growth is judged against a bracket of harness clock readings (+-2 ms), expiry within 60 ms of the instant is not asserted; block order is not asserted",
        "assumptions": ["bundles are received ones (locally submitted ones get their sequence number from the node, C14)"],
        "units": [
            {"name": "c06.forwarding", "pkg": ROUTING, "test": "TestVerifC06Forwarding", "shards_t": 16, "shards_q": 8, "crash_is_violation": True},
            {"name": "c06.two-nodes", "pkg": ROUTING, "test": "TestVerifC06TwoNodes", "shards_t": 16, "shards_q": 8, "crash_is_violation": True},
        ],
    },
    "C15": {
        "level": "exploration",
        "technique": "exhaustive flag x outcome matrix on the node simulator; every emitted administrative record decoded independently and matched against the harness' event log (history oracle); feedback of reports for the cascade clause",
        "level_text": "Every admissible cell of {request flags} x {time} x {fragment} x {outcome} x {report-to peer/self} is played on a fresh node (thorough: per algorithm). Each status report that leaves the node or reaches an agent must be well-formed, correctly addressed, reference the exact ID, and be justified by an earlier logged event and a request. Reports are fed back to show that no report is generated about a report. Outcomes include events that happen on a retry from the store (forwarded later, failing then succeeding, hop limit exceeded later), and each (status, reason) is reported at most once per event; report-to may also be a local endpoint with another node name or the node name of one of two listeners of a convergence-layer type. A supported neighbour of the unknown block carrying report/delete flags entitles to nothing; over two real nodes the reports that come back are requested, truthful, correctly addressed and at most one per accepted copy.",
        "level_note": "flag combinations the parser rejects (administrative record + request flags) cannot be received and are not part of the matrix; the quick tier plays every third cell (offset by the seed)",
        "assumptions": ["the report-to node is a connected peer so that reports leave immediately"],
        "units": [
            {"name": "c15.matrix", "pkg": ROUTING, "test": "TestVerifC15Matrix", "shards_t": 16, "shards_q": 8, "crash_is_violation": True},
            {"name": "c15.two-nodes", "pkg": ROUTING, "test": "TestVerifC15TwoNodes", "shards_t": 16, "shards_q": 8, "crash_is_violation": True},
        ],
    },
    "C07": {
        "level": "exploration",
        "technique": "stateful rapid property tests with a reference mailbox model: agent level (real MuxAgent + RestAgent + WebSocketAgent + mock/ping agents) and node level (simulator); forced deliver-during-fetch interleavings through schedule hooks",
        "level_text": "Histories of register / unregister / deliver / fetch / connect / close are executed against the real agents; a marker bundle per endpoint is the barrier; after every fetch and at the end each client's received multiset must equal the model's. At node level bundles for registered endpoints must reach every matching agent once and no peer. The two lost-update interleavings of deliver and fetch on one REST mailbox are forced by hooks; agents leaving a MuxAgent while a hand-over waits for a slow sibling must neither duplicate nor lose deliveries; a delivery made from inside a fetch's ResponseWriter (after the handler's mailbox work, before its answer) must neither be lost nor overwrite a fetched bundle; bundles (status reports included) arriving for an endpoint registered before or only after their arrival are handed over at most once and are done with afterwards. An application that is busy for seconds while several deliveries for it start at once; two real nodes over a real TCPCLv4 session; two daemons built by dtnd's own parseCore from generated TOML files with applications speaking HTTP only.",
        "level_note": "WebSocket clients are real connections to an httptest server on loopback; REST requests go through the router without a socket",
        "assumptions": ["a REST client that unregisters loses its mailbox (as the handler documents)"],
        "units": [
            {"name": "c07.agents", "pkg": AGENT, "test": "TestVerifC07Agents", "shards_t": 16, "shards_q": 4, "crash_is_violation": True},
            {"name": "c07.mailbox-race", "pkg": AGENT, "test": "TestVerifC07MailboxRace", "shards_t": 8, "shards_q": 2, "crash_is_violation": True},
            {"name": "c07.mux-leave", "pkg": AGENT, "test": "TestVerifC07MuxLeave", "shards_t": 8, "shards_q": 2, "crash_is_violation": True},
            {"name": "c07.node", "pkg": ROUTING, "test": "TestVerifC07Node", "shards_t": 16, "shards_q": 4, "crash_is_violation": True},
            {"name": "c07.late-registration", "pkg": ROUTING, "test": "TestVerifC07LateRegistration", "shards_t": 8, "shards_q": 4, "crash_is_violation": True},
            {"name": "c07.two-nodes", "pkg": ROUTING, "test": "TestVerifC07TwoNodes", "shards_t": 16, "shards_q": 8, "crash_is_violation": True},
            {"name": "c07.slow-agent", "pkg": ROUTING, "test": "TestVerifC07SlowAgent", "shards_t": 12, "shards_q": 6, "crash_is_violation": True},
            {"name": "c07.dtnd", "pkg": DTND, "test": "TestVerifC07Dtnd", "shards_t": 12, "shards_q": 6, "crash_is_violation": True},
        ],
    },
    "C18": {
        "level": "exploration",
        "technique": "stateful rapid property test on the node simulator with a copy-budget ledger model fed by the peers' observations; forced concurrent failure reports through a schedule hook",
        "level_text": "Histories of submissions, receptions with k copies, peer churn, failing and succeeding transmissions (also to the directly connected destination) and retry ticks are played for L = 1..8 and up to 6 peers; the ledger is computed only from bytes and outcomes seen by the scripted peers, never from the algorithm's own map. Histories include orderly restarts, fragments and own bundles handed back by a relay; a real dialed TCPCLv4 session that breaks in mid-transfer must give the copy back like a scripted failure does. Duplicate receptions of held bundles change nothing; the node also runs in a fresh child process (own registrations only).",
        "level_note": "spray metadata lives in memory: after a restart the node may have forgotten copies (the 'no copy lost' closing phase is skipped then) but must never hand out more than its budget; the closing phase (vanilla) connects all peers to show that no copy was lost",
        "assumptions": ["bundles originated at this node have budget L; received ones one copy (vanilla) or the announced count (binary)"],
        "units": [
            {"name": "c18.histories", "pkg": ROUTING, "test": "TestVerifC18Histories", "shards_t": 16, "shards_q": 6, "crash_is_violation": True},
            {"name": "c18.directed", "pkg": ROUTING, "test": "TestVerifC18Directed", "shards_t": 4, "shards_q": 4, "crash_is_violation": True},
            {"name": "c18.real-tcpcl", "pkg": ROUTING, "test": "TestVerifC18RealTCPCL", "shards_t": 8, "shards_q": 4, "crash_is_violation": True},
            {"name": "c18.fresh-process", "pkg": ROUTING, "test": "TestVerifC18FreshProcess", "shards_t": 4, "shards_q": 4, "crash_is_violation": True},
        ],
    },
    "C19": {
        "level": "exploration",
        "technique": "rapid property tests: range/monotonicity invariants over long update sequences with extreme constants; forwarding predicate on observed values via the node simulator; aliasing probe and concurrent stress for the crash clause",
        "level_text": "Up to 5000-step sequences of encounters, ageing ticks and received vectors with constants and values at 0, 1, denormals and 1-2^-53 are run on the real update functions with invariants after every step; the strict-inequality forwarding rule is checked on a real Core for every ordering incl. ties and unknown peers, judged against the peers' latest advertised vectors (several vectors per peer); a kept metadata bundle must not change after hand-over (deterministic stand-in for the serialisation race) and a multi-goroutine stress must not kill the process. The stress runs on a node that knows 3000 others; the node also runs in a fresh child process, alone and underneath a sensor mule, and must understand a peer's vector.",
        "level_note": "the crash clause is schedule-dependent: the aliasing probe makes the shared-map defect deterministic, the stress run is best effort (3 s / 20 s)",
        "assumptions": ["configuration constants and received predictabilities in [0,1] (premise of the statement)"],
        "units": [
            {"name": "c19.math", "pkg": ROUTING, "test": "TestVerifC19Math", "shards_t": 16},
            {"name": "c19.forwarding", "pkg": ROUTING, "test": "TestVerifC19Forwarding", "shards_t": 16, "shards_q": 4, "crash_is_violation": True},
            {"name": "c19.aliasing", "pkg": ROUTING, "test": "TestVerifC19Aliasing", "shards_t": 4, "crash_is_violation": True},
            {"name": "c19.stress", "pkg": ROUTING, "test": "TestVerifC19Stress", "crash_is_violation": True},
            {"name": "c19.fresh-process", "pkg": ROUTING, "test": "TestVerifC19FreshProcess", "shards_t": 4, "shards_q": 4, "crash_is_violation": True},
        ],
    },
    "C20": {
        "level": "exploration",
        "technique": "differential rapid property test: the node's routing table against an independent Floyd-Warshall over the link-state graph the node holds; validity predicate for next hops; arrival-order model for link-state updates",
        "level_text": "Generated link-state graphs (own neighbours through real peer events, other nodes' link state through real DTLSR-block bundles in generated arrival orders) are fed to a real Core; after the recompute job the table must be a least-cost table for some instant in the bracket of clock readings, with next hops among the node's own neighbours; unicast bundles must only go to that next hop. The node's own link-state broadcast must be handed exactly once to every connected neighbour, also to one connected over two convergence layers. The node also runs in a fresh child process (own registrations only), alone and underneath a sensor mule.",
        "level_note": "lost links of the node itself are 0..20 ms old (real waits), received ones arbitrary; loss times in the future (clock skew) are outside the domain; the exhaustive enumeration of all graphs on 4 nodes is replaced by random graphs",
        "assumptions": ["several correct next hops may exist: a validity predicate is checked, not one expected answer"],
        "units": [
            {"name": "c20.graphs", "pkg": ROUTING, "test": "TestVerifC20Graphs", "shards_t": 16, "shards_q": 6, "crash_is_violation": True},
            {"name": "c20.fresh-process", "pkg": ROUTING, "test": "TestVerifC20FreshProcess", "shards_t": 4, "shards_q": 4, "crash_is_violation": True},
        ],
    },
}
