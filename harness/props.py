"""Property table of the /verif harness: property id -> level + check units."""

BPV7 = "pkg/bpv7"

HOOK_COMMITS = []
NOT_YET = {}

PROPS = {
    "C01": {
        "level": "exploration",
        "technique": "rapid property tests: round-trip + differential against an independent CBOR encoder/decoder; item-level mutation; native coverage-guided fuzzing (thorough)",
        "level_text": "Generated valid bundles are serialised, compared byte for byte with an independent encoder, parsed, compared field-wise and re-serialised; accepted mutants and fuzz inputs go through the parse->serialise->parse fixed-point oracle. Exploration is the right level: the domain is unbounded, the oracle is exact.",
        "level_note": "trusts the harness' own 300-line CBOR reader/writer and CRCs (self-tested against published check values); Go's native fuzzer cannot be seeded",
        "assumptions": [
            "custom block types (spray, DTLSR, PRoPHET, signature) are registered through the public ExtensionBlockManager, as dtnd does",
            "payloads up to ~3 MiB; lifetimes 1 h .. 2^40 ms; creation time within the last minute or zero",
        ],
        "units": [
            {"name": "c01.valid", "pkg": BPV7, "test": "TestVerifC01Valid", "shards_t": 16},
            {"name": "c01.mutants", "pkg": BPV7, "test": "TestVerifC01Mutants", "shards_t": 16},
            {"name": "c01.fuzz", "pkg": BPV7, "kind": "fuzz", "fuzz": "FuzzVerifC01", "seconds": 240, "tiers": ["thorough"]},
        ],
    },
    "C03": {
        "level": "fault_enumeration",
        "technique": "exhaustive single-bit fault enumeration per generated bundle + rapid-generated bursts, judged by an independent CRC-16/X-25 and CRC-32C implementation over independently delimited blocks",
        "level_text": "For every generated fully CRC-protected bundle every bit position is flipped (exhaustive per bundle) and random bursts up to the CRC width are injected; acceptance is judged by independent bit-wise CRCs. The serialiser's CRCs are compared with the same independent implementation, and every public constructor path is enumerated for 'primary block always carries a CRC'.",
        "level_note": "trusts the harness' bit-wise CRC implementations (self-tested with the published check values 0x906E / 0xE3069283) and CBOR reader; bundles 60..700 bytes for the exhaustive part, up to 70 KB for bursts",
        "assumptions": ["bursts are confined to one block; bursts that move a block boundary are outside the statement's premise and only checked for 'not accepted unless sound'"],
        "units": [
            {"name": "c03.write", "pkg": BPV7, "test": "TestVerifC03Write", "shards_t": 8},
            {"name": "c03.constructors", "pkg": BPV7, "test": "TestVerifC03Constructors"},
            {"name": "c03.bitflips", "pkg": BPV7, "test": "TestVerifC03BitFlips", "shards_t": 16},
            {"name": "c03.bursts", "pkg": BPV7, "test": "TestVerifC03Bursts", "shards_t": 16},
            {"name": "c03.accept-only-if", "pkg": BPV7, "test": "TestVerifC03AcceptOnlyIf", "shards_t": 8},
        ],
    },
}
