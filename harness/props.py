"""Property table of the /verif harness: property id -> level + check units."""

BPV7 = "pkg/bpv7"

HOOK_COMMITS = []
NOT_YET = {}

PROPS = {
    "C01": {
        "level": "exploration",
        "technique": "rapid property tests: round-trip + differential against an independent CBOR encoder/decoder; item-level mutation; native coverage-guided fuzzing (thorough)",
        "level_text": "Generated valid bundles are serialised, compared byte for byte with an independent encoder, parsed, compared field-wise and re-serialised; accepted mutants and fuzz inputs go through the parse->serialise->parse fixed-point oracle. Exploration is the right level: the domain is unbounded, the oracle is exact.",
        "level_note": "trusts the harness' own 300-line CBOR reader/writer and CRCs (self-tested against published check values); Go's native fuzzer cannot be seeded",
        "assumptions": [
            "custom block types (spray, DTLSR, PRoPHET, signature) are registered through the public ExtensionBlockManager, as dtnd does",
            "payloads up to ~3 MiB; lifetimes 1 h .. 2^40 ms; creation time within the last minute or zero",
        ],
        "units": [
            {"name": "c01.valid", "pkg": BPV7, "test": "TestVerifC01Valid", "shards_t": 16},
            {"name": "c01.mutants", "pkg": BPV7, "test": "TestVerifC01Mutants", "shards_t": 16},
            {"name": "c01.fuzz", "pkg": BPV7, "kind": "fuzz", "fuzz": "FuzzVerifC01", "seconds": 240, "tiers": ["thorough"]},
        ],
    },
}
